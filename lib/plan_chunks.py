"""Family "chunks": FairChunks (spec/FairChunks.tla). Not one of the listed properties on its own: it composes
with C04 (every step is a successor query on an Elias-Fano dictionary), so it is run as part of C04."""
import gen_chunks

FAMILY = "chunks"
TRACE_SPEC = "Trace_FairChunks"
PROPS = ["C04"]


def mc(prop, tier):
    return [("MC_FairChunks", "MC_FairChunks.cfg", ["MC_FairChunks.Step"])]


def exports(prop, tier):
    return [("tlc", "MC_FairChunks", "MC_FairChunks_export.cfg")]


def episodes(prop, tier, seed):
    return {"rand": (gen_chunks.episodes(seed, 400 if tier == "quick" else 8000), "verif")}


def nontrivial(epi):
    return len(epi.get("wts", [])) >= 2 and epi.get("target", 0) > 0


RULE = "chunks: episode = (weights, target, constructor) + next() until exhaustion; non-trivial = at least two weights and a positive target"
ASSUME = ["chunks: weights and cumulative weights < 2^31"]
