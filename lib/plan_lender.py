"""Family "lender": rewindable I/O lenders (spec/Lender.tla)."""
import gen_lender

FAMILY = "lender"
TRACE_SPEC = "Trace_Lender"
# C17: "a source that cannot be rewound: that error is returned" is decided for sux's own lenders by the flaky batch
PROPS = ["C20", "C17"]


def mc(prop, tier):
    q = tier == "quick"
    if prop == "C17":
        return []
    return [("MC_Lender", "MC_Lender_lines.cfg" if q else "MC_Lender_lines9.cfg",
             ["MC_Lender.Next", "MC_Lender.Nexts", "MC_Lender.Drain", "MC_Lender.Rewind"])]


def exports(prop, tier):
    q = tier == "quick"
    if prop == "C17":
        return []
    if q:
        return [("tlc", "MC_Lender", "MC_Lender_d4.cfg"), ("tlc-nexts", "MC_Lender", "MC_Lender_d3n.cfg")]
    return [("tlc", "MC_Lender", "MC_Lender_d4.cfg"), ("tlc-d6", "MC_Lender", "MC_Lender_d6.cfg"),
            ("tlc-nexts", "MC_Lender", "MC_Lender_d3n.cfg")]


def episodes(prop, tier, seed):
    q = tier == "quick"
    if prop == "C17":
        # (without Take: its rewind is the recorded finding of C20, not a question of error propagation)
        return {"flaky": ([e for e in gen_lender.flaky_episodes(seed + 17, 150 if q else 3000) if not e["take"]], "verif")}
    out = {"rand": (gen_lender.small_episodes(seed, 1500 if q else 20000), "verif"),
           "big": (gen_lender.big_episodes(seed, 27 if q else 135), "verif"),
           "flaky": (gen_lender.flaky_episodes(seed, 150 if q else 3000), "verif"),
           "corrupt": (gen_lender.corrupt_episodes(seed, 120 if q else 2000), "verif"),
           "marked": (gen_lender.marked_episodes(seed, 240 if q else 2400), "verif"),
           "wide-window": (gen_lender.wide_window_episodes(seed, 30 if q else 300), "verif")}
    if not q:
        out["rand-release"] = (gen_lender.small_episodes(seed + 1, 8000), "release")
        out["big-release"] = (gen_lender.big_episodes(seed + 1, 45), "release")
    return out


def nontrivial(epi):
    names = [o["op"] for o in epi["ops"]]
    if "rewind" not in names:
        return False
    i = names.index("rewind")
    return any(o in ("next", "nexts", "drain") for o in names[:i]) and any(o in ("next", "nexts", "drain") for o in names[i:])


RULE = ("lender: episode = one lender (kind, input, take counts, compression layout) + a consume/rewind history; "
        "non-trivial = items are consumed both before and after a rewind; distinct by operation list")
ASSUME = ["lenders: sources are in-memory cursors and regular temporary files holding valid UTF-8; I/O errors are not injected "
          "here (C17 does that) and are never admissible",
          "lenders: a gzip source is a single member (GzDecoder stops at the end of the first member; several members are "
          "outside this check); zstd sources may hold several frames",
          "lenders: Take is applied when the lender is created, not in the middle of a pass"]
