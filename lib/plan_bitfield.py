"""Family "bitfield": BitFieldVec / AtomicBitFieldVec over u8 u16 u32 u64 u128 usize (spec/BitField.tla).

C05  the vector is observationally a Vec of w-bit values (histories; all word types and widths)
C10  bulk operations equal their element-by-element definitions (copy, apply_in_place, reset, chunks, get_unaligned)
C14  storage outside the logical contents is neither trusted nor modified (dirty raw starts; the bitvec family
     contributes the BitVec part of the same property)
C11  mem_size of a built/grown vector <= len*width bits rounded up to words (+ padding word) + header
C12  out-of-domain arguments: answers or panics, never abort/hang
C15  serialize + deserialize_full / deserialize_eps / mmap: same answers
"""
import gen_bitfield as g

FAMILY = "bitfield"
TRACE_SPEC = "Trace_BitField"
PROPS = ["C05", "C10", "C14", "C11", "C12", "C15"]

_MUT = ["MC_BitField.Construct", "MC_BitField.Mutate"]
_BR = ["MC_BitFieldCopy.Construct"] + ["MC_BitFieldCopy.B%d" % k for k in range(7)]


def mc(prop, tier):
    q = tier == "quick"
    if prop == "C05":
        # exhaustive 4-bit-word design model: every backend, width, length, operation, argument
        return [("MC_BitField", "MC_BitField_w4.cfg", _MUT)] if q else \
            [("MC_BitField", "MC_BitField_w4_heavy.cfg", _MUT), ("MC_BitField", "MC_BitField_w4_3w.cfg", _MUT),
             ("MC_BitField", "MC_BitField_w8_design.cfg", _MUT)]
    if prop == "C14":
        # the same model: its raw constructors enumerate every garbage pattern beyond the contents
        return [("MC_BitField", "MC_BitField_w4_c14.cfg", _MUT)] if q else \
            [("MC_BitField", "MC_BitField_w4_heavy.cfg", _MUT), ("MC_BitField", "MC_BitField_w8_design.cfg", _MUT)]
    if prop == "C10":
        # CopyDesign = Copy on W = 8 (per-branch coverage) + apply/reset/chunks/unaligned transcriptions on W = 8
        return [("MC_BitFieldCopy", "MC_BitFieldCopy_w8_mc.cfg", _BR), ("MC_BitField", "MC_BitField_w8_design.cfg", _MUT)] if q else \
            [("MC_BitFieldCopy", "MC_BitFieldCopy_w8_mc.cfg", _BR), ("MC_BitField", "MC_BitField_w8_design.cfg", _MUT),
             ("MC_BitField", "MC_BitField_w4_3w.cfg", _MUT)]
    return []


def exports(prop, tier):
    q = tier == "quick"
    if prop == "C05":
        return [("tlc", "MC_BitField", "MC_BitField_w8_d2.cfg" if q else "MC_BitField_w8_d3.cfg")]
    if prop == "C10":
        return [("tlc-copy", "MC_BitFieldCopy", "MC_BitFieldCopy_w8.cfg" if q else "MC_BitFieldCopy_w8_big.cfg")]
    if prop == "C14":
        return [("tlc-garbage", "MC_BitField", "MC_BitField_w8_garb.cfg")]
    return []


def episodes(prop, tier, seed):
    q = tier == "quick"
    out = {}
    if prop == "C05":
        out["rand"] = (g.random_episodes(seed, 1800 if q else 24000) + g.recipes(), "verif")
        out["rand-release"] = (g.random_episodes(seed + 1, 600 if q else 8000, src="rand-release") + g.recipes(), "release")
    if prop == "C10":
        eps = g.bulk_episodes(seed, 1500 if q else 16000) + g.recipes()
        for wt in g.WTS:
            W = g.WT[wt]
            widths = sorted({1, 3, 5, 7, W // 2 - 1, W // 2 + 1, W - 3, W - 1, W} if q else set(range(1, W + 1)))
            eps += g.copy_grid_episodes(seed, wt, [w for w in widths if 0 < w <= W], 12 if q else 24)
        out["bulk"] = (eps, "verif")
        out["bulk-release"] = (g.bulk_episodes(seed + 1, 500 if q else 6000) + g.recipes(), "release")
    if prop == "C14":
        out["dirty"] = (g.dirty_episodes(seed, 1500 if q else 24000), "verif")
        if not q:
            out["dirty-release"] = (g.dirty_episodes(seed + 1, 6000), "release")
    if prop == "C11":
        out["mem"] = (g.mem_episodes(seed, 3000 if q else 20000), "verif")
    if prop == "C12":
        out["ood"] = (g.ood_episodes(seed, 4000 if q else 24000) + g.ood_known_episodes(), "verif")
        out["ood-release"] = (g.ood_episodes(seed + 1, 1500 if q else 10000) + g.overflow_episodes(), "release")
    if prop == "C15":
        out["reload"] = (g.reload_episodes(seed, 1500 if q else 8000), "verif")
        if not q:
            out["reload-release"] = (g.reload_episodes(seed + 1, 1500), "release")
    return out


def nontrivial(epi):
    ops = [o["op"] for o in epi["ops"]]
    return (any(o in ("pop", "resize", "clear") for o in ops) or ops[0] in ("raw", "a_raw") or "into" in ops
            or any(o in ("copy_to", "copy_from", "apply", "chunks", "reload") for o in ops))


RULE = ("bitfield: episode = word type + constructor + operation history + observer battery; non-trivial = contains a "
        "shrink (pop/resize/clear), a dirty raw start, a form conversion, a bulk operation or a reload; distinct by "
        "operation list")
ASSUME = ["BitField: lengths and bit counts < 2^31; values are compared bit by bit (sets of positions) for all six word types",
          "BitField: methods documented as unchecked (get_unchecked, set_unchecked, next_unchecked, apply_in_place_unchecked) "
          "are called only inside their documented preconditions",
          "BitField C11: additive constant = struct header (40 bytes + one mask word + alignment padding < max(8, W/8)) "
          "+ one word when len*width = 0 (constructors allocate at least one word)",
          "BitField: the 4-bit word of MC_BitField_w4 is a scaled model; W = 8 configurations are real (BitFieldVec<u8>)"]
