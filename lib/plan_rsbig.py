"""Family "rsbig": rank/select over vectors longer than 2^32 bits (spec/RankSelBig.tla): the 64-bit span class of
the adaptive selectors, the upper counts of the small-counter structures and the superblocks of SelectSmall, which
the "ranksel" family (positions < 2^31) only reaches through scaled design models."""
import gen_rsbig

FAMILY = "rsbig"
TRACE_SPEC = "Trace_RankSelBig"
PROPS = ["C01", "C02"]


def mc(prop, tier):
    return [("MC_RankSelBig", "MC_RankSelBig.cfg", ["MC_RankSelBig.MCInit"])]


def exports(prop, tier):
    return []


def episodes(prop, tier, seed):
    q = tier == "quick"
    # the same vectors serve both properties: rank structures under C01, selection structures under C02
    off = 0 if prop == "C01" else 3
    eps = gen_rsbig.episodes(seed + off, 29 if q else 90, big=not q)
    if q:   # quick: rank structures under C01, selection structures under C02
        eps = [e for e in eps if ("/" not in e["key"]) == (prop == "C01")]
    # (executor processes in parallel: every one holds a vector of 0.5 .. 1 GiB and its structures, up to several GiB
    # for the dense ones of the thorough tier)
    out = {"big": (eps, "verif", 6 if q else 3)}
    if not q:
        out["big-release"] = (gen_rsbig.episodes(seed + off + 1, 60, big=True), "release", 3)
    return out


def nontrivial(epi):
    return len(epi.get("runs", [])) >= 1


RULE = "rsbig: episode = (length > 2^32, positions of the ones, stack) + rank/select battery; non-trivial = at least one run of ones"
ASSUME = ["rsbig: vectors of 2^32 .. 2^33+ bits given as at most a few hundred runs of ones: sparse (runs of length one) and dense (runs of billions of bits)"]
