#!/usr/bin/env python3
"""tlcq.py MODULE CFG [workers] -- run TLC once and print a summary (developer aid)."""
import sys
import os
sys.path.insert(0, os.path.dirname(os.path.abspath(__file__)))
import core
r = core.tlc_mc(sys.argv[1], sys.argv[2], workers=int(sys.argv[3]) if len(sys.argv) > 3 else 8, allow_violation=True)
out = r['out']
k = out.find('Starting...')
print(out[k:][-int(sys.argv[4]) if len(sys.argv) > 4 else -2500:])
print('rc', r['rc'], 'generated', r['generated'], 'distinct', r['distinct'], 'wall %.1f' % r['wall'])
print({k: v for k, v in r['coverage'].items()})
