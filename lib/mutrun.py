#!/usr/bin/env python3
"""mutrun.py <slot> <patch.diff> <Cnn> [<Cnn> ...] : applies a seeded change to a scratch worktree
(/tmp/mr/<slot>, created on demand from /repo HEAD, reused between calls so the build cache stays warm),
runs the quick checks against it (VERIF_REPO) and prints one line per check: CAUGHT / MISSED / TOOLERR."""
import os
import subprocess
import sys
import time

slot, patch, props = sys.argv[1], os.path.abspath(sys.argv[2]), sys.argv[3:]
wt = "/tmp/mr/%s" % slot
os.makedirs("/tmp/mr", exist_ok=True)
if not os.path.isdir(wt):
    subprocess.check_call(["git", "-C", "/repo", "worktree", "add", "-q", "--detach", wt, "HEAD"])
subprocess.check_call(["git", "-C", wt, "checkout", "-q", "--detach", subprocess.check_output(
    ["git", "-C", "/repo", "rev-parse", "HEAD"], text=True).strip()])
subprocess.check_call(["git", "-C", wt, "checkout", "-q", "--", "."])
r = subprocess.run(["git", "-C", wt, "apply", patch])
if r.returncode != 0:
    print("PATCH-DOES-NOT-APPLY", patch)
    sys.exit(2)
env = dict(os.environ, VERIF_REPO=wt)
tier = os.environ.get("VERIF_TIER", "quick")
try:
    for p in props:
        t0 = time.time()
        r = subprocess.run(["./check", p, "--tier", tier], cwd="/verif", env=env, stdout=subprocess.PIPE,
                           stderr=subprocess.PIPE, text=True)
        viol = [l for l in r.stdout.splitlines() if l.startswith("VIOLATION")]
        verdict = {0: "MISSED", 1: "CAUGHT"}.get(r.returncode, "TOOLERR")
        print("%s %s %s rc=%d %.0fs %s" % (verdict, p, patch, r.returncode, time.time() - t0, viol[:2]))
        if verdict == "TOOLERR":
            print(r.stderr[-1500:])
        else:
            print("\n".join(l for l in r.stderr.splitlines() if "rejected:" in l)[:1200])
finally:
    subprocess.call(["git", "-C", wt, "checkout", "-q", "--", "."])
