"""Scripts for the "shardedge" family (inputs only: no expected values are
computed here; Trace_ShardEdge decides).

A parameter set is (implementation, n, eps, largest-shard recipe); it is
followed by signatures that put every field the edge computation reads at its
extremes: all zero, all ones, each 16-bit limb cleared / saturated, single
bits, the shard bits saturated, random words."""
import os
import random

IMPLS_FUSE = [("FuseLge3Shards", 2), ("FuseLge3FullSigs", 2), ("FuseLge3NoShards", 2), ("FuseLge3NoShards", 1)]
IMPLS_MWHC = [("Mwhc3Shards", 2), ("Mwhc3NoShards", 2)]
SHARDING = {"FuseLge3Shards", "FuseLge3FullSigs", "Mwhc3Shards"}
EPS = ["0.001", "0.01", "0.1"]
M64 = (1 << 64) - 1


def has_mwhc():
    """The MWHC logics exist only when the harness enables sux's `mwhc` feature."""
    here = os.path.dirname(os.path.abspath(__file__))
    try:
        return "sux/mwhc" in open(os.path.join(here, "..", "harness", "Cargo.toml")).read()
    except OSError:
        return False


def impls():
    return IMPLS_FUSE + (IMPLS_MWHC if has_mwhc() else [])


def limbs(x):
    v = []
    while x:
        v.append(x & 0x7FFF)
        x >>= 15
    return v


def bits(x):
    return [i for i in range(64) if (x >> i) & 1]


def boundary_ns():
    s = set()
    for k in range(0, 40):
        for d in (-1, 0, 1):
            s.add((1 << k) + d)
    for k in range(0, 13):
        for d in (-1, 0, 1):
            s.add(10 ** k + d)
    for base in (100_000, 200_000, 400_000, 800_000, 5_000_000, 10_000_000, 20_000_000, 40_000_000,
                 50_000, 150_000, 1_600_000):
        for d in (-2, -1, 0, 1, 2):
            s.add(base + d)
    # largest shard = 1.01 * average straddles 100000 just below the shard-count switches
    for base in (198_020, 198_021, 199_000, 199_990, 396_040, 399_990, 792_080, 799_990):
        s.add(base)
    s.add(10 ** 12)
    return sorted(x for x in s if 0 <= x <= 10 ** 12)


def random_ns(r, k):
    out = []
    for _ in range(k):
        e = r.uniform(0, 12)
        out.append(min(10 ** 12, int(10 ** e) + r.randrange(0, 3)))
    return out


def word_patterns(r):
    """64-bit words with one 16-bit limb at an extreme."""
    out = [0, M64]
    for k in range(4):
        m = 0xFFFF << (16 * k)
        rnd = r.getrandbits(64)
        out += [rnd & ~m & M64, rnd | m, M64 & ~m, m]
    return out


def signatures(r, sigw, count):
    """`count` signatures (lists of `sigw` words). The extremes (all zero, all
    ones, every word saturated in turn) are always present: they reach the
    first and the last segment / shard / sort key."""
    must = [[0] * sigw, [M64] * sigw]
    if sigw == 2:
        must += [[M64, 0], [0, M64]]
    # top 16-bit limb of each word saturated, the rest random: last segment with arbitrary offsets
    for k in range(sigw):
        s = [r.getrandbits(64) for _ in range(sigw)]
        s[k] |= 0xFFFF << 48
        must.append(s)
    wp = word_patterns(r)
    sigs = []
    if sigw == 1:
        sigs += [[w] for w in wp]
    else:
        for w in wp:
            sigs.append([w, r.choice([0, M64, r.getrandbits(64)])])
            sigs.append([r.choice([0, M64, r.getrandbits(64)]), w])
    # single bits (a sample), on a zero and on a saturated background
    for _ in range(max(4, count // 6)):
        k = r.randrange(sigw)
        b = r.choice([0, 1, 15, 16, 31, 32, 33, 47, 48, 62, 63, r.randrange(64)])
        s = [0] * sigw
        s[k] = 1 << b
        sigs.append(s)
        s = [M64] * sigw
        s[k] = M64 ^ (1 << b)
        sigs.append(s)
    # shard bits saturated / cleared (top bits of the first word), the rest random or extreme
    for h in (1, 2, 3, 4, 8, 11, 13, 16, 20):
        top = ((1 << h) - 1) << (64 - h)
        sigs.append([(r.getrandbits(64) | top)] + [r.getrandbits(64) for _ in range(sigw - 1)])
        sigs.append([(r.getrandbits(64) & ~top & M64)] + [M64 for _ in range(sigw - 1)])
        sigs.append([top] + [M64 for _ in range(sigw - 1)])
    r.shuffle(sigs)
    nrand = max(4, count // 5)
    sigs = must + sigs[:max(0, count - len(must) - nrand)]
    while len(sigs) < count:
        sigs.append([r.getrandbits(64) for _ in range(sigw)])
    return sigs[:max(count, len(must))]


def edge_ops(r, sigw, count):
    ops = [{"op": "edge", "sig": [bits(w) for w in s]} for s in signatures(r, sigw, count)]
    # signatures on both sides of points where the first vertex changes (found by the executor by binary
    # search on edge()): that is where low-order bits of the fixed-point product matter
    if count >= 6:
        for s in signatures(r, sigw, 3)[-3:]:
            ops.append({"op": "boundary", "sig": [bits(w) for w in s], "var": r.choice(["r", "r", "w0", "w1"] if sigw == 2 else ["r", "w0"]),
                        "frac": r.choice([0, 1, 999, 1000, r.randrange(1001), r.randrange(1001)])})
    return ops


def recipe(r, logic, n):
    if logic not in SHARDING or n < 100_000:
        return {"k": "avg"}
    x = r.random()
    if x < 0.3:
        return {"k": "avg"}
    if x < 0.65:
        return {"k": "max"}
    if x < 0.9:
        return {"k": "mid", "i": r.randrange(1, 16)}
    return r.choice([{"k": "over", "i": r.randrange(0, 8)}, {"k": "all"}])


def setup_ops(n, eps, ms):
    return [{"op": "shards", "n": limbs(n), "eps": eps}, {"op": "graphs", "n": limbs(n), "ms": ms}]


def episode(r, logic, sigw, n, eps, ms, nsig, src="rand", extra=True):
    ops = setup_ops(n, eps, ms) + edge_ops(r, sigw, nsig)
    if extra and r.random() < 0.25:
        ops += [{"op": "reload", "mode": r.choice(["full", "eps", "mmap"])}] + edge_ops(r, sigw, 6)
    if extra and r.random() < 0.1:
        # a second set-up on the same instance (set-up methods may be called again)
        n2 = r.choice([0, 1, 100, 99_999, 200_001, 800_001, 10 ** 9, n + 1])
        ops += setup_ops(n2, r.choice(EPS), recipe(r, logic, n2)) + edge_ops(r, sigw, 12)
    return {"fam": "shardedge", "src": src, "logic": logic, "sigw": sigw, "ops": ops}


def sweep(seed, small_upto, n_random, nsig, stride=1):
    """All n in 0..small_upto (every `stride`-th, random phase), the boundary n
    and random n, for every implementation."""
    r = random.Random(seed)
    ns = list(range(r.randrange(stride), small_upto + 1, stride)) + boundary_ns() + random_ns(r, n_random)
    eps = []
    for n in ns:
        for (logic, sigw) in impls():
            e = r.choice(EPS) if n > 800_000 else "0.001"
            eps.append(episode(r, logic, sigw, n, e, recipe(r, logic, n), nsig))
            if n > 800_000 and logic in SHARDING and r.random() < 0.5:
                for e2 in EPS:
                    if e2 != e:
                        eps.append(episode(r, logic, sigw, n, e2, recipe(r, logic, n), max(10, nsig // 3)))
    r.shuffle(eps)
    return eps


def ood(seed, count):
    """C12: edges of a logic that has not been set up (default instance), set-up
    calls in the wrong order or with unrelated arguments, absurd largest-shard
    sizes. Nothing may abort or hang."""
    r = random.Random(seed)
    out = []
    ims = impls()
    big = [0, 1, 2, 99_999, 100_001, 800_001, 2 ** 31, 2 ** 32 - 1, 2 ** 32, 2 ** 32 + 1, 3 * 10 ** 9,
           4 * 10 ** 9, 10 ** 12, 2 ** 62, 2 ** 64 - 1]
    for k in range(count):
        logic, sigw = ims[k % len(ims)]
        ops = []
        mode = r.randrange(5)
        if mode == 0:       # never set up
            ops += edge_ops(r, sigw, 10)
        elif mode == 1:     # graphs without shards
            n = r.choice(big[:11])
            ops += [{"op": "graphs", "n": limbs(n), "ms": {"k": "abs", "v": limbs(r.choice(big[:11]))}}]
            ops += edge_ops(r, sigw, 10)
        elif mode == 2:     # shards for one n, graphs for another
            n1, n2 = r.choice(big[:13]), r.choice(big[:11])
            ops += [{"op": "shards", "n": limbs(n1), "eps": r.choice(EPS + ["0", "1", "1e-9", "1000"])},
                    {"op": "graphs", "n": limbs(n2), "ms": {"k": "abs", "v": limbs(r.choice(big))}}]
            ops += edge_ops(r, sigw, 10)
        elif mode == 3:     # huge / degenerate n with a consistent recipe
            n = r.choice(big)
            ops += setup_ops(n, r.choice(EPS), r.choice([{"k": "avg"}, {"k": "max"}, {"k": "all"}]))
            ops += edge_ops(r, sigw, 10)
        else:               # absurd largest shard for a sane n
            n = r.choice([0, 5, 1000, 150_000, 900_000, 30_000_000])
            ops += [{"op": "shards", "n": limbs(n), "eps": r.choice(EPS)},
                    {"op": "graphs", "n": limbs(n), "ms": {"k": "abs", "v": limbs(r.choice(big))}}]
            ops += edge_ops(r, sigw, 10)
        ops.append({"op": "state"})
        out.append({"fam": "shardedge", "src": "ood", "logic": logic, "sigw": sigw, "ops": ops})
    return out


def reloads(seed, count):
    """C15: every implementation, serialized and loaded back in each of the
    three ways before and after the set-up, then queried with the battery."""
    r = random.Random(seed)
    out = []
    ns = boundary_ns()
    k = 0
    while len(out) < count:
        for (logic, sigw) in impls():
            for mode in ("full", "eps", "mmap"):
                n = ns[(7 * k) % len(ns)] if k % 3 else r.randrange(0, 3000)
                k += 1
                ops = [{"op": "reload", "mode": mode}]
                ops += setup_ops(n, r.choice(EPS), recipe(r, logic, n))
                sigs = edge_ops(r, sigw, 25)
                ops += sigs + [{"op": "reload", "mode": mode}] + sigs + [{"op": "state"}]
                ops += [{"op": "reload", "mode": r.choice(["full", "eps", "mmap"])}] + edge_ops(r, sigw, 10)
                out.append({"fam": "shardedge", "src": "reload", "logic": logic, "sigw": sigw, "ops": ops})
    return out[:count]


def mems(seed, count):
    r = random.Random(seed)
    out = []
    ns = boundary_ns()
    for k in range(count):
        logic, sigw = impls()[k % len(impls())]
        n = r.choice(ns)
        ops = [{"op": "mem_size"}] + setup_ops(n, r.choice(EPS), recipe(r, logic, n)) + [{"op": "mem_size"}]
        ops += edge_ops(r, sigw, 4)
        out.append({"fam": "shardedge", "src": "mem", "logic": logic, "sigw": sigw, "ops": ops})
    return out
