"""Scripts for the "rcl" family (RearCodedListBuilder / RearCodedList).

Inputs only: no expected result is computed here; Trace_RearCoded decides.
Stored strings are valid UTF-8 without NUL, written as lists of byte values
(only the probes of the out-of-domain episodes hold NUL bytes)."""
import random

KS = [1, 2, 3, 4, 7, 8, 16, 1000]
HUGE_IDX = [2 ** 31 - 1, 2 ** 31, 2 ** 32, 2 ** 63 - 1, 2 ** 63, 2 ** 64 - 1]
RELOADS = ["full", "eps", "mmap", "load_full", "load_mem", "load_mmap", "eps8"]

# characters whose UTF-8 encodings sit at the edges of the 1/2/3/4-byte forms
# (bytes 0x7F / 0xC2 0x80 / 0xDF 0xBF / 0xE0 0xA0 0x80 / 0xEF 0xBF 0xBF /
# 0xF0 0x90 0x80 0x80 / 0xF4 0x8F 0xBF 0xBF) and a few ordinary ones
EDGE_CHARS = ["\x01", "\x7f", "\u0080", "߿", "ࠀ", "￿", "\U00010000", "\U0010ffff",
              "é", "ß", "日", "本", "\U0001f600"]
ALPHABETS = ["ab", "abc", "abcdefghijklmnopqrstuvwxyz", "aé日\U0001f600", "".join(EDGE_CHARS),
             "\x7f\u0080", "01"]


def b(s):
    """string -> list of byte values"""
    return list(s.encode("utf-8"))


def key(s):
    return s.encode("utf-8")


# --------------------------------------------------------------------------
# string lists
# --------------------------------------------------------------------------
def rword(r, alpha, maxlen):
    n = r.choice([0, 1, 1, 2, 2, 3, r.randrange(0, maxlen + 1)])
    return "".join(r.choice(alpha) for _ in range(n))


def rlist(r, n, alpha=None, maxlen=6):
    """n strings with heavy prefix sharing"""
    alpha = alpha or r.choice(ALPHABETS)
    out = []
    prev = ""
    for _ in range(n):
        m = r.randrange(5)
        if m == 0 or not prev:
            s = rword(r, alpha, maxlen)
        elif m == 1:      # extension of the previous string
            s = prev + rword(r, alpha, 3)
        elif m == 2:      # shares a proper prefix
            s = prev[:r.randrange(0, len(prev) + 1)] + rword(r, alpha, 3)
        elif m == 3:      # duplicate
            s = prev
        else:
            s = r.choice(out)[:r.randrange(0, 4)] + rword(r, alpha, maxlen)
        out.append(s)
        prev = s
    return out


def arrange(r, strs, how=None):
    how = how or r.choice(["sorted", "sorted", "sorted_dups", "shuffled", "one_swap", "reversed", "as_is"])
    if how == "sorted":
        return sorted(strs, key=key)
    if how == "sorted_dups":
        s = sorted(strs + [r.choice(strs) for _ in range(min(3, len(strs)))], key=key) if strs else []
        return s
    if how == "shuffled":
        s = list(strs)
        r.shuffle(s)
        return s
    if how == "one_swap":
        s = sorted(strs, key=key)
        if len(s) >= 2:
            i = r.randrange(len(s) - 1)
            j = r.choice([i + 1, len(s) - 1, r.randrange(len(s))])
            s[i], s[j] = s[j], s[i]
        return s
    if how == "reversed":
        return sorted(strs, key=key, reverse=True)
    return list(strs)


def rn(r, k):
    """a list length, biased to the block boundaries of k"""
    c = [0, 1, 2, k - 1, k, k + 1, 2 * k - 1, 2 * k, 2 * k + 1, 3 * k, 3 * k + 1]
    c = [x for x in c if 0 <= x <= 60]
    if r.random() < 0.7:
        return r.choice(c)
    return r.randrange(0, 40)


# --------------------------------------------------------------------------
# probes
# --------------------------------------------------------------------------
def succ_str(s):
    """a string just above s in byte order that is still valid UTF-8"""
    return s + "\x01"


def bump_last(s):
    if not s:
        return "\x01"
    c = ord(s[-1])
    for d in (1, 2, 0x80 - c, 0x800 - c):
        n = c + d
        if 0 < n <= 0x10ffff and not (0xd800 <= n <= 0xdfff) and n != c:
            return s[:-1] + chr(n)
    return s + "a"


def lower_last(s):
    if not s:
        return ""
    c = ord(s[-1])
    if c > 1 and not (0xd800 <= c - 1 <= 0xdfff):
        return s[:-1] + chr(c - 1)
    return s[:-1]


def probes(r, strs, k, limit=60):
    """present strings, and absent ones of every kind the property names"""
    ps = []
    if strs:
        heads = [strs[i] for i in range(0, len(strs), k)]
        srt = sorted(strs, key=key)
        ps += r.sample(strs, min(len(strs), 12))
        ps += heads[:6] + heads[-3:]
        for h in r.sample(heads, min(len(heads), 8)):
            ps += [h[:i] for i in range(len(h))][-3:]             # proper prefixes of a head
            ps += [h + "a", h + "\x01", h + "\U0010ffff", bump_last(h), lower_last(h)]   # extensions / neighbours
        for _ in range(6):
            i = r.randrange(len(srt))
            a = srt[i]
            ps += [succ_str(a), bump_last(a), lower_last(a), a[:-1], a + a[-1:] if a else "a"]
            if i + 1 < len(srt):                                 # between two stored strings
                c = srt[i + 1]
                j = 0
                while j < min(len(a), len(c)) and a[j] == c[j]:
                    j += 1
                ps += [a[:j] + "\x01", c[:j + 1], a + "\x01"]
        ps += ["", "\x01", lower_last(srt[0]), srt[0][:-1], srt[-1] + "z", srt[-1] + "\x01", "\U0010ffff" * 2,
               bump_last(srt[-1])]
    else:
        ps += ["", "a", "\x01", "\U0010ffff"]
    ps += [rword(r, "abé", 4) for _ in range(4)]
    seen, out = set(), []
    for p in ps:
        if p not in seen and "\x00" not in p:
            seen.add(p)
            out.append(p)
    if len(out) > limit:
        out = out[:limit // 2] + r.sample(out[limit // 2:], limit - limit // 2)
    return out


# --------------------------------------------------------------------------
# episodes
# --------------------------------------------------------------------------
def build_ops(r, k, strs, bulk=None):
    ops = [{"op": "new", "k": k}]
    bulk = (len(strs) > 30) if bulk is None else bulk
    if bulk:
        cut = r.randrange(0, len(strs) + 1) if strs and r.random() < 0.5 else len(strs)
        ops.append({"op": "extend", "strs": [b(s) for s in strs[:cut]]})
        for s in strs[cut:][:20]:
            ops.append({"op": "push", "s": b(s)})
        if len(strs) - cut > 20:
            ops.append({"op": "extend", "strs": [b(s) for s in strs[cut + 20:]]})
    else:
        for s in strs:
            ops.append({"op": "push", "s": b(s)})
            if r.random() < 0.05:
                ops.append({"op": "blen"})
    if r.random() < 0.08:
        ops.append({"op": "print_stats"})
    ops += [{"op": "blen"}, {"op": "build"}]
    return ops


def positions(r, n, k, every, extra_out=True):
    if every:
        c = list(range(0, n + 1))
    else:
        c = {0, 1, k - 1, k, k + 1, n - k - 1, n - k, n - k + 1, n - 2, n - 1, n, (n // k) * k, (n // k) * k - 1,
             (n // k) * k + 1, n // 2}
        c |= {r.randrange(0, n + 1) for _ in range(6)}
        c = sorted(x for x in c if 0 <= x <= n)
    if extra_out:
        c += [n + 1, n + 2, n + k, n + k + 1, ((n // k) + 1) * k, ((n // k) + 1) * k + 1, r.choice(HUGE_IDX)]
    return [min(x, 2 ** 64 - 1) for x in c]     # arguments are usize


def battery(r, strs, k, light=False):
    """the whole query battery on a built list (every operation of the family)"""
    n = len(strs)
    every = n <= 12
    ops = [{"op": "len"}, {"op": "len_trait"}, {"op": "is_empty"}, {"op": "mem_size"}]
    whole = ["iter", "lend", "into_iter", "into_lender", "clone"]
    ops += [{"op": o} for o in (r.sample(whole, 2) if light or n > 200 else whole)]
    idx = positions(r, n, k, every)
    for i in idx:
        ops.append({"op": "get", "i": i})
    for i in idx:
        ops.append({"op": "get_in_place", "i": i, "dirty": r.choice([[], [7], [1, 2, 3, 4, 5, 6, 7, 8, 9]])})
    for i in [x for x in idx if x < n][:8]:
        ops.append({"op": "get_unchecked", "i": i})
    js = positions(r, n, k, every and n <= 8)
    if n > 200:
        js = [j for j in js if j >= n - 40 or j > n] + [0]
    for j in js:
        ops.append({"op": r.choice(["iter_from", "lend_from"]) if (light or n > 30) else "iter_from", "j": j})
    if not (light or n > 30):
        for j in js:
            ops.append({"op": "lend_from", "j": j})
    for j in r.sample(js, min(3, len(js))):
        ops.append({"op": "into_iter_from", "j": j})
    for p in probes(r, strs, k, 30 if light else 60):
        ops.append({"op": "index_of", "s": b(p)})
        if not light or r.random() < 0.5:
            ops.append({"op": "contains", "s": b(p)})
    return ops


def episode(r, k, strs, src, light=False, reload=None):
    ops = build_ops(r, k, strs)
    if reload:
        for m in reload:
            ops.append({"op": "reload", "mode": m})
            ops += battery(r, strs, k, light=True)
    else:
        ops += battery(r, strs, k, light)
    return {"fam": "rcl", "src": src, "ops": ops}


def random_episodes(seed, count):
    r = random.Random(seed * 7919 + 9)
    eps = []
    for _ in range(count):
        # every k >= 1: now and then an absurdly large one
        k = r.choice(KS) if r.random() < 0.97 else r.choice([2 ** 31 - 1, 2 ** 32 + 1, 2 ** 63, 2 ** 64 - 1])
        n = rn(r, min(k, 20))
        strs = arrange(r, rlist(r, n))
        eps.append(episode(r, k, strs, "rand", light=r.random() < 0.5))
    return eps


def with_rear(r, rear, shared, sorted_input=True):
    """two consecutive strings whose rear length (bytes of the first one after
    the common prefix) is exactly `rear`, `shared` bytes being common"""
    pre = "m" * shared
    first = pre + "a" * rear
    second = pre + ("b" if sorted_input else "A") + r.choice(["", "z", "zz"])
    return first, second


def recipe_episodes(seed, thorough=False):
    """boundary recipes named by the property"""
    r = random.Random(seed * 104729 + 3)
    eps = []
    # the empty list and minimal lists for every k
    for k in KS:
        eps.append(episode(r, k, [], "recipe"))
        eps.append(episode(r, k, [""], "recipe"))
        eps.append(episode(r, k, ["", ""], "recipe"))
        eps.append(episode(r, k, ["a"], "recipe"))
        eps.append(episode(r, k, ["", "", "a", "a", "a", "ab"], "recipe"))
    # lengths at the block boundaries, sorted and shuffled
    for k in [1, 2, 3, 4, 7, 8, 16]:
        for n in [k - 1, k, k + 1, 2 * k, 2 * k + 1, 3 * k]:
            if n <= 0:
                continue
            base = rlist(r, n)
            eps.append(episode(r, k, arrange(r, base, "sorted"), "recipe", light=n > 12))
            eps.append(episode(r, k, arrange(r, base, "shuffled"), "recipe", light=True))
    # multi-byte UTF-8 at the edges of the encoding forms (byte order = code point order)
    edge = sorted(set(EDGE_CHARS + [a + c for a in EDGE_CHARS[:5] for c in EDGE_CHARS[5:9]]), key=key)
    for k in [1, 2, 3, 4]:
        eps.append(episode(r, k, edge, "recipe", light=True))
        eps.append(episode(r, k, arrange(r, edge, "shuffled"), "recipe", light=True))
    # rear lengths across the code boundaries 128 and 16512 (and the suffix of
    # the same lengths), at every position of a block
    small = [126, 127, 128, 129, 130, 255, 256, 257, 383, 384, 385]
    large = [16511, 16512, 16513]
    for rear in small + large:
        big = rear > 1000
        for k in ([2, 3, 4] if not big else [r.choice([2, 3, 4])]):
            for shared in ([0, 1, 5] if not big else [r.choice([0, 3])]):
                for srt in ([True, False] if not big else [r.random() < 0.7]):
                    first, second = with_rear(r, rear, shared, srt)
                    # `second` must not open a block (else no rear length is coded): at most k - 2 strings before `first`
                    npad = r.randrange(0, k - 1) if big or r.random() < 0.7 else k - 1
                    pad = ["A" * i for i in range(npad)] if srt else ["zz" + "y" * i for i in range(npad)]
                    strs = pad + [first, second]
                    # a long suffix too: a string that extends the previous one by `rear` bytes
                    tail = second + "q" * rear
                    if srt:
                        strs += [tail, tail + "r"]
                    else:
                        strs += [tail]
                    ep = build_ops(r, k, strs, bulk=False)
                    n = len(strs)
                    ep += [{"op": "len"}, {"op": "mem_size"}, {"op": r.choice(["iter", "lend", "into_lender"])}]
                    for i in range(n + 1):
                        ep.append({"op": r.choice(["get", "get_in_place"]), "i": i})
                    for j in sorted({0, n - 2, n - 1, n}):
                        ep.append({"op": r.choice(["iter_from", "lend_from"]), "j": j})
                    cand = [second, first, tail, first[:-1], first + "a", second + "\x01", tail[:-1], pre_of(first), ""]
                    for p in (cand if not big else cand[:5]):
                        ep.append({"op": "index_of", "s": b(p)})
                    eps.append({"fam": "rcl", "src": "recipe", "ops": ep})
    # rear lengths whose 3-byte code has non-zero middle / leading payload
    # (16512 + 255..257, 16512 + 65535..65537); the long string is mentioned once
    for rear in [16767, 16768, 16769, 82047, 82048, 82049]:
        eps.append(long_rear_episode(r, rear, r.choice([2, 3, 4, 7])))
    # k = 1000: one block, exactly one block, two blocks
    for n in ([999, 1000, 1001] + ([2000, 2001] if thorough else [])):
        words = sorted({rword(r, "abcd", 7) + str(i % 7) for i in range(n * 2)}, key=key)[:n]
        while len(words) < n:
            words.append(words[-1] + "x")
        for how in ["sorted", "shuffled"]:
            eps.append(episode(r, 1000, arrange(r, words, how), "recipe", light=True))
    # larger lists for the small k (many blocks: binary search depth)
    for k in [1, 2, 3, 4, 7, 8, 16]:
        n = r.choice([100, 128, 129, 257, 300])
        words = rlist(r, n, maxlen=8)
        eps.append(episode(r, k, arrange(r, words, "sorted"), "recipe", light=True))
        eps.append(episode(r, k, arrange(r, words, "sorted_dups"), "recipe", light=True))
        eps.append(episode(r, k, arrange(r, words, "one_swap"), "recipe", light=True))
    return eps


def pre_of(s):
    return s[:len(s) // 2]


def long_rear_episode(r, rear, k, budget=None):
    """first (long) / second / third with the given rear length between the
    first two, none of the last two opening a block; only short strings are
    queried back"""
    first, second = with_rear(r, rear, r.choice([0, 2]), True)
    pad = ["A" * i for i in range(r.randrange(0, max(1, k - 2)))]
    strs = pad + [first, second, second + "c"]
    i = len(pad) + 1
    n = len(strs)
    ops = [{"op": "new", "k": k}] + [{"op": "push", "s": b(x)} for x in strs] + [
        {"op": "build"}, {"op": "len"}, {"op": "get", "i": i}, {"op": "get_in_place", "i": i + 1},
        {"op": "iter_from", "j": i}, {"op": "lend_from", "j": i + 1}, {"op": "lend_from", "j": n},
        {"op": "index_of", "s": b(second)}, {"op": "index_of", "s": b(second + "c")},
        {"op": "index_of", "s": b(second + "d")}, {"op": "contains", "s": b(second[:-1])}, {"op": "mem_size"}]
    ep = {"fam": "rcl", "src": "recipe", "ops": ops}
    if budget:
        ep["budget_ms"] = budget
    return ep


def huge_rear_episodes(seed):
    """rear lengths across the 3-byte/4-byte code boundary 2113664 (thorough
    only: the strings are 2 MB long, so each one is mentioned as rarely as possible)"""
    r = random.Random(seed + 77)
    eps = []
    # (+ offsets above the boundary whose three low code bytes all differ)
    for rear in [2113663, 2113664, 2113665, 2113664 + 0x0102, 2113664 + 0x030201]:
        eps.append(long_rear_episode(r, rear, 3, budget=120000))
    return eps


def ood_episodes(seed, count):
    """out-of-domain arguments (C12): indices and start positions at and past
    the end up to usize::MAX, empty and minimal lists, never-inserted probes"""
    r = random.Random(seed * 31 + 12)
    eps = []
    for t in range(count):
        k = r.choice(KS) if r.random() < 0.9 else r.choice([2 ** 31 - 1, 2 ** 32 + 1, 2 ** 63, 2 ** 64 - 1])
        n = r.choice([0, 0, 1, 1, 2, k - 1, k, k + 1, 2 * k, 2 * k + 1, r.randrange(0, 25)])
        n = max(0, min(n, 40))
        strs = arrange(r, rlist(r, n))
        ops = build_ops(r, k, strs, bulk=r.random() < 0.3)
        bad = [n, n + 1, n + 2, n + k - 1, n + k, n + k + 1, ((n // k) + 1) * k - 1, ((n // k) + 1) * k,
               ((n // k) + 1) * k + 1, 2 * n + 3] + HUGE_IDX
        bad = sorted({min(x, 2 ** 64 - 1) for x in bad})     # arguments are usize
        if r.random() < 0.3:
            ops.append({"op": "reload", "mode": r.choice(RELOADS)})
        qs = []
        for x in bad:
            qs.append({"op": "get", "i": x})
            qs.append({"op": "get_in_place", "i": x, "dirty": r.choice([[], [5, 5]])})
            if x > n:
                qs.append({"op": r.choice(["iter_from", "lend_from", "into_iter_from"]), "j": x})
        qs += [{"op": o, "j": n} for o in ["iter_from", "lend_from", "into_iter_from"]]
        qs += [{"op": o} for o in ["iter", "lend", "into_iter", "into_lender", "len", "is_empty"]]
        for p in probes(r, strs, k, 12):
            qs.append({"op": "index_of", "s": b(p)})
        # keys holding NUL bytes (a &str may; stored strings never do): the part before the first NUL is a stored
        # string or a prefix of one, the NULs go on past the end of the block, of the data
        if strs and k < 2 ** 31:
            firsts = {strs[0], strs[-1], strs[((n - 1) // k) * k], r.choice(strs)}
            for a in sorted(firsts, key=key):
                for m in r.sample([1, 2, 7, 300, 5000, 70000], 2):
                    qs.append({"op": r.choice(["index_of", "index_of", "contains"]), "s": b(a) + [0] * m})
                qs.append({"op": "index_of", "s": b(a[:-1]) + [0] + b(a[-1:])})
            qs.append({"op": "index_of", "s": [0]})
        r.shuffle(qs)
        # in-domain calls in between: a panic must leave the list usable
        for i in range(min(n, 3)):
            qs.insert(r.randrange(len(qs) + 1), {"op": "get", "i": r.randrange(n)})
        eps.append({"fam": "rcl", "src": "ood", "ops": ops + qs})
    return eps


def reload_episodes(seed, count):
    """serialize + load back in every way, then the whole battery on the loaded
    instance (C15); also chains of reloads (a loaded instance is serialized again)"""
    r = random.Random(seed * 17 + 15)
    eps = []
    fixed = [(k, []) for k in [1, 4, 1000]] + [(3, [""]), (2, ["a", "a"]), (1, ["x"])]
    for t in range(count):
        if t < len(fixed) * 3:
            k, strs = fixed[t // 3]
            modes = [["full", "eps", "mmap", "eps8"][t % 4]]
        else:
            k = r.choice(KS)
            strs = arrange(r, rlist(r, rn(r, min(k, 20))))
            modes = [RELOADS[t % len(RELOADS)]]
            if r.random() < 0.3:
                modes.append(r.choice(RELOADS))
            if r.random() < 0.1:
                modes.append(r.choice(RELOADS))
        eps.append(episode(r, k, strs, "reload", reload=modes))
    # long rear codes through every load path
    for m in RELOADS[:3]:
        first, second = with_rear(r, 200, 3, True)
        eps.append(episode(r, 3, ["a", first, second, second + "x" * 130, "n" * 300], "reload", reload=[m]))
    return eps
