#!/bin/sh
# mkws.sh <name> : scratch workspace for building/testing one family outside /verif and /repo
#   /tmp/w/<name>/verif  git clone of /verif (branch fam-<name>)
#   /tmp/w/<name>/repo   git worktree of /repo (branch fam-<name>)
# Use with:  export VERIF_REPO=/tmp/w/<name>/repo ; cd /tmp/w/<name>/verif ; ./check Cnn
set -e
n="$1"
mkdir -p /tmp/w/$n
[ -d /tmp/w/$n/verif ] || git clone -q /verif /tmp/w/$n/verif
(cd /tmp/w/$n/verif && git checkout -q -B fam-$n && git config user.email builder@example.invalid && git config user.name builder)
[ -d /tmp/w/$n/repo ] || git -C /repo worktree add -q -B fam-$n /tmp/w/$n/repo HEAD
echo /tmp/w/$n
