"""Family "bitvec": BitVec / AtomicBitVec (spec/BitVec.tla)."""
import gen_bitvec

FAMILY = "bitvec"
TRACE_SPEC = "Trace_BitVec"
PROPS = ["C06", "C14", "C10", "C11", "C12", "C15"]


def mc(prop, tier):
    q = tier == "quick"
    if prop in ("C12", "C15"):
        return []
    if prop == "C10":
        return [("MC_BitVec", "MC_BitVec_small2.cfg", ["MC_BitVec.Mutate"])]
    return [("MC_BitVec", "MC_BitVec_small2.cfg" if q else "MC_BitVec_small.cfg",
             ["MC_BitVec.Construct", "MC_BitVec.Mutate"])]


def exports(prop, tier):
    q = tier == "quick"
    if prop in ("C10", "C11", "C12", "C15"):
        return []
    return [("tlc", "MC_BitVec", "MC_BitVec_w64_d2.cfg" if q else "MC_BitVec_w64_d3.cfg")]


def episodes(prop, tier, seed):
    q = tier == "quick"
    out = {}
    if prop == "C06":
        out["rand"] = (gen_bitvec.random_episodes(seed, 1500 if q else 20000) + gen_bitvec.atomic_ctor_episodes(), "verif")
        if not q:
            out["rand-release"] = (gen_bitvec.random_episodes(seed + 1, 5000), "release")
    if prop == "C14":
        out["dirty"] = (gen_bitvec.dirty_episodes(seed, 1500 if q else 20000), "verif")
    if prop == "C10":
        # the BitVec part of C10: fill / flip / reset / count_ones and their par_ and atomic variants equal the
        # per-element loops, on clean, shrunk and dirty vectors (spec: BitVec!Eff)
        out["bulk"] = (gen_bitvec.bulk_episodes(seed, 500 if q else 8000), "verif")
        if not q:
            out["bulk-release"] = (gen_bitvec.bulk_episodes(seed + 1, 3000), "release")
    if prop == "C11":
        out["space"] = (gen_bitvec.space_episodes(seed, 300 if q else 5000), "verif")
    if prop == "C12":
        out["ood"] = (gen_bitvec.ood_episodes(seed, 300 if q else 5000), "verif")
        if not q:
            out["ood-release"] = (gen_bitvec.ood_episodes(seed + 1, 2000), "release")
    if prop == "C15":
        out["reload"] = (gen_bitvec.reload_episodes(seed, 150 if q else 3000), "verif")
    return out


def nontrivial(epi):
    ops = [o["op"] for o in epi["ops"]]
    return any(o in ("pop", "resize", "reload", "mem_size", "a_mem_size") for o in ops) or ops[0] == "raw" or "into" in ops \
        or epi.get("src") == "ood"


RULE = ("bitvec: episode = constructor + operation history + observer battery; non-trivial = contains a shrink "
        "(pop/resize), a dirty raw start or a form conversion; distinct by operation list")
ASSUME = ["BitVec: W = 64 backends only (BitVec is implemented for usize words); lengths < 2^31"]
