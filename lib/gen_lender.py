"""Scripts for the "lender" family (rewindable lenders of sux::utils::lenders).

Inputs only: no expected item is computed here; Trace_Lender decides (it
holds the definition of the lines of a byte string)."""
import random

LINE_KINDS = ["line_cursor", "line_buf", "line_file", "line_path", "zstd_cursor", "zstd_file", "zstd_path",
              "gzip_cursor", "gzip_file", "gzip_path"]
WORDS = ["a", "b", "ab", "", "", "xyz", "é", "日本", "\U0001f600", "line", " ", "\t", "tab\tsep", "x" * 40, "\ufeff", "\ufeffbom"]


def rline(r, maxlen):
    m = r.randrange(6)
    if m == 0:
        return ""
    if m == 1:
        return r.choice(WORDS)
    if m == 2:   # carriage returns inside / at the end of the line proper
        return r.choice(["\r", "a\r", "\ra", "a\rb", "\r\r"])
    n = r.choice([1, 2, 5, 17, r.randrange(1, maxlen + 1)])
    return "".join(r.choice("abcdefghij klmnopqrstuvwxyzé") for _ in range(n))


def rtext(r, nlines, maxlen=30, eol=None, final=None):
    """text with LF / CRLF terminators (mixed unless eol is given); the last
    line is unterminated when final is False"""
    out = []
    for i in range(nlines):
        out.append(rline(r, maxlen))
        last = i == nlines - 1
        if last and final is False:
            break
        out.append(eol if eol else r.choice(["\n", "\n", "\r\n"]))
    if final is None and out and r.random() < 0.4:
        out.pop()
    return "".join(out).encode("utf-8")


def history(r, n, heavy=False):
    """a consume/rewind history of n operations after open"""
    ops = [{"op": "open"}]
    for _ in range(n):
        x = r.random()
        if x < 0.30:
            ops.append({"op": "next"})
        elif x < 0.50:
            ops.append({"op": "nexts", "c": r.choice([0, 1, 2, 3, 5, 10, 100])})
        elif x < (0.62 if heavy else 0.72):
            ops.append({"op": "drain"})
        else:
            ops.append({"op": "rewind"})
    if r.random() < 0.7:
        ops += [{"op": "rewind"}, {"op": "drain"}]
    return ops


def rtake(r, nitems):
    x = r.random()
    if x < 0.75:
        return []
    if x < 0.93:
        return [r.choice([0, 1, 2, nitems // 2, max(0, nitems - 1), nitems, nitems + 1, 2 ** 40, 2 ** 64 - 1])]
    return [r.choice([1, 3, nitems, nitems + 5]), r.choice([0, 2, nitems, 2 ** 33])]


def params(r, ep):
    ep["cap"] = r.choice([1, 2, 3, 5, 16, 64, 8192])
    ep["chunk"] = r.choice([0, 0, 1, 3, 7, 100, 1000, 65536])
    ep["level"] = r.choice([1, 3, 3, 9, 19]) if ep["kind"].startswith("zstd") else r.choice([0, 1, 6, 9])
    # independent frames only for zstd (a gzip file of several members is read by
    # GzDecoder up to the end of the first member: outside what is checked here)
    ep["frames"] = r.choice([1, 1, 2, 5]) if ep["kind"].startswith("zstd") else 1
    return ep


def small_episodes(seed, count):
    r = random.Random(seed * 613 + 20)
    eps = []
    for _ in range(count):
        x = r.random()
        if x < 0.82:
            kind = r.choice(LINE_KINDS)
            nl = r.choice([0, 1, 1, 2, 3, 5, 12])
            inp = rtext(r, nl)
            ep = {"fam": "lender", "src": "rand", "kind": kind, "input": list(inp), "take": rtake(r, nl)}
            params(r, ep)
        elif x < 0.92:
            items = [rline(r, 8).replace("\r", "r") for _ in range(r.choice([0, 1, 2, 5, 9]))]
            ep = {"fam": "lender", "src": "rand", "kind": "fromiter", "items": [list(s.encode("utf-8")) for s in items],
                  "take": rtake(r, len(items))}
        else:
            n = r.choice([0, 1, 2, 10, 100])
            ep = {"fam": "lender", "src": "rand", "kind": "range", "n": n, "take": rtake(r, n)}
        ep["ops"] = history(r, r.randrange(2, 11))
        eps.append(ep)
    return eps


def big_text(r, size, style):
    if style == "longlines":     # lines longer than every buffer on the way (8 KiB BufReader, 32 KiB windows)
        parts = []
        total = 0
        while total < size:
            n = r.choice([8191, 8192, 8193, 20000, 70000, 3, 0])
            n = min(n, size - total) if size - total < n else n
            line = (r.choice("abcdefgh") * n)
            parts.append(line)
            total += n + 1
        eol = r.choice(["\n", "\r\n"])
        s = eol.join(parts)
        return (s + (eol if r.random() < 0.5 else "")).encode()
    if style == "random":        # hardly compressible: many compressed blocks
        alpha = "abcdefghijklmnopqrstuvwxyzABCDEFGHIJKLMNOPQRSTUVWXYZ0123456789"
        out = []
        total = 0
        while total < size:
            n = r.randrange(0, 120)
            out.append("".join(r.choices(alpha, k=n)))
            total += n + 1
        return ("\n".join(out) + ("\n" if r.random() < 0.5 else "")).encode()
    # ordinary text, mixed terminators
    return rtext(r, size // 12, maxlen=20)


def big_episodes(seed, count, sizes=(9000, 20000, 40000, 150000, 300000)):
    """inputs beyond the buffer sizes on the way: BufReader (8 KiB), the
    decoders' windows, zstd's 128 KiB blocks; long lines; several compressed
    blocks / frames. Few drains per episode (each logs every item)."""
    r = random.Random(seed * 7 + 2020)
    eps = []
    kinds = ["zstd_cursor", "zstd_file", "gzip_cursor", "gzip_file", "line_file", "line_buf", "zstd_path", "gzip_path",
             "line_cursor"]
    styles = ["longlines", "random", "text"]
    r.shuffle(kinds)
    for t in range(count):
        # every kind meets every style (27 combinations), sizes rotate independently
        kind = kinds[t % len(kinds)]
        style = styles[(t + t // len(kinds)) % len(styles)]
        size = r.choice(sizes)
        if t < len(kinds) and kind.startswith("zstd"):
            size = max(size, 150000)         # more than one 128 KiB zstd block
        inp = big_text(r, size, style)
        ep = {"fam": "lender", "src": "recipe", "kind": kind, "input": list(inp),
              "take": [] if r.random() < 0.8 else [r.choice([1, 50, 10 ** 6])], "budget_ms": 60000}
        params(r, ep)
        ep["chunk"] = r.choice([0, 0, 1000, 65536, 4096])
        c1, c2 = r.choice([1, 2, 10, 200]), r.choice([1, 3, 50])
        shape = r.randrange(4)
        if shape == 0:      # partial pass, rewind, full pass, rewind, full pass
            ops = [{"op": "nexts", "c": c1}, {"op": "rewind"}, {"op": "drain"}, {"op": "rewind"}, {"op": "drain"}]
        elif shape == 1:    # full pass first
            ops = [{"op": "drain"}, {"op": "next"}, {"op": "rewind"}, {"op": "nexts", "c": c2}, {"op": "rewind"},
                   {"op": "rewind"}, {"op": "drain"}]
        elif shape == 2:    # rewind before anything was read
            ops = [{"op": "rewind"}, {"op": "nexts", "c": c1}, {"op": "rewind"}, {"op": "nexts", "c": c2},
                   {"op": "rewind"}, {"op": "drain"}, {"op": "next"}]
        else:
            ops = [{"op": "next"}, {"op": "rewind"}, {"op": "next"}, {"op": "next"}, {"op": "rewind"}, {"op": "drain"}]
        ep["ops"] = [{"op": "open"}] + ops
        eps.append(ep)
    return eps


def marked_episodes(seed, count):
    """inputs that begin with bytes a reader might treat specially -- a UTF-8 byte-order mark, a BOM-only file,
    UTF-16 marks, a NUL, a lone CR -- through every way of constructing every lender kind: whatever the first pass
    does with them, every pass does (and a line lender yields them as part of the first line)"""
    r = random.Random(seed ^ 0xB03)
    heads = [b"\xef\xbb\xbf", b"\xef\xbb\xbf\n", b"\xef\xbb\xbf\r\n", b"\xef\xbb", b"\xef\xbb\xbf\xef\xbb\xbf", b"\x00", b"\r", b"#!"]
    eps = []
    for t in range(count):
        kind = LINE_KINDS[t % len(LINE_KINDS)]
        head = heads[(t // len(LINE_KINDS) + t) % len(heads)]
        nl = r.choice([0, 0, 1, 3, 12])
        body = rtext(r, nl)
        if nl == 0 and head.startswith(b"\xef\xbb\xbf") and r.random() < 0.5:
            body = b""
        text = head + body
        if not _valid_utf8(text):
            text = b"\xef\xbb\xbf" + body
        ep = {"fam": "lender", "src": "marked", "kind": kind, "input": list(text), "take": rtake(r, nl + 1)}
        params(r, ep)
        ep["ops"] = [{"op": "open"}] + r.choice([
            [{"op": "drain"}, {"op": "rewind"}, {"op": "drain"}, {"op": "rewind"}, {"op": "next"}],
            [{"op": "next"}, {"op": "rewind"}, {"op": "next"}, {"op": "rewind"}, {"op": "drain"}],
            [{"op": "rewind"}, {"op": "drain"}, {"op": "rewind"}, {"op": "nexts", "c": 2}, {"op": "rewind"}, {"op": "drain"}]])
        eps.append(ep)
    return eps


def _valid_utf8(b):
    try:
        b.decode("utf-8")
        return True
    except UnicodeDecodeError:
        return False


def wide_window_episodes(seed, count):
    """zstd frames that declare a window of 2^25 .. 2^30 bytes (zstd --long): beyond 2^27 a decoder with default
    limits refuses the frame. Whatever the first pass yields (all the lines, or an error) is the reference: every
    pass after a rewind must yield exactly that -- the decoder made by rewind() must be configured as the first."""
    r = random.Random(seed ^ 0x10C)
    eps = []
    for t in range(count):
        kind = ("zstd_cursor", "zstd_file", "zstd_path")[t % 3]
        nl = r.choice([1, 5, 100])
        ep = {"fam": "lender", "src": "wide-window", "kind": kind, "input": list(rtext(r, nl)), "take": []}
        params(r, ep)
        ep["frames"] = 1
        ep["corrupt"] = {"wlog": [25, 27, 28, 30, 31][t % 5]}
        c1 = r.randrange(1, nl + 2)
        ep["ops"] = [{"op": "open"}, {"op": "drain"}, {"op": "rewind"}, {"op": "drain"}, {"op": "rewind"},
                     {"op": "nexts", "c": c1}, {"op": "rewind"}, {"op": "drain"}]
        eps.append(ep)
    return eps


def flaky_episodes(seed, count):
    """sources that cannot be rewound: the seek issued by rewind() fails (after a partial pass, a complete
    pass, or before anything was read); rewind must return the error, never a lender replaying something else"""
    r = random.Random(seed ^ 0xF1A)
    eps = []
    for t in range(count):
        kind = ("line_flaky", "zstd_flaky", "gzip_flaky")[t % 3]
        nl = r.choice([1, 2, 5, 50])
        text = rtext(r, nl)
        ep = {"fam": "lender", "src": "flaky", "kind": kind, "input": list(text), "take": [] if r.random() < 0.7 else [r.randrange(1, nl + 2)]}
        params(r, ep)
        pre = r.choice([[], [{"op": "next"}], [{"op": "nexts", "c": max(1, nl // 2)}], [{"op": "drain"}],
                        [{"op": "drain"}, {"op": "next"}], [{"op": "next"}, {"op": "rewind"}, {"op": "drain"}]])
        ep["ops"] = [{"op": "open"}] + pre + [{"op": "rewind", "fail": True}, {"op": "next"}, {"op": "drain"}]
        eps.append(ep)
        # control: the same history on the same source with a seek that works
        ep2 = dict(ep)
        ep2["ops"] = [{"op": "open"}] + pre + [{"op": "rewind"}, {"op": "drain"}, {"op": "rewind", "fail": True}]
        eps.append(ep2)
    return eps


def corrupt_episodes(seed, count):
    """damaged gzip / zstd streams (cut short, or a byte of the trailer / body flipped): the first complete pass
    is the reference (lines, then usually an error); every pass after a rewind must replay exactly that"""
    r = random.Random(seed ^ 0xBAD)
    eps = []
    for t in range(count):
        kind = ("gzip_cursor", "zstd_cursor", "gzip_file", "zstd_file")[t % 4]
        nl = r.choice([3, 20, 200])
        text = rtext(r, nl)
        ep = {"fam": "lender", "src": "corrupt", "kind": kind, "input": list(text), "take": []}
        params(r, ep)
        ep["frames"] = 1
        ep["corrupt"] = r.choice([{"trunc": 1}, {"trunc": 4}, {"trunc": 9}, {"flip": 0}, {"flip": 3}, {"flip": 7},
                                  {"trunc": r.randrange(1, 40)}, {"flip": r.randrange(0, 60)}])
        c1, c2 = r.randrange(1, nl + 2), r.randrange(1, nl + 2)
        ep["ops"] = [{"op": "open"}, {"op": "drain"}, {"op": "rewind"}, {"op": "drain"}, {"op": "rewind"},
                     {"op": "nexts", "c": c1}, {"op": "rewind"}, {"op": "nexts", "c": c2}, {"op": "rewind"}, {"op": "drain"}]
        eps.append(ep)
    return eps
