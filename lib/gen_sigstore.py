"""Scripts for the "sigstore" family (inputs only: no expected results are
computed here; Trace_SigStore decides).

A signature is a list of 64-bit words (most significant first), each word a
base-2^15 little-endian limb list without trailing zeros; values are integers
below 2^31 - 1."""
import random

BITS = [0, 1, 2, 4, 8, 9]
FULL = 1000000          # `take` of an iteration that runs until None
M64 = (1 << 64) - 1


def limbs(x):
    v = []
    while x:
        v.append(x & 0x7FFF)
        x >>= 15
    return v


def sig(words):
    return [limbs(w) for w in words]


def triples(bits=BITS):
    """(bucket bits, max shard bits, requested shard bits), requested <= max"""
    return [(bb, mb, s) for bb in bits for mb in bits for s in bits if s <= mb]


# ---------------------------------------------------------------------------
# signature distributions
# ---------------------------------------------------------------------------
def first_words(r, n, dist, bb, s):
    """n first words (the word that decides bucket and shard)"""
    if dist == "uniform":
        return [r.getrandbits(64) for _ in range(n)]
    if dist == "equal-top":          # every pair in the same finest shard
        top = r.getrandbits(20) << 44
        return [top | r.getrandbits(44) for _ in range(n)]
    if dist == "two-buckets":        # only two buckets are ever used, unevenly
        if bb == 0:
            tops = [r.getrandbits(12) << 52, r.getrandbits(12) << 52]
            return [r.choice(tops) | r.getrandbits(52) for _ in range(n)]
        b1, b2 = r.randrange(1 << bb), r.randrange(1 << bb)
        p = r.choice([0.5, 0.9, 0.99])
        return [((b1 if r.random() < p else b2) << (64 - bb)) | r.getrandbits(64 - bb) for _ in range(n)]
    if dist == "extremes":           # first and last shard only, all-zero / all-one patterns
        menu = [0, M64, 1, M64 - 1, 1 << 63, (1 << 63) - 1, M64 << 55 & M64, (1 << 55) - 1,
                1 << (63 - s) if s < 63 else 1, ((1 << (64 - s)) - 1) if s else M64]
        return [r.choice(menu) for _ in range(n)]
    if dist == "shard-edges":        # just below / at the boundaries between consecutive shards and buckets
        out = []
        for _ in range(n):
            b = r.choice([x for x in (bb, s, 9, 1) if x > 0] or [1])
            k = r.randrange(1 << b)
            w = (k << (64 - b)) + r.choice([0, -1, 1])
            out.append(w & M64)
        return out
    raise ValueError(dist)


DISTS = ["uniform", "equal-top", "two-buckets", "extremes", "shard-edges"]


def pairs(r, n, dist, st, vt, bb, s, dup=0.0):
    ws = first_words(r, n, dist, bb, s)
    out = []
    for w in ws:
        if out and r.random() < dup:                 # an identical pair, or the same signature with another value
            p = r.choice(out)
            out.append([p[0], p[1] if r.random() < 0.5 else val(r, vt)])
            continue
        words = [w] if st == "s1" else [w, r.choice([0, M64, r.getrandbits(64)])]
        out.append([sig(words), val(r, vt)])
    return out


def val(r, vt):
    if vt == "empty":
        return 0
    if vt == "u8":
        return r.choice([0, 255, r.randrange(256)])
    return r.choice([0, 1, 2 ** 31 - 2, r.randrange(2 ** 31 - 1)])


# ---------------------------------------------------------------------------
# episodes
# ---------------------------------------------------------------------------
def push_ops(r, items):
    """the pushes, in one batch, in several, or one by one, with len() in between"""
    ops = []
    if len(items) <= 6 and r.random() < 0.5:
        for p in items:
            ops.append({"op": "push", "sig": p[0], "val": p[1]})
        return ops
    k = 0
    while k < len(items):
        step = r.choice([1, 2, len(items), max(1, len(items) // 2), r.randrange(1, len(items) + 1)])
        chunk = items[k:k + step]
        if len(chunk) == 1 and r.random() < 0.5:
            ops.append({"op": "push", "sig": chunk[0][0], "val": chunk[0][1]})
        else:
            ops.append({"op": "push_many", "items": chunk})
        if r.random() < 0.3:
            ops.append({"op": "len"})
        k += step
    return ops


def iter_ops(r, s, passes=None):
    """borrowed iterations (complete, or dropped after some shards), then the consuming one"""
    ns = 1 << s
    ops = []
    npass = r.choice([0, 1, 2, 2, 3]) if passes is None else passes
    for _ in range(npass):
        if r.random() < 0.7:
            ops.append({"op": "iter", "take": FULL, "extra": r.choice([0, 1, 3])})
        else:
            ops.append({"op": "iter", "take": r.choice([0, 1, ns - 1, ns, r.randrange(ns + 1)]), "extra": 0})
        if r.random() < 0.2:
            ops.append({"op": r.choice(["shard_sizes", "store_len"])})
    if r.random() < 0.85:
        ops.append({"op": "into_iter", "take": FULL, "extra": r.choice([0, 2])})
    else:
        ops.append({"op": "into_iter", "take": r.choice([0, 1, ns - 1, ns, r.randrange(ns + 1)]), "extra": 0})
    return ops


def episode(r, kind, st, vt, bb, mb, s, n, dist, src="rand", dup=0.0, passes=None, exp=None):
    items = pairs(r, n, dist, st, vt, bb, s, dup)
    ops = push_ops(r, items)
    ops += [{"op": "len"}, {"op": "is_empty"}, {"op": "max_shard_high_bits"}, {"op": "temp_dir"}]
    ops += [{"op": "into_shard_store", "s": s}, {"op": "shard_sizes"}, {"op": "store_len"}]
    ops += iter_ops(r, s, passes)
    ep = {"fam": "sigstore", "src": src, "kind": kind, "st": st, "vt": vt, "bb": bb, "mb": mb,
          "dist": dist, "n": n, "ops": ops}
    if exp is not None:
        ep["exp"] = [exp]
    return ep


SMALL = [0, 1, 2, 3, 4, 5, 7, 8, 9, 16, 17, 31, 33, 64, 100]
MEDIUM = [255, 256, 257, 511, 513, 700]
# around the 1024-record read buffer of the file-backed split branch
LARGE = [1023, 1024, 1025, 2047, 2048, 2049, 3000, 3073, 5000]


def rtypes(r):
    return r.choice(["s1", "s2"]), r.choice(["u8", "u64", "empty"])


def triple_episodes(seed, rounds=1, large_every=9, max_n=5000):
    """every (bucket, max, requested) triple from BITS x online/offline; sizes 0..5000; all distributions"""
    r = random.Random(seed * 7919 + 18)
    eps = []
    k = 0
    for _ in range(rounds):
        for (bb, mb, s) in triples():
            for kind in ("online", "offline"):
                st, vt = rtypes(r)
                k += 1
                if k % large_every == 0:
                    n = r.choice([x for x in LARGE if x <= max_n])
                elif k % 3 == 0:
                    n = r.choice(MEDIUM)
                else:
                    n = r.choice(SMALL)
                dist = r.choice(DISTS)
                exp = r.choice([None, None, n, 2 * n + 1, 0])
                eps.append(episode(r, kind, st, vt, bb, mb, s, n, dist,
                                   dup=r.choice([0.0, 0.0, 0.2]), exp=exp))
    return eps


def buffer_episodes(seed, count):
    """file-backed store whose buckets must be split (bucket bits < shard bits) and hold more records than
    one read buffer, with sizes at the buffer boundary; the in-memory store on the same inputs"""
    r = random.Random(seed * 104729 + 1024)
    eps = []
    cfgs = [(bb, mb, s) for (bb, mb, s) in triples() if bb < s]
    for k in range(count):
        bb, mb, s = cfgs[(k * 5 + r.randrange(3)) % len(cfgs)]
        st, vt = rtypes(r)
        # choose n so that one bucket receives  m  records, m around a multiple of 1024
        m = r.choice([1023, 1024, 1025, 2047, 2048, 2049, 1500, 3071, 3072, 3073])
        dist = r.choice(["equal-top", "two-buckets", "uniform"])
        if dist == "uniform":
            bb, mb, s = r.choice([(0, 1, 1), (0, 9, 9), (0, 4, 2), (1, 9, 8), (0, 8, 8)])
            n = m
            if bb == 1:
                n = 2 * m
        else:
            n = m
        kind = "offline" if k % 4 != 3 else "online"
        eps.append(episode(r, kind, st, vt, bb, mb, s, n, dist, src="buffer", passes=r.choice([1, 2])))
    return eps


def small_random_episodes(seed, count):
    """many small stores over random small triples (bits 0..5), duplicates frequent"""
    r = random.Random(seed * 31337 + 5)
    eps = []
    for _ in range(count):
        if r.random() < 0.06:       # many more finest shards than requested shards / buckets
            mb = r.choice([10, 12, 16, 19])
            s = r.choice([0, 1, 3, 5])
            bb = r.choice([0, 3, 7, 10])
        else:
            mb = r.randrange(6)
            s = r.randrange(mb + 1)
            bb = r.randrange(6)
        st, vt = rtypes(r)
        eps.append(episode(r, r.choice(["online", "offline"]), st, vt, bb, mb, s,
                           r.choice(SMALL + [r.randrange(40)]), r.choice(DISTS), dup=r.choice([0.0, 0.3, 0.6])))
    return eps


def sigval_episodes(seed, count):
    """Sig::high_bits for every b in 0..63, SigVal xor / xor-assign / equality"""
    r = random.Random(seed * 271 + 3)
    eps = []
    pats = [0, M64, 1, 1 << 63, (1 << 63) - 1, 0x8000000000000001, 0xAAAAAAAAAAAAAAAA, 0x5555555555555555]
    for k in range(count):
        st, vt = rtypes(r)
        ops = []
        for _ in range(12):
            w = r.choice(pats + [r.getrandbits(64)] * 4)
            words = [w] if st == "s1" else [w, r.getrandbits(64)]
            ops.append({"op": "high_bits", "sig": sig(words), "b": r.choice([0, 1, 2, 8, 9, 15, 16, 31, 32, 33, 62, 63,
                                                                            r.randrange(64)])})
        for _ in range(6):
            a = pairs(r, 1, "uniform", st, vt, 0, 0)[0]
            b = pairs(r, 1, r.choice(["uniform", "extremes"]), st, vt, 0, 0)[0]
            k = r.random()
            if k < 0.25:
                b = [a[0], val(r, vt)]          # same signature, maybe another value
            elif k < 0.65:                      # signatures that differ in exactly one bit of one word
                words = [sum(x << (15 * i) for i, x in enumerate(w)) for w in a[0]]
                j = r.randrange(len(words))
                words[j] ^= 1 << r.choice([0, 1, 31, 32, 62, 63, r.randrange(64)])
                b = [sig(words), a[1]]
            elif k < 0.75 and st == "s2":       # the two words exchanged
                b = [[a[0][1], a[0][0]], a[1]]
            ops.append({"op": r.choice(["sv_xor", "sv_xor_assign", "sv_eq"]), "a": a, "b": b})
        eps.append({"fam": "sigstore", "src": "sigval", "kind": "online", "st": st, "vt": vt, "bb": 0, "mb": 0,
                    "ops": ops})
    return eps


def ood_episodes(seed, count):
    """C12: more shard bits than the maximum (documented panic), operations of a phase that is over, empty
    stores, iterators asked again after None, iterators dropped at once"""
    r = random.Random(seed * 65537 + 12)
    eps = []
    for k in range(count):
        bb, mb = r.choice(BITS), r.choice(BITS)
        st, vt = rtypes(r)
        kind = r.choice(["online", "offline"])
        n = r.choice([0, 0, 1, 2, 5, 40, 300])
        items = pairs(r, n, r.choice(DISTS), st, vt, bb, mb)
        ops = push_ops(r, items)
        mode = k % 4
        if mode == 0:      # too many shard bits: panics, the store is gone
            bad = r.choice([mb + 1, mb + 1, mb + 2, 2 * mb + 1, 63, 64, 65, 2 ** 31, 2 ** 32 - 1])
            ops += [{"op": "into_shard_store", "s": bad}, {"op": "len"}, {"op": "shard_sizes"},
                    {"op": "iter", "take": FULL, "extra": 0}, {"op": "into_iter", "take": FULL, "extra": 0},
                    {"op": "push", "sig": sig([1] if st == "s1" else [1, 1]), "val": 0}]
        elif mode == 1:    # calls of the wrong phase before and after
            s = r.choice([x for x in BITS if x <= mb])
            ops += [{"op": "shard_sizes"}, {"op": "iter", "take": 1, "extra": 0}, {"op": "store_len"},
                    {"op": "into_shard_store", "s": s}, {"op": "len"}, {"op": "max_shard_high_bits"},
                    {"op": "push", "sig": sig([5] if st == "s1" else [5, 5]), "val": 0},
                    {"op": "into_shard_store", "s": s},
                    {"op": "iter", "take": FULL, "extra": 4},
                    {"op": "into_iter", "take": FULL, "extra": 7},
                    {"op": "iter", "take": FULL, "extra": 0}, {"op": "shard_sizes"}, {"op": "store_len"},
                    {"op": "into_iter", "take": FULL, "extra": 0}]
        elif mode == 2:    # the largest admissible request, then iterators dropped at once / asked again
            ops += [{"op": "into_shard_store", "s": mb}, {"op": "shard_sizes"},
                    {"op": "iter", "take": 0, "extra": 0}, {"op": "iter", "take": FULL, "extra": 9},
                    {"op": "iter", "take": 1, "extra": 0}, {"op": "into_iter", "take": 0, "extra": 0},
                    {"op": "store_len"}]
        else:              # nothing pushed at all / requested 0 bits
            ops = [{"op": "is_empty"}, {"op": "len"}, {"op": "temp_dir"},
                   {"op": "into_shard_store", "s": r.choice([0, mb])}, {"op": "shard_sizes"}, {"op": "store_len"},
                   {"op": "iter", "take": FULL, "extra": 3}, {"op": "into_iter", "take": FULL, "extra": 3}]
        eps.append({"fam": "sigstore", "src": "ood", "kind": kind, "st": st, "vt": vt, "bb": bb, "mb": mb, "ops": ops})
    return eps
