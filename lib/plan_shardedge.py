"""Family "shardedge": shard/edge logics (spec/ShardEdge.tla)."""
import gen_shardedge

FAMILY = "shardedge"
TRACE_SPEC = "Trace_ShardEdge"
PROPS = ["C16", "C12", "C15", "C11"]


def mc(prop, tier):
    if prop != "C16":
        return []
    q = tier == "quick"
    return [("MC_ShardEdge", "MC_ShardEdge_small.cfg" if q else "MC_ShardEdge_thorough.cfg",
             ["MC_ShardEdge.DesignEdge", "MC_ShardEdge.CodeEdge"])]


def exports(prop, tier):
    if prop != "C16":
        return []
    sfx = "" if gen_shardedge.has_mwhc() else "_nomwhc"
    return [("tlc", "MC_ShardEdge", "MC_ShardEdge_export%s%s.cfg" % ("" if tier == "quick" else "2", sfx))]


def episodes(prop, tier, seed):
    q = tier == "quick"
    out = {}
    if prop == "C16":
        if q:
            out["sweep"] = (gen_shardedge.sweep(seed, 2000, 40, 40, stride=16), "verif")
            out["sweep-release"] = (gen_shardedge.sweep(seed + 1, 2000, 20, 24, stride=40), "release")
        else:
            # every n in 0..2000 (two halves), ~70 signatures per set-up here plus the
            # ~150 boundary signatures per set-up of the TLC-exported scripts
            # (batches of at most ~350 000 events: a trace shard must fit a 3 GB TLC heap)
            a = gen_shardedge.sweep(seed, 2000, 300, 70, stride=2)
            out["sweep-a"] = (a[:len(a) // 2], "verif")
            out["sweep-b"] = (a[len(a) // 2:], "verif")
            b = gen_shardedge.sweep(seed + 1, 2000, 300, 50, stride=2)
            out["sweep-release-a"] = (b[:len(b) // 2], "release")
            out["sweep-release-b"] = (b[len(b) // 2:], "release")
            out["sweep-200"] = (gen_shardedge.sweep(seed + 2, 0, 60, 200), "verif")
    if prop == "C12":
        out["ood"] = (gen_shardedge.ood(seed, 300 if q else 3000), "verif")
        if not q:
            out["ood-release"] = (gen_shardedge.ood(seed + 1, 1500), "release")
    if prop == "C15":
        out["reload"] = (gen_shardedge.reloads(seed, 150 if q else 1500), "verif")
    if prop == "C11":
        out["mem"] = (gen_shardedge.mems(seed, 120 if q else 1200), "verif")
    return out


def nontrivial(epi):
    ops = [o["op"] for o in epi["ops"]]
    return "graphs" in ops and ops.count("edge") >= 4


RULE = ("shardedge: episode = one implementation (logic x signature width), set_up_shards + set_up_graphs for one "
        "(n, eps, largest shard) and a battery of signatures; non-trivial = a graph set-up followed by at least "
        "four signatures; distinct by operation list")
ASSUME = ["ShardEdge: parameters (shard bits, segment size, l) are read from the log; the floating-point "
          "formulas that choose them are not modelled; n <= 10^12; MWHC logics only when the harness enables "
          "sux's mwhc feature"]
