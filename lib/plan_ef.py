"""Family "ef": Elias-Fano monotone sequences (spec/EliasFano.tla, spec/EFDesign.tla)."""
import gen_ef as g

FAMILY = "ef"
TRACE_SPEC = "Trace_EliasFano"
# C13: only the sequential-equivalence part (concurrent builder == sequential builder)
PROPS = ["C03", "C04", "C11", "C12", "C13", "C15"]

SEQS = g.SEQ_KINDS + g.SEQDICT_KINDS
DICTS = g.DICT_KINDS + g.SEQDICT_KINDS


def mc(prop, tier):
    q = tier == "quick"
    cover = ["MC_EFDesign.Pick", "MC_EFDesign.Ask"]
    design = [("MC_EFDesign", "MC_EFDesign_quick.cfg", cover)] if q else \
             [("MC_EFDesign", "MC_EFDesign_full.cfg", cover), ("MC_EFDesign", "MC_EFDesign_wide.cfg", cover)]
    small = ("MC_EliasFano", "MC_EliasFano_small.cfg", ["MC_EliasFano.Start", "MC_EliasFano.Feed",
                                                       "MC_EliasFano.Finish", "MC_EliasFano.Ask"])
    space = ("MC_EliasFano", "MC_EliasFano_space.cfg" if q else "MC_EliasFano_space_full.cfg",
             ["MC_EliasFano.SpaceStep"])
    if prop in ("C03", "C04"):
        return design + [small]
    if prop == "C11":
        return [space]
    if prop == "C12":
        return design
    if prop == "C13":
        return [small]      # concurrent set in every index order == the sorted sequence
    return []


def exports(prop, tier):
    q = tier == "quick"
    if prop == "C03":
        return [("tlc-builders", "MC_EliasFano", "MC_EliasFano_export.cfg" if q else "MC_EliasFano_export_full.cfg")]
    if prop == "C04":
        return [("tlc-queries", "MC_EliasFano", "MC_EliasFano_queries.cfg" if q else "MC_EliasFano_queries_full.cfg")]
    return []


def episodes(prop, tier, seed):
    q = tier == "quick"
    out = {}
    if prop == "C03":
        out["recipes"] = (g.recipe_episodes(seed, ["plain"] + SEQS, cap=8, reject=0.3), "verif")
        out["rand"] = (g.random_episodes(seed, 350 if q else 4000, ["plain"] + SEQS, maxn=300, cap=6)
                       + g.reject_episodes(seed, 120 if q else 1000)
                       + g.short_build_episodes(seed, 60 if q else 600)
                       + g.large_episodes(seed, [5000, 9000] if q else [5000, 9000, 20000, 70000], SEQS), "verif")
        # "concurrent set": the concurrent builder filled by real threads equals the sorted sequence
        out["conc"] = (g.conc_episodes(seed + 2, 200 if q else 2500, maxn=1500 if q else 20000), "verif")
        if not q:
            out["rand-release"] = (g.recipe_episodes(seed + 1, ["plain"] + SEQS, cap=8)
                                   + g.random_episodes(seed + 1, 2000, ["plain"] + SEQS)
                                   + g.reject_episodes(seed + 1, 500), "release")
    if prop == "C04":
        out["recipes"] = (g.recipe_episodes(seed + 4, DICTS, cap=8, reject=0.0), "verif")
        out["rand"] = (g.random_episodes(seed + 4, 300 if q else 4000, DICTS, maxn=300, cap=6, reject=0.0)
                       + g.large_episodes(seed + 4, [6000] if q else [6000, 20000, 70000], DICTS, cap=60), "verif")
        if not q:
            out["rand-release"] = (g.recipe_episodes(seed + 5, DICTS, cap=8, reject=0.0)
                                   + g.random_episodes(seed + 5, 2000, DICTS, reject=0.0), "release")
    if prop == "C11":
        out["space"] = (g.space_episodes(seed, 500 if q else 3000), "verif")
    if prop == "C12":
        out["ood"] = (g.ood_episodes(seed, 250 if q else 2500) + g.short_build_episodes(seed, 60 if q else 600), "verif")
        out["ood-release"] = (g.ood_episodes(seed + 1, 120 if q else 1500)
                              + g.short_build_episodes(seed + 1, 40 if q else 400), "release")
    if prop == "C13":
        out["conc"] = (g.conc_episodes(seed, 400 if q else 2500, maxn=1500 if q else 20000), "verif")
        if not q:
            out["conc-release"] = (g.conc_episodes(seed + 1, 1000, maxn=20000), "release")
    if prop == "C15":
        out["reload"] = (g.reload_episodes(seed, 190 if q else 1900), "verif")
        if not q:
            out["reload-release"] = (g.reload_episodes(seed + 1, 950), "release")
    return out


def nontrivial(epi):
    ops = [o["op"] for o in epi["ops"]]
    built = ("build" in ops and ("push" in ops or "extend" in ops or "cset" in ops or "cfill" in ops)) or "from" in ops
    return built and len(ops) >= 4


RULE = ("ef: episode = builder history (push/extend/From/concurrent set, incl. rejected pushes) + build with one of "
        "19 selection back-ends + observer battery; non-trivial = a sequence was actually built and observed; "
        "distinct by operation list")
ASSUME = ["EliasFano: n < 2^31 (allocation), values/u/queries over all of usize as base-2^15 limbs; "
          "a sequential builder finished with fewer than n values must panic or yield exactly the accepted values; "
          "the unchecked successor/predecessor variants and EliasFanoConcurrentBuilder::set are called only inside "
          "their documented preconditions; C13 here = concurrent builder equals the sequential one (real threads, "
          "no forced schedules); C11 bound checked with an 8-bit fixed-point lg and additive constant of 13 words"]
