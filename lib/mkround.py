#!/usr/bin/env python3
"""mkround.py <Cnn> <suffix> : prepares an independent seeding agent's workspace /tmp/m/<Cnn><suffix>/ (scratch
worktree of /repo at its current HEAD, prompt.txt). The prompt is the property text plus one-line summaries of the
changes already kept for that property under /verif/seeded (so that new ones differ); nothing else from /verif."""
import glob
import json
import os
import subprocess
import sys

pid, suf = sys.argv[1], sys.argv[2]
wid = pid + suf
here = os.path.dirname(os.path.abspath(__file__))
os.makedirs("/tmp/m/%s/out" % wid, exist_ok=True)
wt = "/tmp/m/%s/repo" % wid
if not os.path.isdir(wt):
    subprocess.check_call(["git", "-C", "/repo", "worktree", "add", "-q", "--detach", wt, "HEAD"])
p = subprocess.run(["python3", os.path.join(here, "mutprompt.py"), pid], stdout=subprocess.PIPE, text=True, check=True).stdout
p = p.replace("/tmp/m/%s/" % pid, "/tmp/m/%s/" % wid)
prev = []
for m in sorted(glob.glob(os.path.join(os.path.dirname(here), "seeded", pid + "*", "meta.json"))):
    d = json.load(open(m))
    if d.get("property", pid) == pid:
        prev.append("- " + " ".join(str(d.get("summary", "")).split())[:300])
if prev:
    p += ("\n\nThese changes have ALREADY been produced by others for this property; yours must be different from them "
          "(different functions or mechanisms where at all possible, different triggering conditions otherwise; look in "
          "particular at code paths, type instantiations, feature combinations and API entry points that none of them "
          "touches):\n" + "\n".join(prev) + "\n")
open("/tmp/m/%s/prompt.txt" % wid, "w").write(p)
print("/tmp/m/%s/prompt.txt" % wid, len(prev), "earlier changes listed")
