"""Scripts for the "rsbig" family: rank/select structures over bit vectors longer than 2^32 bits with few ones
(inputs only; spec/RankSelBig.tla decides). Positions travel as base-2^15 limb lists."""
import random

P32 = 1 << 32


def L(x):
    out = []
    while x:
        out.append(x & 0x7fff)
        x >>= 15
    return out


STACKS = [
    ("r9", []), ("rs0", []), ("rs1", []), ("rs2", []), ("rs3", []), ("rs4", []),
    ("r9/s9", []),
    ("anb/sa", [{}, {"m": "inv", "a": 2, "b": 0}]), ("anb/sa", [{}, {"m": "inv", "a": 3, "b": 1}]),
    ("anb/sa", [{}, {"m": "new", "b": 3}]), ("anb/sa", [{}, {"m": "span", "a": 1 << 20, "b": 2}]),
    # (zero selectors: billions of zeros, so never a tiny inventory quantum -- 2^2 zeros per entry would be a 8 GB inventory)
    ("anb/sza", [{}, {"m": "inv", "a": 14, "b": 0}]), ("anb/sza", [{}, {"m": "new", "b": 3}]),
    ("anb/sac12_3", []), ("anb/sac3_0", []), ("anb/sac0_0", []), ("anb/szac12_3", []), ("anb/szac3_0", []),
    ("rs0/ss0", [{}, {"m": "new"}]), ("rs1/ss1", [{}, {"m": "new"}]), ("rs2/ss2", [{}, {"m": "inv", "a": 1}]),
    ("rs3/ss3", [{}, {"m": "new"}]), ("rs4/ss4", [{}, {"m": "inv", "a": 2}]),
    ("rs0/szs0", [{}, {"m": "new"}]), ("rs1/szs1", [{}, {"m": "inv", "a": 1}]), ("rs2/szs2", [{}, {"m": "new"}]),
    ("rs3/szs3", [{}, {"m": "new"}]), ("rs4/szs4", [{}, {"m": "new"}]),
    ("rs1/ss1/szs1", [{}, {"m": "new"}, {"m": "new"}]),
    ("anb/sac1_1", []), ("anb/sac6_2", []), ("anb/sac8_1", []), ("anb/szac6_2", []), ("anb/szac8_1", []), ("r9/sa/sza", [{}, {"m": "inv", "a": 2, "b": 0}, {"m": "inv", "a": 13, "b": 1}]),
    ("anb/sa", [{}, {"m": "inv", "a": 1, "b": 1}]),
]


def vectors(r, big):
    """(len, ones): the ones sit around the 2^32 boundaries, far apart (spans beyond 2^32 bits that are not the
    first inventory entry), at the very end, right before / after an upper block of the small-counter structures"""
    vs = []
    for k in ([1] if not big else [1, 2]):
        base = k * P32
        n = base + r.choice([1, 64, 777, 12345, 1 << 20])
        vs.append((n, sorted({5, 1000000, base - 1, base, base + 1, n - 1})))
        # a few close ones first (several inventory entries), then gaps larger than 2^32, then some more
        n2 = 2 * P32 + 100000 if big else P32 + 300000
        far = [10, 20, 30, 40, 1000000, 1000001, 1000002, 1000003]
        far += [n2 - 250000 + 3 * j for j in range(40)]
        vs.append((n2, sorted(set(far))))
        # ones right before and right after the boundary of an upper block, with several hundred earlier ones
        n3 = base + 50000
        early = [7 + 997 * j for j in range(300)]
        vs.append((n3, sorted(set(early + [base - 100, base + 10000, base + 10001, n3 - 1]))))
        # nothing in the first upper block at all
        vs.append((base + 4096, sorted({base + 3, base + 64, base + 4095})))
        # random sparse
        n4 = base + r.randrange(1, 1 << 22)
        vs.append((n4, sorted(r.sample(range(n4), 200)) if False else sorted({r.randrange(n4) for _ in range(200)})))
    vs.append((P32, [0, P32 - 1]))            # exactly 2^32 bits
    vs.append((P32 + 1, []))                  # no ones at all
    # an inventory entry whose ones span more than 2^32 bits and that is not the first entry, followed by
    # ordinary entries (four ones per entry with with_inv(.., 2, ..))
    a = P32 + 10000
    b = a + 100000
    vs.append((b + 100000, [0, 1, 2, 3, 10, 1000000, 3000000000, P32 + 5000, a, a + 70000, a + 80000, a + 90000,
                            b, b + 70000, b + 80000, b + 90000]))
    # the only one of the first upper block right before its end, the next ones inside the second upper block
    vs.append((P32 + 20000, [P32 - 100, P32 + 10000, P32 + 15000]))
    vs.append((P32 + 20000, [5, P32 - 1, P32, P32 + 19999]))
    # two ones per inventory entry (log2 = 1): the second entry spans more than 2^32 bits and its second one is
    # stored locally (subinventory of two words)
    g = 5_000_000_000
    vs.append((g + 100, [0, 1, 10, 20, g, g + 1, g + 50, g + 51]))
    return vs


def runs_of(ones):
    """maximal runs [s, e) of a sorted list of positions"""
    out = []
    for p in ones:
        if out and out[-1][1] == p:
            out[-1][1] = p + 1
        else:
            out.append([p, p + 1])
    return out


def dense_vectors(r, big):
    """(len, runs) with billions of ones: counters of whole upper blocks are non-zero, ranks are wide"""
    vs = []
    base = P32
    vs.append((base + (1 << 17), [[7000, base + (1 << 17)]]))                       # zeros first, then all ones
    vs.append((base + 100000, [[0, base - 12345], [base + 5, base + 77], [base + 90000, base + 100000]]))
    vs.append((base + 4096, [[0, base + 4096]]))                                    # all ones
    vs.append((base + 70000, [[1 << 31, (1 << 31) + 10], [base - 64, base + 64], [base + 1000, base + 60000]]))
    if big:
        vs.append((2 * base + 1000, [[100, base + 200], [base + 300, 2 * base - 7], [2 * base + 5, 2 * base + 999]]))
    return vs


def ops_for(r, n, runs):
    ends = sorted({x for s, e in runs for x in (s, e)})
    m = sum(e - s for s, e in runs)
    ps = {0, 1, P32 - 1, P32, P32 + 1, n - 1, n, n + 1, n + 64, (1 << 64) - 1}
    for o in ends[:8] + ends[-8:] + r.sample(ends, min(len(ends), 12)):
        ps |= {o, o + 1, max(0, o - 1)}
    ops = [{"op": "len"}, {"op": "num_ones"}, {"op": "num_zeros"}]
    for p in sorted(ps):
        ops.append({"op": "rank", "p": L(p)})
        ops.append({"op": "rank_zero", "p": L(p)})
        if p <= n:
            ops.append({"op": "index", "p": L(p)})
    # ranks of ones: around the cumulative counts at the run ends, around 2^32, at and past the count
    rs = {0, 1, 2, m - 2, m - 1, m, m + 1, P32 - 1, P32, P32 + 1, 1 << 33, (1 << 64) - 1}
    cum = 0
    for s, e in runs[:40]:
        rs |= {cum - 1, cum, cum + 1, cum + (e - s) // 2}
        cum += e - s
    rs |= {r.randrange(max(1, m)) for _ in range(30)}
    for x in sorted(v for v in rs if v >= 0):
        ops.append({"op": "select", "r": L(x)})
    z = n - m
    zs = {0, 1, 2, z - 2, z - 1, z, z + 1, P32 - 1, P32, P32 + 1, (1 << 64) - 1}
    cum, prev = 0, 0
    for s, e in runs[:40]:
        cum += s - prev
        zs |= {cum - 1, cum, cum + 1}
        prev = e
    zs |= {r.randrange(max(1, z)) for _ in range(20)}
    for x in sorted(v for v in zs if v >= 0):
        ops.append({"op": "select_zero", "r": L(x)})
    return ops


# (vector index in vectors(), stack index in STACKS): the combinations that reach the code that only exists for
# vectors beyond 2^32 bits (64-bit spans that are not the first entry, inventory entries next to an upper block)
ESSENTIAL = [(-4, 7), (-4, 8), (-4, 11), (-3, 18), (-3, 21), (-3, 24), (-2, 19), (-2, 22), (1, 7), (2, 18), (0, 0), (0, 3),
             (0, 6), (3, 22), (3, 14), (5, 2), (6, 23), (2, 28), (-4, 34), (-3, 20), (-2, 25), (-4, 29), (-4, 30), (-4, 31),
             (1, 29), (1, 33), (-1, 29), (-1, 35), (-1, 14)]
# (dense vector index, stack index)
DENSE = [(0, 18), (0, 21), (0, 1), (1, 19), (1, 9), (1, 24), (2, 20), (2, 13), (3, 22), (3, 6), (0, 16), (1, 4), (2, 0), (3, 27)]


def inventory_bytes(key, layers, ones, zeros):
    """rough size of the inventories a stack allocates over a vector with that many ones / zeros (the adaptive
    constructors `new` / `span` choose their quantum by density and stay small; a fixed quantum does not)"""
    total = 0
    names = key.split("/")
    for i, nm in enumerate(names):
        lay = layers[i] if i < len(layers) else {}
        cnt = zeros if nm.startswith("sz") else ones
        if nm in ("sa", "sza") and lay.get("m") == "inv":
            total += (cnt >> lay["a"]) * 8 * (1 + (1 << lay.get("b", 0)))
        elif nm.startswith("sac") or nm.startswith("szac"):
            L_, M_ = nm[3 if nm.startswith("sac") else 4:].split("_")
            total += (cnt >> int(L_)) * 8 * (1 + (1 << int(M_)))
    return total


def affordable(si, ones, zeros, limit=3 << 30):
    """the stack of index si, or the next one whose inventories stay below `limit` bytes on this vector (a selector
    with one inventory entry per one over billions of ones would ask for tens of gigabytes: a property of the
    script, not of the code)"""
    for d in range(len(STACKS)):
        key, layers = STACKS[(si + d) % len(STACKS)]
        if inventory_bytes(key, layers, ones, zeros) <= limit:
            return key, layers
    return STACKS[0]


def episodes(seed, count, big=False):
    r = random.Random(seed ^ 0xB16)
    vs = vectors(r, big)
    ds = dense_vectors(r, big)
    eps = []

    def ep(n, runs, key, layers):
        # inputs only inside the domain: runs inside [0, n), disjoint and not adjacent
        runs = [[s, min(e, n)] for s, e in runs if s < n]
        merged = []
        for s, e in sorted(runs):
            if merged and s <= merged[-1][1]:
                merged[-1][1] = max(merged[-1][1], e)
            else:
                merged.append([s, e])
        runs = merged
        ones = sum(e - s for s, e in runs)
        if inventory_bytes(key, layers, ones, n - ones) > (3 << 30):
            key, layers = affordable([k2 for k2, st in enumerate(STACKS) if st == (key, layers)][0], ones, n - ones)
        return {"fam": "rsbig", "src": "recipe", "len": L(n), "runs": [[L(s), L(e)] for s, e in runs], "key": key,
                "layers": layers, "ops": [{"op": "build"}] + ops_for(r, n, runs), "budget_ms": 300000}
    for k in range(count):
        if k < len(ESSENTIAL):
            vi, si = ESSENTIAL[k]
            n, ones = vs[vi if (not big or vi >= 5 or vi < 0) else vi + (5 if k % 2 else 0)]
            key, layers = STACKS[si]
        else:
            n, ones = vs[k % len(vs)]
            key, layers = STACKS[(k * 7 + seed) % len(STACKS)]
        eps.append(ep(n, runs_of(ones), key, layers))
    for k in range(max(len(DENSE), count // 2) if count > len(DENSE) else len(DENSE)):
        vi, si = DENSE[k] if k < len(DENSE) else (k % len(ds), (k * 5 + seed) % len(STACKS))
        n, runs = ds[vi % len(ds)]
        key, layers = STACKS[si]
        eps.append(ep(n, runs, key, layers))
    return eps
