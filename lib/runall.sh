#!/bin/sh
# runall.sh [tier] : every registered check, sequentially, on /repo; prints one summary line per property
tier=${1:-quick}
cd "$(dirname "$0")/.."
for p in C01 C02 C03 C04 C05 C06 C07 C08 C09 C10 C11 C12 C13 C14 C15 C16 C17 C18 C19 C20; do
  t0=$(date +%s)
  out=$(./check $p --tier $tier 2>&1); rc=$?
  echo "$p rc=$rc $(( $(date +%s) - t0 ))s seed=${VERIF_SEED:-default} $(echo "$out" | grep -E "tier=" | tail -1 | cut -c1-150)"
  if [ $rc -ne 0 ]; then echo "$out" | grep -E "VIOLATION|TOOL-ERROR|rejected:" | head -5 | cut -c1-400; fi
done
