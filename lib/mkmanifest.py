#!/usr/bin/env python3
"""Regenerates /verif/MANIFEST.json from the table below (single source)."""
import json
import os
import sys

sys.path.insert(0, os.path.dirname(os.path.abspath(__file__)))

TRUST = ("Trusted base: TLC 1.8.0 and the TLA+ modules under spec/; the Rust executor (harness/) only records "
         "calls and results; Python only generates inputs and moves files. ")

CHECKS = {
    "C06": dict(
        technique="TLA+ spec BitVec.tla: exhaustive TLC on the W=4 design model + TLC-exported W=64 histories "
                  "replayed on the real code + TLC trace validation of every execution",
        text="TLC explores every reachable (contents, backend, form) state of a 4-bit-word model of BitVec with all "
             "operations/arguments and checks refinement of Vec<bool>, the word-level reader designs and clean panics; "
             "every history of mutators over boundary menus (W=64) is exported by TLC, executed on the real BitVec/"
             "AtomicBitVec and each recorded call (result, length, whole backend) is accepted or rejected by TLC "
             "against the same specification; long random histories are validated the same way.",
        note=TRUST + "Exhaustive only inside the stated menus/bounds; W=64 only; lengths < 2^31.",
        design_ref="5/C06"),
    "C03": dict(
        technique="TLA+ specs EliasFano.tla (abstract builder/sequence machine) and EFDesign.tla (transcription of the "
                  "low/high split, select-based get, iterator window): exhaustive TLC + TLC-exported builder histories "
                  "replayed on the real builders/back-ends + TLC trace validation (values as base-2^15 limbs over all of usize)",
        text="TLC checks on every monotone sequence with n<=4(5), u<=9(24), every admissible l, that the encoded "
             "low/high arrays decode to the sequence, that get/iter/iter_from (incl. k=n and k=n+1) read inside the "
             "arrays and return the sequence with exact hints, and on the abstract machine that rejected pushes leave "
             "the builder unchanged; every builder history (accepted and rejected pushes, values {0,1,2,u-1,u,u+1}, "
             "u up to 2^64-1) is exported by TLC and executed on the real sequential/concurrent builders and From, "
             "over 19 selection back-ends, and each recorded call is judged by TLC; recipes (empty with u>0, n=1, "
             "last=u, u near 2^32/2^63/2^64, l=0 duplicate runs across words, empty-bucket runs, gaps straddling 2^l) "
             "and random sequences up to 9000 (70000) values are validated the same way.",
        note=TRUST + "n < 2^31; design model bounded as stated; what a rejected extend consumed is not specified "
             "(builder treated as abandoned).",
        design_ref="5/C03 C04"),
    "C04": dict(
        technique="TLA+ spec EliasFano.tla (order-theoretic index_of/succ/pred with 'any index holding the value') + "
                  "EFDesign.tla (bucket location by select_zero with explicit existence requirement, bounded scans): "
                  "exhaustive TLC + TLC-exported query scripts + TLC trace validation; FairChunks.tla composes successor "
                  "queries into a checked iterator",
        text="TLC checks the transcription of index_of/succ/pred (both strictness flags) against the order-theoretic "
             "definitions for every small sequence and every q<=u+3 incl. that select_zero is only asked for zeros "
             "that exist; TLC exports every sequence of n<=3(4) values in a 5-value window placed at 0, 2^32-2 and "
             "2^64-5 with every query in and around the window plus 0 and 2^64-1, replayed on 10 dictionary back-ends "
             "(directly and through the &T forwarding impls); recipes and random sequences add empty-bucket runs, "
             "duplicates, q>u, q=usize::MAX, singleton and empty dictionaries; all judged by TLC. FairChunks (an "
             "iterator driven by successor queries on an Elias-Fano dictionary) is model-checked and trace-validated "
             "as an additional client of the same contract.",
        note=TRUST + "n < 2^31; bounded design model.",
        design_ref="5/C03 C04"),
    "C09": dict(
        technique="TLA+ specs RearCoded.tla (abstract list of byte strings) and RCLDesign.tla (transcription of block "
                  "coding, variable-byte rear lengths, pointers, sortedness flag, decoding, binary search + in-block scan "
                  "with bounds-checked reads): exhaustive TLC + TLC-exported lists replayed + TLC trace validation",
        text="TLC explores every list of <=4(5) strings over a 2(3)-letter alphabet x k in {1,2,3,5} x every index, "
             "start position (up to 4 past the end) and probe string, checking that the design's get/iter/iter_from/"
             "index_of equal the abstract list, hints are exact, the sorted flag is right and no array is read out of "
             "bounds; the integer code is checked bijective at all byte-count boundaries; every such list is exported "
             "and its full query battery executed on the real RearCodedList and judged by TLC; recipes (k up to 1000, "
             "empty list/strings, duplicates, UTF-8 edges, rear lengths around 128/16512/2113664, shuffled input, absent "
             "probes between stored strings, prefixes/extensions of block heads) and random lists likewise.",
        note=TRUST + "Strings are valid UTF-8 (API takes &str); rear lengths needing 5+ code bytes are not executed.",
        design_ref="5/C09"),
    "C20": dict(
        technique="TLA+ spec Lender.tla (Lines(input) in closed form and as a scanning reference, Take, Next/Rewind "
                  "machine): exhaustive TLC over all consume/rewind histories + TLC-exported histories replayed on every "
                  "lender kind + TLC trace validation",
        text="TLC checks that the closed-form line splitting equals the byte-scanning reference on every string over "
             "{a,LF,CR} of <=7(9) bytes and that every pass of every history (next, nexts, drain, rewind, depth 5(6)) "
             "is a prefix of the items; all histories of depth 4(6) over 8 menu inputs x 9 lender kinds x Take variants "
             "are exported and executed on LineLender (cursor/BufRead/file/path), ZstdLineLender, GzipLineLender, "
             "FromIntoIterator and Take of them (compressed inputs flushed every 2 bytes, 3-byte BufReader), each call "
             "judged by TLC; random and large inputs (multi-block zstd, long lines, CRLF mixes) likewise.",
        note=TRUST + "One genuine defect is recorded, not repaired (rewind of lender::Take keeps the remaining count; "
             "needs an API change): known_findings.json F-take-rewind-remaining. I/O errors are not injected here (C17).",
        design_ref="5/C20"),
    "C13": dict(
        technique="TLA+ spec Atomic.tla (one action per atomic instruction): TLC explores every interleaving incl. CAS "
                  "retries of 2-4 writers (invariants NoInterference, SwapLinearizable, EqualsSequential; Termination "
                  "under fairness); every complete schedule is exported and replayed step by step on real threads "
                  "through the sux_verif yield hooks; random/PCT schedules are trace-validated against the spec",
        text="Exhaustive exploration by TLC of all interleavings of the atomic loads / compare-exchanges / fetch-or/and "
             "of 2-4 concurrent writers on fields that share a word, straddle two words or sit in adjacent words "
             "(W=64 and the real u8 instantiation, all widths incl. full width, three memory patterns, EF builder jobs "
             "with all index partitions), with lock-freedom checked as a liveness property; conformance in both "
             "directions: every TLC schedule is replayed on the real AtomicBitFieldVec/AtomicBitVec with a deterministic "
             "scheduler parked on the hooks and every step's memory effect is judged by TLC (Trace_Atomic), and random "
             "/ PCT / burst schedules over 4-8 threads and hundreds of fields, incl. the real "
             "EliasFanoConcurrentBuilder::set compared with the sequential builder, are validated as behaviours of the "
             "spec. The rayon-parallel (unscheduled) concurrent Elias-Fano build is compared with the sequential one "
             "by the ef family under the same property.",
        note=TRUST + "Memory is modelled sequentially consistent per word (each step is one atomic operation on one "
             "location, so this is sound for distinct-element writers; reordering across different words is outside "
             "the model). Step-by-step conformance is tied to the pinned instruction order. Needs hooks (--cfg sux_verif).",
        design_ref="5/C13"),
    "C16": dict(
        technique="TLA+ spec ShardEdge.tla (design of fuse/MWHC graphs + scaled transcriptions of edge_1/edge_2/"
                  "edge_2_big/mwhc::edge and all six ShardEdge implementations + wide-number contract on events): "
                  "exhaustive TLC on small geometries, TLC-exported set-ups replayed, TLC trace validation",
        text="TLC proves on every small geometry (<=4 shards, l<=4(5), segment size 2^s, s<=2(3), 4(8)-bit signature "
             "words) that the transcribed edge computations of all six logics produce, for every signature, three "
             "pairwise distinct vertices inside the array and inside the shard slice that equal the shifted local "
             "edge, with sort keys in range; on the real code TLC validates for 198 (2406) exported set-ups and a sweep "
             "of key counts (every 16th n in 0..2000, 2^k+-1 to 2^39, 10^k+-1 to 10^12, all regime boundaries +-2, "
             "largest-shard recipes avg/mid/max) x eps x all implementations x ~200 signatures (all-zero, all-ones, "
             "each word/limb saturated, single bits, random) the contract of the property with wide arithmetic in "
             "TLA+: distinct, in range, in slice, edge = local_edge(local_sig)+shard*num_vertices, shard = high bits "
             "(= Sig::high_bits), sort_key < num_sort_keys; also after reload (full/eps/mmap).",
        note=TRUST + "The floating-point parameter formulas are not modelled (parameters are read from the log and "
             "only the contract is checked); n <= 10^12; geometry for design membership is parsed from Display.",
        design_ref="5/C16"),
    "C19": dict(
        technique="TLA+ specs Mod2.tla (satisfiability per bit plane, solvability by set-based elimination and by brute "
                  "force, checked equal) and Mod2Design.tla (transcription of add_ptr, echelon form, lazy elimination "
                  "with weights/priorities/dense remainder/pivot back-substitution): exhaustive TLC + all small systems "
                  "exported and solved by the real solvers + TLC trace validation",
        text="TLC checks for every system of <=3 variables and <=3 equations (4x4 in thorough: 880k states) with 1-bit "
             "constants, and 2-variable systems over two bit planes, that the transcribed Gauss and lazy designs never "
             "panic, return Ok exactly when the system is solvable and that their assignment satisfies it; all those "
             "systems are exported and run through gaussian_elimination and lazy_gaussian_elimination (both "
             "constructors) and check(), and TLC decides each recorded result (Ok(s) must satisfy every equation in "
             "every plane, Err only if unsolvable, never a panic); random systems up to 40 variables / 60 equations "
             "over u8..u128 with dependent, repeated, contradictory (single-plane) rows, unused variables, planted "
             "solutions, fuse-layout and 3-uniform systems with a surviving 2-core exercise the lazy-to-dense hand-over.",
        note=TRUST + "Solvability of large random systems is decided in TLA+ by elimination (brute force only <= 10 "
             "variables). The systems lge_shard actually builds are imitated by the generators, not recorded.",
        design_ref="5/C19"),
    "C18": dict(
        technique="TLA+ spec SigStore.tla (contract + design transcription of push/bucket counting, size aggregation and "
                  "the equal/aggregate/split iterator branches, online and file-backed with chunked reads): exhaustive "
                  "TLC over all small stores, TLC-exported scripts replayed on SigStore/ShardStore, TLC trace validation",
        text="TLC enumerates every multiset of up to 2-4 pushes with 3-bit tops x bucket bits 0..2 x max shard bits 0..3 "
             "x every requested shard bits (incl. max+1: panic) x online/offline x two borrowed passes then the "
             "consuming pass, with iterators dropped at any point, and checks in every state that the design returns "
             "exactly the pushed multiset, every pair in the shard of its top bits, 2^s shards, shard_sizes = actual "
             "sizes, no out-of-bounds access; all those histories are exported and executed on the real stores "
             "([u64;1]/[u64;2], u8/u64/EmptyVal values) and each recorded call is judged by TLC; generated stores of "
             "0..5000 pairs with skewed distributions and every (bucket,max,requested) triple from {0,1,2,4,8,9} cross "
             "the 1024-record read buffer of the file-backed store.",
        note=TRUST + "Agreement of repeated iterations is checked as equal multisets per shard (order inside a shard is "
             "not part of the property). The spec computes every shard number itself from the logged signature limbs.",
        design_ref="5/C18"),
}

PENDING = "check under construction in this session (specification not yet bound to the code)"
ALL = ["C%02d" % i for i in range(1, 21)]


def main():
    checks = []
    for pid in ALL:
        if pid not in CHECKS:
            continue
        c = CHECKS[pid]
        checks.append({
            "property_id": pid,
            "quick_cmd": "./check %s --tier quick" % pid,
            "thorough_cmd": "./check %s --tier thorough" % pid,
            "evidence_file": "evidence/%s.json" % pid,
            "replay_cmd_template": "./check %s --replay {path}" % pid,
            "engine": "tlc",
            "level_claimed": {"category": "model_checking", "text": c["text"], "design_ref": c["design_ref"]},
            "level_note": c["note"],
            "technique": c["technique"],
        })
    m = {
        "version": 1,
        "setup_cmd": "./setup.sh",
        "hooks": {
            "guard": "sux_verif",
            "enable": "RUSTFLAGS --cfg sux_verif (set in harness/.cargo/config.toml; the harness has a path dependency on /repo)",
            "baseline_off_cmd": "cd /repo && cargo test --workspace --no-fail-fast --offline",
            "source_commits": ["3928906"],
            "add_only": True,
        },
        "engines": [{"name": "tlc", "path": "spec/", "serves_properties": [c["property_id"] for c in checks],
                     "kind_free_text": "explicit TLA+ specifications checked with TLC: bounded design models, "
                                       "behaviour export replayed on the code, trace validation of recorded executions"}],
        "checks": checks,
        "not_applicable": [{"property_id": p, "reason": PENDING} for p in ALL if p not in CHECKS],
        "notes": "All judgements are made by TLC on spec/*.tla. ./check <id> --tier quick|thorough; exit 2 = tool error.",
    }
    with open(os.path.join(os.path.dirname(os.path.abspath(__file__)), "..", "MANIFEST.json"), "w") as f:
        json.dump(m, f, indent=1)
        f.write("\n")


if __name__ == "__main__":
    main()
