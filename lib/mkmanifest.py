#!/usr/bin/env python3
"""Regenerates /verif/MANIFEST.json from the table below (single source)."""
import json
import os
import sys

sys.path.insert(0, os.path.dirname(os.path.abspath(__file__)))

TRUST = ("Trusted base: TLC 1.8.0 and the TLA+ modules under spec/; the Rust executor (harness/) only records "
         "calls and results; Python only generates inputs and moves files. ")

CHECKS = {
    "C06": dict(
        technique="TLA+ spec BitVec.tla: exhaustive TLC on the W=4 design model + TLC-exported W=64 histories "
                  "replayed on the real code + TLC trace validation of every execution",
        text="TLC explores every reachable (contents, backend, form) state of a 4-bit-word model of BitVec with all "
             "operations/arguments and checks refinement of Vec<bool>, the word-level reader designs and clean panics; "
             "every history of mutators over boundary menus (W=64) is exported by TLC, executed on the real BitVec/"
             "AtomicBitVec and each recorded call (result, length, whole backend) is accepted or rejected by TLC "
             "against the same specification; long random histories are validated the same way.",
        note=TRUST + "Exhaustive only inside the stated menus/bounds; W=64 only; lengths < 2^31.",
        design_ref="5/C06"),
    "C13": dict(
        technique="TLA+ spec Atomic.tla (one action per atomic instruction): TLC explores every interleaving incl. CAS "
                  "retries of 2-4 writers (invariants NoInterference, SwapLinearizable, EqualsSequential; Termination "
                  "under fairness); every complete schedule is exported and replayed step by step on real threads "
                  "through the sux_verif yield hooks; random/PCT schedules are trace-validated against the spec",
        text="Exhaustive exploration by TLC of all interleavings of the atomic loads / compare-exchanges / fetch-or/and "
             "of 2-4 concurrent writers on fields that share a word, straddle two words or sit in adjacent words "
             "(W=64 and the real u8 instantiation, all widths incl. full width, three memory patterns, EF builder jobs "
             "with all index partitions), with lock-freedom checked as a liveness property; conformance in both "
             "directions: every TLC schedule is replayed on the real AtomicBitFieldVec/AtomicBitVec with a deterministic "
             "scheduler parked on the hooks and every step's memory effect is judged by TLC (Trace_Atomic), and random "
             "/ PCT / burst schedules over 4-8 threads and hundreds of fields, incl. the real "
             "EliasFanoConcurrentBuilder::set compared with the sequential builder, are validated as behaviours of the "
             "spec. The rayon-parallel (unscheduled) concurrent Elias-Fano build is compared with the sequential one "
             "by the ef family under the same property.",
        note=TRUST + "Memory is modelled sequentially consistent per word (each step is one atomic operation on one "
             "location, so this is sound for distinct-element writers; reordering across different words is outside "
             "the model). Step-by-step conformance is tied to the pinned instruction order. Needs hooks (--cfg sux_verif).",
        design_ref="5/C13"),
    "C18": dict(
        technique="TLA+ spec SigStore.tla (contract + design transcription of push/bucket counting, size aggregation and "
                  "the equal/aggregate/split iterator branches, online and file-backed with chunked reads): exhaustive "
                  "TLC over all small stores, TLC-exported scripts replayed on SigStore/ShardStore, TLC trace validation",
        text="TLC enumerates every multiset of up to 2-4 pushes with 3-bit tops x bucket bits 0..2 x max shard bits 0..3 "
             "x every requested shard bits (incl. max+1: panic) x online/offline x two borrowed passes then the "
             "consuming pass, with iterators dropped at any point, and checks in every state that the design returns "
             "exactly the pushed multiset, every pair in the shard of its top bits, 2^s shards, shard_sizes = actual "
             "sizes, no out-of-bounds access; all those histories are exported and executed on the real stores "
             "([u64;1]/[u64;2], u8/u64/EmptyVal values) and each recorded call is judged by TLC; generated stores of "
             "0..5000 pairs with skewed distributions and every (bucket,max,requested) triple from {0,1,2,4,8,9} cross "
             "the 1024-record read buffer of the file-backed store.",
        note=TRUST + "Agreement of repeated iterations is checked as equal multisets per shard (order inside a shard is "
             "not part of the property). The spec computes every shard number itself from the logged signature limbs.",
        design_ref="5/C18"),
}

PENDING = "check under construction in this session (specification not yet bound to the code)"
ALL = ["C%02d" % i for i in range(1, 21)]


def main():
    checks = []
    for pid in ALL:
        if pid not in CHECKS:
            continue
        c = CHECKS[pid]
        checks.append({
            "property_id": pid,
            "quick_cmd": "./check %s --tier quick" % pid,
            "thorough_cmd": "./check %s --tier thorough" % pid,
            "evidence_file": "evidence/%s.json" % pid,
            "replay_cmd_template": "./check %s --replay {path}" % pid,
            "engine": "tlc",
            "level_claimed": {"category": "model_checking", "text": c["text"], "design_ref": c["design_ref"]},
            "level_note": c["note"],
            "technique": c["technique"],
        })
    m = {
        "version": 1,
        "setup_cmd": "./setup.sh",
        "hooks": {
            "guard": "sux_verif",
            "enable": "RUSTFLAGS --cfg sux_verif (set in harness/.cargo/config.toml; the harness has a path dependency on /repo)",
            "baseline_off_cmd": "cd /repo && cargo test --workspace --no-fail-fast --offline",
            "source_commits": ["3928906"],
            "add_only": True,
        },
        "engines": [{"name": "tlc", "path": "spec/", "serves_properties": [c["property_id"] for c in checks],
                     "kind_free_text": "explicit TLA+ specifications checked with TLC: bounded design models, "
                                       "behaviour export replayed on the code, trace validation of recorded executions"}],
        "checks": checks,
        "not_applicable": [{"property_id": p, "reason": PENDING} for p in ALL if p not in CHECKS],
        "notes": "All judgements are made by TLC on spec/*.tla. ./check <id> --tier quick|thorough; exit 2 = tool error.",
    }
    with open(os.path.join(os.path.dirname(os.path.abspath(__file__)), "..", "MANIFEST.json"), "w") as f:
        json.dump(m, f, indent=1)
        f.write("\n")


if __name__ == "__main__":
    main()
