#!/usr/bin/env python3
"""Regenerates /verif/MANIFEST.json from the table below (single source)."""
import json
import os
import sys

sys.path.insert(0, os.path.dirname(os.path.abspath(__file__)))

TRUST = ("Trusted base: TLC 1.8.0 and the TLA+ modules under spec/; the Rust executor (harness/) only records "
         "calls and results; Python only generates inputs and moves files. ")

CHECKS = {
    "C05": dict(
        technique="TLA+ spec BitField.tla (sequence of w-bit values over a store of bit positions, word type as a "
                  "variable; design transcriptions of two-word get/set, window iterators, eq, reset): exhaustive TLC on "
                  "W=4 and on the real W=8 + TLC-exported histories replayed on BitFieldVec<u8> + TLC trace validation "
                  "for all six word types",
        text="TLC explores every backend content, length, operation and argument of a 4-bit-word model (widths 0..4, "
             "<=2(3) words) and the real 8-bit instantiation, checking refinement of Vec<value>, untouched neighbours, "
             "clean panics, iterator designs and absence of out-of-range reads/shifts; every depth-2(3) history with an "
             "observer battery is exported and replayed on BitFieldVec<u8>; random histories over u8..u128/usize, every "
             "width 0..=W::BITS (incl. full width and all-ones values), growth/shrink/write interleavings, "
             "vec/boxed/atomic/eps/mmap forms, slice and atomic views are executed and every call (result, length, "
             "whole backend) is judged by TLC.",
        note=TRUST + "Lengths < 2^31; exhaustive inside the stated menus. Two width-0 corner cases are recorded as "
             "known findings (empty caller-supplied backend; try_chunks_mut).",
        design_ref="5/C05"),
    "C06": dict(
        technique="TLA+ spec BitVec.tla: exhaustive TLC on the W=4 design model + TLC-exported W=64 histories "
                  "replayed on the real code + TLC trace validation of every execution",
        text="TLC explores every reachable (contents, backend, form) state of a 4-bit-word model of BitVec with all "
             "operations/arguments and checks refinement of Vec<bool>, the word-level reader designs and clean panics; "
             "every history of mutators over boundary menus (W=64) is exported by TLC, executed on the real BitVec/"
             "AtomicBitVec and each recorded call (result, length, whole backend) is accepted or rejected by TLC "
             "against the same specification; long random histories are validated the same way.",
        note=TRUST + "Exhaustive only inside the stated menus/bounds; W=64 only; lengths < 2^31.",
        design_ref="5/C06"),
    "C01": dict(
        technique="TLA+ specs RankSel.tla (abstract bit vector as runs; rank by binary search) and RankDesign.tla (scaled "
                  "transcription of Rank9 and the five RankSmall layouts incl. the hinted scan): exhaustive TLC + "
                  "TLC-exported run recipes replayed on every rank structure / wrapper stack + TLC trace validation",
        text="TLC checks on every bit vector of <=10 (thorough 16) bits, every length and every garbage beyond the "
             "length that the transcribed counter layouts (Rank9, RankSmall 0..4) give rank(p) = prefix popcount for "
             "all p, num_ones = ones, and read no word outside the backend; TLC exports every vector made of <=3(4) "
             "alternating runs with lengths from {1,63,64,65,511,...,8193} x first bit x five tail treatments (clean, "
             "pop, truncate, dirty last word, spare words); each is built on the real code as Rank9, rank_small![0..4] "
             "and under stacks of selection wrappers (86 compiled stack types) and every recorded rank/rank_zero/"
             "num_ones/count_ones/len/index call is judged by TLC; generated vectors add densities 0.001..0.999, "
             "saturated blocks and two-density vectors.",
        note=TRUST + "Trace validation covers vectors < 2^31 bits; upper_counts beyond 2^32 bits are covered only by "
             "the scaled design model.",
        design_ref="5/C01 C02"),
    "C02": dict(
        technique="TLA+ specs RankSel.tla + SelectDesign.tla (two-level adaptive inventory, span classes, spill, const "
                  "and runtime parameters, ones and zeros), Select9Design.tla, SelectSmallDesign.tla (scaled "
                  "superblocks): exhaustive TLC + TLC-exported recipes replayed on every selection structure and "
                  "nesting + TLC trace validation",
        text="TLC checks the transcribed constructions and queries of SelectAdapt/SelectAdaptConst and their zero twins "
             "on every vector of <=8(12) bits x inventory parameters, SelectSmall/SelectZeroSmall on all seven layouts "
             "with scaled 2^32-bit superblocks, and Select9 at its real parameters on structured vectors reaching all "
             "six span classes: select(r) is the r-th one/zero, None past the count, no read outside the arrays; the "
             "exported run recipes (as for C01) and generated vectors (gaps exactly at span thresholds, counts that are "
             "multiples of the inventory quantum with ragged tails, word counts not divisible by 4, sparse vectors of "
             "70000..2^20 bits, stale tails) are built as Select9, SelectAdapt (with_span/with_inv), SelectAdaptConst "
             "over a menu of const parameters, the zero selectors, SelectSmall over each RankSmall, and nestings in both "
             "orders; every select/select_zero/_unchecked/rank answer is judged by TLC against the same abstract vector.",
        note=TRUST + "Vectors < 2^31 bits on the real code; the 64-bit span class and SelectSmall superblock logic "
             "(> 2^32 bits) are decided on the scaled design models only (two defects found there were confirmed by "
             "one-off 6*10^9-bit probes).",
        design_ref="5/C01 C02"),
    "C03": dict(
        technique="TLA+ specs EliasFano.tla (abstract builder/sequence machine) and EFDesign.tla (transcription of the "
                  "low/high split, select-based get, iterator window): exhaustive TLC + TLC-exported builder histories "
                  "replayed on the real builders/back-ends + TLC trace validation (values as base-2^15 limbs over all of usize)",
        text="TLC checks on every monotone sequence with n<=4(5), u<=9(24), every admissible l, that the encoded "
             "low/high arrays decode to the sequence, that get/iter/iter_from (incl. k=n and k=n+1) read inside the "
             "arrays and return the sequence with exact hints, and on the abstract machine that rejected pushes leave "
             "the builder unchanged; every builder history (accepted and rejected pushes, values {0,1,2,u-1,u,u+1}, "
             "u up to 2^64-1) is exported by TLC and executed on the real sequential/concurrent builders and From, "
             "over 19 selection back-ends, and each recorded call is judged by TLC; recipes (empty with u>0, n=1, "
             "last=u, u near 2^32/2^63/2^64, l=0 duplicate runs across words, empty-bucket runs, gaps straddling 2^l) "
             "and random sequences up to 9000 (70000) values are validated the same way.",
        note=TRUST + "n < 2^31; design model bounded as stated; what a rejected extend consumed is not specified "
             "(builder treated as abandoned).",
        design_ref="5/C03 C04"),
    "C04": dict(
        technique="TLA+ spec EliasFano.tla (order-theoretic index_of/succ/pred with 'any index holding the value') + "
                  "EFDesign.tla (bucket location by select_zero with explicit existence requirement, bounded scans): "
                  "exhaustive TLC + TLC-exported query scripts + TLC trace validation; FairChunks.tla composes successor "
                  "queries into a checked iterator",
        text="TLC checks the transcription of index_of/succ/pred (both strictness flags) against the order-theoretic "
             "definitions for every small sequence and every q<=u+3 incl. that select_zero is only asked for zeros "
             "that exist; TLC exports every sequence of n<=3(4) values in a 5-value window placed at 0, 2^32-2 and "
             "2^64-5 with every query in and around the window plus 0 and 2^64-1, replayed on 10 dictionary back-ends "
             "(directly and through the &T forwarding impls); recipes and random sequences add empty-bucket runs, "
             "duplicates, q>u, q=usize::MAX, singleton and empty dictionaries; all judged by TLC. FairChunks (an "
             "iterator driven by successor queries on an Elias-Fano dictionary) is model-checked and trace-validated "
             "as an additional client of the same contract.",
        note=TRUST + "n < 2^31; bounded design model.",
        design_ref="5/C03 C04"),
    "C07": dict(
        technique="TLA+ specs VBuild.tla (one acceptor Step over the build-loop events + abstract key->value map), "
                  "ParSolve.tla (feeder/workers/channels), Peel.tla (low-memory peeler): exhaustive TLC (safety + "
                  "Termination under fairness) + TLC-exported scenarios replayed + hook events and all answers "
                  "trace-validated",
        text="TLC explores the build loop for every n<=3(6) abstract keys x hint class (none, exact, smaller/larger across "
             "a shard threshold) x duplicates x check_dups x function/filter x every fault placement and transient "
             "failure, with invariants OkIsWhole, HintIrrelevant, ErrorsSurface, DupBound and termination; ParSolve "
             "(K<=3 workers, 4 shards) and the peeler are model-checked for 'every shard solved exactly once', no "
             "deadlock, no out-of-range access. On the real code every build emits its hook events (attempts, key "
             "count, shard bits of edge logic and store, max shard, classification, rewind) which TLC validates with "
             "the same Step, then len and get for every key (every n in 0..130 quick / 0..1000 thorough, sizes around "
             "100, 100k, 800k (up to 2*10^7), six hints, key types, value recipes incl. width 0, Box<[W]> and "
             "BitFieldVec backends, both signature widths, all logics incl. MWHC, offline, low_mem, threads 1..8, eps, "
             "buckets, seeds) are judged against the abstract map.",
        note=TRUST + "22 builder instantiations are compiled; ParSolve/Peel are design models bound to the code only "
             "through end-to-end answers at sharded sizes with 1,2,4,8 threads. Needs hooks (--cfg sux_verif). Known "
             "finding: MWHC logics (feature mwhc) never terminate on 2 (4, 9) keys.",
        design_ref="5/C07 C17 C08"),
    "C08": dict(
        technique="TLA+ spec VBuild.tla (filter part: members, len, hash_bits, false-positive acceptance rule FpOk) + "
                  "the build-loop acceptor: TLC model checking + trace validation of filter builds and probe batches",
        text="Filters are built for every b in 1..64 on BitFieldVec<u64>, 1..8 on <u8>, every slice word u8..u64, "
             "all logics, sizes from 0 to the regime switches, online/offline, and TLC judges: contains(k)=true and "
             "index agreement for every inserted key, len = n, hash_bits = b, and for batches of 64*2^b (2^20 for b>20) "
             "non-member probes that the number of positives lies in a six-sigma binomial interval around m/2^b "
             "(both sides), together with the same build-loop conformance as C07.",
        note=TRUST + "The false-positive claim is a statistical acceptance rule (deterministic keys; spurious "
             "rejection probability < 1e-8 per batch), not a proof.",
        design_ref="5/C07 C17 C08"),
    "C09": dict(
        technique="TLA+ specs RearCoded.tla (abstract list of byte strings) and RCLDesign.tla (transcription of block "
                  "coding, variable-byte rear lengths, pointers, sortedness flag, decoding, binary search + in-block scan "
                  "with bounds-checked reads): exhaustive TLC + TLC-exported lists replayed + TLC trace validation",
        text="TLC explores every list of <=4(5) strings over a 2(3)-letter alphabet x k in {1,2,3,5} x every index, "
             "start position (up to 4 past the end) and probe string, checking that the design's get/iter/iter_from/"
             "index_of equal the abstract list, hints are exact, the sorted flag is right and no array is read out of "
             "bounds; the integer code is checked bijective at all byte-count boundaries; every such list is exported "
             "and its full query battery executed on the real RearCodedList and judged by TLC; recipes (k up to 1000, "
             "empty list/strings, duplicates, UTF-8 edges, rear lengths around 128/16512/2113664, shuffled input, absent "
             "probes between stored strings, prefixes/extensions of block heads) and random lists likewise.",
        note=TRUST + "Strings are valid UTF-8 (API takes &str); rear lengths needing 5+ code bytes are not executed.",
        design_ref="5/C09"),
    "C20": dict(
        technique="TLA+ spec Lender.tla (Lines(input) in closed form and as a scanning reference, Take, Next/Rewind "
                  "machine): exhaustive TLC over all consume/rewind histories + TLC-exported histories replayed on every "
                  "lender kind + TLC trace validation",
        text="TLC checks that the closed-form line splitting equals the byte-scanning reference on every string over "
             "{a,LF,CR} of <=7(9) bytes and that every pass of every history (next, nexts, drain, rewind, depth 5(6)) "
             "is a prefix of the items; all histories of depth 4(6) over 8 menu inputs x 9 lender kinds x Take variants "
             "are exported and executed on LineLender (cursor/BufRead/file/path), ZstdLineLender, GzipLineLender, "
             "FromIntoIterator and Take of them (compressed inputs flushed every 2 bytes, 3-byte BufReader), each call "
             "judged by TLC; random and large inputs (multi-block zstd, long lines, CRLF mixes, inputs starting with a "
             "byte-order mark), sources whose seek fails, damaged and wide-window compressed streams (first pass as "
             "reference) likewise; the builder's own rewinding (anchor vbuilder.rs) through the vbuild retry recipes.",
        note=TRUST + "One genuine defect is recorded, not repaired (rewind of lender::Take keeps the remaining count; "
             "needs an API change): known_findings.json F-take-rewind-remaining. I/O errors are not injected here (C17).",
        design_ref="5/C20"),
    "C10": dict(
        technique="TLA+ spec BitField.tla (CopyDesign: six-way word-level copy; buffered apply_in_place on both paths; "
                  "chunk views; unaligned byte read; reset variants) + BitVec.tla (fill/flip/count and par_ variants): "
                  "exhaustive TLC on W=8 + exported cases replayed + TLC trace validation",
        text="TLC checks CopyDesign against the documented element loop for every width 1..8, source/destination length "
             "<=5..10, every (from,to,n) and alignment with per-branch coverage, and the apply/chunk/unaligned/reset "
             "transcriptions for bounds and shift overflows; all cases are exported and replayed on BitFieldVec<u8>; "
             "per-word-type alignment grids and random episodes drive copy into dirty destinations, apply_in_place with "
             "a recording closure (call count, order, arguments), try_chunks_mut reads/writes through views, "
             "get_unaligned inside its preconditions for every word type, reset/par_reset/reset_atomic, and the BitVec "
             "bulk operations; TLC compares every result and the whole backend.",
        note=TRUST + "apply_in_place is never driven with a function whose result does not fit the width. Known "
             "finding: try_chunks_mut on width 0 panics.",
        design_ref="5/C10"),
    "C11": dict(
        technique="space bounds stated in the TLA+ specs of every family (BitVec, BitField, RankSel, EliasFano with a "
                  "fixed-point lg, VBuild, ShardEdge): TLC checks the design formulas against the documented bounds for "
                  "all small sizes and validates every recorded mem_size event",
        text="Each family's specification contains the documented bound with a named additive constant justified from "
             "the allocation granularity (bit vectors: ceil(len/W) words while only built or grown; bit-field vectors "
             "likewise + padding word; Rank9 25%, RankSmall 18.75..1.5625%, Select9 +37.5%; Elias-Fano n(2+max(0,lg "
             "u/n)) bits with lg bracketed to 1/256 bit; functions/filters 1.23 n b, 1.135 n b from 100000 keys). TLC "
             "checks the code's sizing formulas against the bounds for every (n,u) <= (64,1100(4096)) and all small "
             "lengths, and judges mem_size events of thousands of builds at sizes around every block size, u/n at "
             "2^e-1, 2^e, 2^e+1, and every regime switch of the function logics.",
        note=TRUST + "Additive constants: <= 4 words (vectors), 11+2 words (Elias-Fano), one header/sentinel (rank/"
             "select), 14 words + one segment per shard (functions). Known finding: FuseLge3NoShards exceeds 1.135 n b "
             "between 100001 and ~737000 keys (by design of its handcrafted expansion factor). MWHC is bounded by its "
             "documented 23%.",
        design_ref="5/C11"),
    "C12": dict(
        technique="outcome rules of every TLA+ trace specification (ret / panic admitted per argument class, abort and "
                  "hang admitted nowhere) + NoOOB invariants of the design models, checked by TLC; executions under "
                  "ub_checks (debug assertions) and in release",
        text="All families run dedicated out-of-domain scripts (index at/past the end, rank at/past the count, queries "
             "above u, never-inserted keys, start at the end, usize::MAX, 2^63, empty and minimal structures, dirty "
             "backends, wrong call order) under a profile where unchecked slice access out of bounds aborts the process; "
             "the executor turns a dead process into an `abort` event and a stuck call into `hang`, and TLC rejects both "
             "everywhere while demanding the documented result or a clean panic; the design models additionally carry "
             "explicit bounds checks on every array read, model-checked exhaustively. Families: bitvec, bitfield, "
             "ranksel, ef, rcl (incl. probe strings holding NUL bytes), sigstore, shardedge, mod2, vbuild and the "
             "SliceSeq adapter (sliceseq). The thorough tier repeats every out-of-domain batch under an "
             "AddressSanitizer build of the executor.",
        note=TRUST + "The specification decides admissible outcomes but cannot observe memory: it relies on ub_checks / "
             "SIGSEGV (quick) and AddressSanitizer (thorough) to surface out-of-bounds access. Known "
             "findings: zero-width BitFieldVec over an empty caller-supplied backend; try_chunks_mut on width 0.",
        design_ref="5/C12"),
    "C13": dict(
        technique="TLA+ spec Atomic.tla (one action per atomic instruction): TLC explores every interleaving incl. CAS "
                  "retries of 2-4 writers (invariants NoInterference, SwapLinearizable, EqualsSequential; Termination "
                  "under fairness); every complete schedule is exported and replayed step by step on real threads "
                  "through the sux_verif yield hooks; random/PCT schedules are trace-validated against the spec",
        text="Exhaustive exploration by TLC of all interleavings of the atomic loads / compare-exchanges / fetch-or/and "
             "of 2-4 concurrent writers on fields that share a word, straddle two words or sit in adjacent words "
             "(W=64 and the real u8 instantiation, all widths incl. full width, three memory patterns, EF builder jobs "
             "with all index partitions), with lock-freedom checked as a liveness property; conformance in both "
             "directions: every TLC schedule is replayed on the real AtomicBitFieldVec/AtomicBitVec with a deterministic "
             "scheduler parked on the hooks and every step's memory effect is judged by TLC (Trace_Atomic), and random "
             "/ PCT / burst schedules over 4-8 threads and hundreds of fields, incl. the real "
             "EliasFanoConcurrentBuilder::set compared with the sequential builder, are validated as behaviours of the "
             "spec. Because the scheduler only sees instructions that carry a hook, the same instances also run with "
             "unscheduled threads behind a spin barrier (hundreds of repetitions; event `free`): every distinct outcome "
             "must satisfy what TLC proves of all interleavings (NoInterference, frame, a linearization of the calls on "
             "each bit). The rayon-parallel (unscheduled) concurrent Elias-Fano build is compared with the sequential "
             "one by the ef family under the same property.",
        note=TRUST + "Memory is modelled sequentially consistent per word (each step is one atomic operation on one "
             "location, so this is sound for distinct-element writers; reordering across different words is outside "
             "the model). Step-by-step conformance is tied to the pinned instruction order. Needs hooks (--cfg sux_verif).",
        design_ref="5/C13"),
    "C14": dict(
        technique="store component (set of backend bit positions incl. those beyond the length) of BitVec.tla and "
                  "BitField.tla: TLC enumerates every garbage pattern in the small models, exports dirty-start histories, "
                  "and validates store equality after every recorded call",
        text="In the W=4/W=8 models TLC starts from every backend content for every length (all garbage patterns in the "
             "last word and in spare words) and checks that every reader is a function of the logical contents and "
             "that every writer changes exactly the documented positions; dirty-start histories (every subset of the "
             "positions beyond the contents in the last word for W=8; all-ones/alternating/random garbage for W=64 and "
             "the other word types) are executed on from_raw_parts vectors incl. atomic forms, chunk views, copy into "
             "dirty destinations and apply_in_place, and after every call the whole backend obtained through the "
             "public API must equal the specification's store.",
        note=TRUST + "Exhaustive inside the stated menus; lengths < 2^31.",
        design_ref="5/C14"),
    "C15": dict(
        technique="Reload action (abstract state unchanged, instance replaced by the loaded one) in every family's TLA+ "
                  "specification; the full query battery is trace-validated on instances loaded by deserialize_full, "
                  "deserialize_eps (buffers at 0 and 8 mod 16), mmap and the load_* helpers",
        text="Bit vectors, bit-field vectors (all word types), every rank/select stack, all Elias-Fano variants and "
             "back-ends, rear-coded lists, shard/edge logics and functions/filters with every logic are serialized and "
             "loaded back in every way; the loaded instance replaces the structure under test, so the whole battery of "
             "queries (not only positional access) and, for owned copies, further mutation is judged by the same "
             "specification as the original; empty structures and chains of reloads are included.",
        note=TRUST + "Serialization is derived by epserde; sensitivity shown with seeded alignment-dependent changes "
             "(hence the two buffer placements).",
        design_ref="5/C15"),
    "C16": dict(
        technique="TLA+ spec ShardEdge.tla (design of fuse/MWHC graphs + scaled transcriptions of edge_1/edge_2/"
                  "edge_2_big/mwhc::edge and all six ShardEdge implementations + wide-number contract on events): "
                  "exhaustive TLC on small geometries, TLC-exported set-ups replayed, TLC trace validation",
        text="TLC proves on every small geometry (<=4 shards, l<=4(5), segment size 2^s, s<=2(3), 4(8)-bit signature "
             "words) that the transcribed edge computations of all six logics produce, for every signature, three "
             "pairwise distinct vertices inside the array and inside the shard slice that equal the shifted local "
             "edge, with sort keys in range; on the real code TLC validates for 198 (2406) exported set-ups and a sweep "
             "of key counts (every 16th n in 0..2000, 2^k+-1 to 2^39, 10^k+-1 to 10^12, all regime boundaries +-2, "
             "largest-shard recipes avg/mid/max) x eps x all implementations x ~200 signatures (all-zero, all-ones, "
             "each word/limb saturated, single bits, random) the contract of the property with wide arithmetic in "
             "TLA+: distinct, in range, in slice, edge = local_edge(local_sig)+shard*num_vertices, shard = high bits "
             "(= Sig::high_bits), sort_key < num_sort_keys; also after reload (full/eps/mmap). 'Same at build and query "
             "time' is also decided end to end by the vbuild family: sharded functions and filters of every sharding "
             "logic, and hints on the other side of a sharding threshold, answered through the aligned and the "
             "unaligned getters (Trace_VBuild, hook events for shard bits); the store side of 'the shard index equals "
             "the high bits used by the signature store' by the sigstore family (every bucket/shard bit triple, in "
             "memory and on disk, skewed high bits).",
        note=TRUST + "The floating-point parameter formulas are not modelled (parameters are read from the log and "
             "only the contract is checked); n <= 10^12; geometry for design membership is parsed from Display.",
        design_ref="5/C16"),
    "C19": dict(
        technique="TLA+ specs Mod2.tla (satisfiability per bit plane, solvability by set-based elimination and by brute "
                  "force, checked equal) and Mod2Design.tla (transcription of add_ptr, echelon form, lazy elimination "
                  "with weights/priorities/dense remainder/pivot back-substitution): exhaustive TLC + all small systems "
                  "exported and solved by the real solvers + TLC trace validation",
        text="TLC checks for every system of <=3 variables and <=3 equations (4x4 in thorough: 880k states) with 1-bit "
             "constants, and 2-variable systems over two bit planes, that the transcribed Gauss and lazy designs never "
             "panic, return Ok exactly when the system is solvable and that their assignment satisfies it; all those "
             "systems are exported and run through gaussian_elimination and lazy_gaussian_elimination (both "
             "constructors) and check(), and TLC decides each recorded result (Ok(s) must satisfy every equation in "
             "every plane, Err only if unsolvable, never a panic); random systems up to 40 variables / 60 equations "
             "over u8..u128 with dependent, repeated, contradictory (single-plane) rows, unused variables, planted "
             "solutions, fuse-layout and 3-uniform systems with a surviving 2-core exercise the lazy-to-dense hand-over.",
        note=TRUST + "Solvability of large random systems is decided in TLA+ by elimination (brute force only <= 10 "
             "variables). The systems lge_shard actually builds are imitated by the generators, not recorded.",
        design_ref="5/C19"),
    "C17": dict(
        technique="TLA+ spec VBuild.tla: fault placements, failing rewinds and duplicate classes are actions of the "
                  "model (ErrorsSurface, DupBound, OkIsWhole, Termination checked by TLC); every scenario is exported "
                  "and replayed with fault-injecting lenders; results and hook events are trace-validated",
        text="TLC enumerates every (source, pass, index) fault, every failing rewind and duplicate/no-duplicate key set "
             "for n<=3(6) with up to 4 passes and exports each scenario; the executor wraps the key and value lenders so "
             "that they fail exactly there, and TLC judges that the injected error is the returned result, that "
             "duplicates with check_dups give DuplicateKey after at most 4 attempts, that Ok is returned only for a "
             "function that maps every supplied key (all gets checked), and that every call terminates (hang is "
             "rejected); generated batches add faults at every position for n<=12, every multiset over 3 keys of size "
             "<=5, one duplicate inside 10^4 keys, functions and filters, online and offline; faults on the retry pass "
             "of builds whose first attempt ends in MaxShardTooBig, error kinds that readers retry on (Interrupted, "
             "WouldBlock), value sources of exactly n values, heavy duplicates (bounded retries: TransientCap), and "
             "sux's own line lenders over sources whose seek fails (lender family).",
        note=TRUST + "Needs hooks (--cfg sux_verif).",
        design_ref="5/C07 C17 C08"),
    "C18": dict(
        technique="TLA+ spec SigStore.tla (contract + design transcription of push/bucket counting, size aggregation and "
                  "the equal/aggregate/split iterator branches, online and file-backed with chunked reads): exhaustive "
                  "TLC over all small stores, TLC-exported scripts replayed on SigStore/ShardStore, TLC trace validation",
        text="TLC enumerates every multiset of up to 2-4 pushes with 3-bit tops x bucket bits 0..2 x max shard bits 0..3 "
             "x every requested shard bits (incl. max+1: panic) x online/offline x two borrowed passes then the "
             "consuming pass, with iterators dropped at any point, and checks in every state that the design returns "
             "exactly the pushed multiset, every pair in the shard of its top bits, 2^s shards, shard_sizes = actual "
             "sizes, no out-of-bounds access; all those histories are exported and executed on the real stores "
             "([u64;1]/[u64;2], u8/u64/EmptyVal values) and each recorded call is judged by TLC; generated stores of "
             "0..5000 pairs with skewed distributions and every (bucket,max,requested) triple from {0,1,2,4,8,9} cross "
             "the 1024-record read buffer of the file-backed store.",
        note=TRUST + "Agreement of repeated iterations is checked as equal multisets per shard (order inside a shard is "
             "not part of the property). The spec computes every shard number itself from the logged signature limbs.",
        design_ref="5/C18"),
}

PENDING = "not claimed"
ALL = ["C%02d" % i for i in range(1, 21)]


def main():
    checks = []
    for pid in ALL:
        if pid not in CHECKS:
            continue
        c = CHECKS[pid]
        checks.append({
            "property_id": pid,
            "quick_cmd": "./check %s --tier quick" % pid,
            "thorough_cmd": "./check %s --tier thorough" % pid,
            "evidence_file": "evidence/%s.json" % pid,
            "replay_cmd_template": "./check %s --replay {path}" % pid,
            "engine": "tlc",
            "level_claimed": {"category": "model_checking", "text": c["text"], "design_ref": c["design_ref"]},
            "level_note": c["note"],
            "technique": c["technique"],
        })
    m = {
        "version": 1,
        "setup_cmd": "./setup.sh",
        "hooks": {
            "guard": "sux_verif",
            "enable": "RUSTFLAGS --cfg sux_verif (set in harness/.cargo/config.toml; the harness has a path dependency on /repo)",
            "baseline_off_cmd": "cd /repo && cargo test --workspace --no-fail-fast --offline",
            "source_commits": ["3928906"],
            "add_only": True,
        },
        "engines": [{"name": "tlc", "path": "spec/", "serves_properties": [c["property_id"] for c in checks],
                     "kind_free_text": "explicit TLA+ specifications checked with TLC: bounded design models, "
                                       "behaviour export replayed on the code, trace validation of recorded executions"}],
        "checks": checks,
        "not_applicable": [{"property_id": p, "reason": PENDING} for p in ALL if p not in CHECKS],
        "notes": "All judgements are made by TLC on spec/*.tla. ./check <id> --tier quick|thorough; exit 2 = tool error.",
    }
    with open(os.path.join(os.path.dirname(os.path.abspath(__file__)), "..", "MANIFEST.json"), "w") as f:
        json.dump(m, f, indent=1)
        f.write("\n")


if __name__ == "__main__":
    main()
