#!/usr/bin/env python3
"""Regenerates /verif/MANIFEST.json from the table below (single source)."""
import json
import os
import sys

sys.path.insert(0, os.path.dirname(os.path.abspath(__file__)))

TRUST = ("Trusted base: TLC 1.8.0 and the TLA+ modules under spec/; the Rust executor (harness/) only records "
         "calls and results; Python only generates inputs and moves files. ")

CHECKS = {
    "C06": dict(
        technique="TLA+ spec BitVec.tla: exhaustive TLC on the W=4 design model + TLC-exported W=64 histories "
                  "replayed on the real code + TLC trace validation of every execution",
        text="TLC explores every reachable (contents, backend, form) state of a 4-bit-word model of BitVec with all "
             "operations/arguments and checks refinement of Vec<bool>, the word-level reader designs and clean panics; "
             "every history of mutators over boundary menus (W=64) is exported by TLC, executed on the real BitVec/"
             "AtomicBitVec and each recorded call (result, length, whole backend) is accepted or rejected by TLC "
             "against the same specification; long random histories are validated the same way.",
        note=TRUST + "Exhaustive only inside the stated menus/bounds; W=64 only; lengths < 2^31.",
        design_ref="5/C06"),
}

PENDING = "check under construction in this session (specification not yet bound to the code)"
ALL = ["C%02d" % i for i in range(1, 21)]


def main():
    checks = []
    for pid in ALL:
        if pid not in CHECKS:
            continue
        c = CHECKS[pid]
        checks.append({
            "property_id": pid,
            "quick_cmd": "./check %s --tier quick" % pid,
            "thorough_cmd": "./check %s --tier thorough" % pid,
            "evidence_file": "evidence/%s.json" % pid,
            "replay_cmd_template": "./check %s --replay {path}" % pid,
            "engine": "tlc",
            "level_claimed": {"category": "model_checking", "text": c["text"], "design_ref": c["design_ref"]},
            "level_note": c["note"],
            "technique": c["technique"],
        })
    m = {
        "version": 1,
        "setup_cmd": "./setup.sh",
        "hooks": {
            "guard": "sux_verif",
            "enable": "RUSTFLAGS --cfg sux_verif (set in harness/.cargo/config.toml; the harness has a path dependency on /repo)",
            "baseline_off_cmd": "cd /repo && cargo test --workspace --no-fail-fast --offline",
            "source_commits": [],
            "add_only": True,
        },
        "engines": [{"name": "tlc", "path": "spec/", "serves_properties": [c["property_id"] for c in checks],
                     "kind_free_text": "explicit TLA+ specifications checked with TLC: bounded design models, "
                                       "behaviour export replayed on the code, trace validation of recorded executions"}],
        "checks": checks,
        "not_applicable": [{"property_id": p, "reason": PENDING} for p in ALL if p not in CHECKS],
        "notes": "All judgements are made by TLC on spec/*.tla. ./check <id> --tier quick|thorough; exit 2 = tool error.",
    }
    with open(os.path.join(os.path.dirname(os.path.abspath(__file__)), "..", "MANIFEST.json"), "w") as f:
        json.dump(m, f, indent=1)
        f.write("\n")


if __name__ == "__main__":
    main()
