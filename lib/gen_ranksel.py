"""Scripts for the "ranksel" family (inputs only: vectors, stacks of structures,
query arguments; no expected result is computed here -- Trace_RankSel decides).

A vector is given by its length and its maximal runs of ones (s, e) with the
running count c (a witness that the specification verifies before using it).
Counting the ones of a vector that this module itself generated is needed to
stay inside the documented preconditions of the *_unchecked / hinted calls.
"""
import bisect
import random

HUGE_ARGS = [-1, -2, -3]          # usize::MAX, 2^63, 2^32 (see fam_ranksel.rs)


# --------------------------------------------------------------------------
# vectors
# --------------------------------------------------------------------------
def mkvec(n, runs):
    """runs: iterable of (s, e) half-open, in increasing order; merged, clipped to n"""
    s, e = [], []
    for a, b in runs:
        a, b = max(0, a), min(n, b)
        if a >= b:
            continue
        if e and a <= e[-1]:
            e[-1] = max(e[-1], b)
        else:
            s.append(a)
            e.append(b)
    c = [0]
    for a, b in zip(s, e):
        c.append(c[-1] + b - a)
    return {"len": n, "s": s, "e": e, "c": c}


def from_lengths(first, lengths):
    runs, p, bit = [], 0, first
    for ln in lengths:
        if bit:
            runs.append((p, p + ln))
        p += ln
        bit = not bit
    return mkvec(p, runs)


def from_positions(n, pos):
    return mkvec(n, [(p, p + 1) for p in sorted(set(pos)) if p < n])


def random_density(r, n, d):
    if d <= 0.0:
        return mkvec(n, [])
    if d >= 1.0:
        return mkvec(n, [(0, n)])
    if d < 0.05:
        k = max(0, int(r.gauss(n * d, (n * d * (1 - d)) ** 0.5) + 0.5))
        return from_positions(n, r.sample(range(n), min(n, k)) if n else [])
    if d > 0.95:
        k = max(0, int(r.gauss(n * (1 - d), (n * d * (1 - d)) ** 0.5) + 0.5))
        z = sorted(set(r.sample(range(n), min(n, k)))) if n else []
        runs, p = [], 0
        for q in z:
            runs.append((p, q))
            p = q + 1
        runs.append((p, n))
        return mkvec(n, runs)
    runs, start = [], None
    for i in range(n):
        if r.random() < d:
            if start is None:
                start = i
        elif start is not None:
            runs.append((start, i))
            start = None
    if start is not None:
        runs.append((start, n))
    return mkvec(n, runs)


def concat(vs):
    runs, off = [], 0
    for v in vs:
        runs += [(a + off, b + off) for a, b in zip(v["s"], v["e"])]
        off += v["len"]
    return mkvec(off, runs)


def ones_of(v):
    return v["c"][-1]


def nth_one(v, r):
    k = bisect.bisect_right(v["c"], r) - 1
    return v["s"][k] + r - v["c"][k]


# --------------------------------------------------------------------------
# tails: how the real BitVec comes to have this content (stale bits, garbage)
# --------------------------------------------------------------------------
def tails(r):
    g = lambda: r.choice(["ones", "ones", "alt", "rnd"])
    return [
        {"t": "clean"},
        {"t": "pop", "k": r.choice([1, 5, 63, 64, 65, 130]), "g": g(), "seed": r.randrange(1 << 30)},
        {"t": "trunc", "k": r.choice([1, 7, 64, 100, 513]), "g": g(), "seed": r.randrange(1 << 30)},
        {"t": "raw", "g": g(), "seed": r.randrange(1 << 30)},
        {"t": "extra", "k": r.choice([1, 2, 3, 5]), "g": g(), "seed": r.randrange(1 << 30)},
        {"t": r.choice(["regrow", "regrow_push"]), "k": r.choice([1, 5, 63, 64, 65, 130, 200]), "g": g(),
         "seed": r.randrange(1 << 30)},
    ]


def vec_op(v, tail):
    op = {"op": "vec", "len": v["len"], "s": v["s"], "e": v["e"], "c": v["c"], "tail": tail}
    return op


# --------------------------------------------------------------------------
# stacks (must match the compiled menu of harness/src/fam_ranksel.rs)
# --------------------------------------------------------------------------
ANB = {"l": "anb", "t": "anb"}
R9 = {"l": "r9", "t": "r9"}
S9 = {"l": "s9", "t": "s9"}


def RS(k):
    return {"l": "rs%d" % k, "t": "rs", "k": k}


def adapt_params(r):
    m = r.choice(["new", "span", "inv", "inv"])
    if m == "new":
        return {"m": "new", "b": r.choice([0, 1, 2, 3, 3, 4, 16])}
    if m == "span":
        return {"m": "span", "a": r.choice([1, 64, 512, 8192, 65536, 1 << 20]), "b": r.choice([0, 1, 3, 4, 16])}
    return {"m": "inv", "a": r.choice([0, 1, 2, 3, 4, 5, 8, 10, 12, 13, 16]), "b": r.choice([0, 1, 2, 3, 4, 16])}


def SA(r):
    return dict({"l": "sa", "t": "sa"}, **adapt_params(r))


def SZA(r):
    return dict({"l": "sza", "t": "sza"}, **adapt_params(r))


def SAC(L, M):
    return {"l": "sac%d_%d" % (L, M), "t": "sac", "L": L, "M": M}


def SZAC(L, M):
    return {"l": "szac%d_%d" % (L, M), "t": "szac", "L": L, "M": M}


def small_params(r):
    # (0 blocks per inventory: one inventory entry per one / zero, more entries than backend words on dense vectors)
    return r.choice([{"m": "new"}, {"m": "inv", "a": 1}, {"m": "inv", "a": 2}, {"m": "inv", "a": 8},
                     {"m": "inv", "a": 32}, {"m": "inv", "a": 0}])


def SS(k, r):
    return dict({"l": "ss%d" % k, "t": "ss", "k": k}, **small_params(r))


def SZS(k, r):
    return dict({"l": "szs%d" % k, "t": "szs", "k": k}, **small_params(r))


def MAP(*ins):
    return {"l": "map:" + "+".join(x["l"] for x in ins), "t": "map", "ins": list(ins)}


SAC_MENU = [(12, 3), (13, 0), (10, 4), (8, 1), (6, 2), (3, 0), (1, 1), (0, 0)]
SZAC_MENU = [(12, 3), (13, 0), (8, 1), (6, 2), (3, 0), (0, 0)]


def stack_menu(r):
    """every stack of the compiled menu, with freshly drawn run-time parameters"""
    m = [
        [], [ANB], [R9], [RS(0)], [RS(1)], [RS(2)], [RS(3)], [RS(4)],
        [ANB, R9], [ANB, RS(2)], [R9, ANB], [RS(1), ANB],
        [SA(r)], [SZA(r)], [ANB, SA(r)], [ANB, SZA(r)], [ANB, SA(r), SZA(r)], [ANB, SZA(r), SA(r)],
        [R9, SA(r)], [R9, SZA(r)], [R9, SA(r), SZA(r)], [R9, SZA(r), SA(r)],
        [R9, S9], [R9, S9, SZA(r)], [R9, S9, SZAC(12, 3)], [ANB, R9, S9],
        [RS(0), SA(r)], [RS(1), SA(r), SZA(r)], [RS(2), SZA(r)], [RS(3), SA(r)], [RS(4), SZA(r), SA(r)],
        [ANB, SA(r), R9], [ANB, SA(r), SZA(r), RS(3)], [ANB, SZA(r), RS(0)], [ANB, SA(r), R9, S9],
        [ANB, R9, SA(r)], [ANB, SA(r), MAP(R9)], [ANB, SZA(r), MAP(RS(1))], [R9, MAP(ANB, SA(r))],
        [ANB, SAC(8, 1), MAP(R9)], [ANB, SZAC(6, 2), MAP(RS(2))], [ANB, R9, SAC(8, 1)], [ANB, RS(2), SZAC(6, 2)],
        [R9, SAC(12, 3), SZAC(12, 3)], [R9, SZAC(8, 1), SAC(8, 1)],
        [ANB, RS(1), SS(1, r)], [RS(2), SS(2, r), SZA(r)],
    ]
    m += [[ANB, SAC(a, b)] for a, b in SAC_MENU]
    m += [[ANB, SZAC(a, b)] for a, b in SZAC_MENU]
    for k in range(5):
        m += [[RS(k), SS(k, r)], [RS(k), SZS(k, r)], [RS(k), SS(k, r), SZS(k, r)], [RS(k), SZS(k, r), SS(k, r)]]
    return m


def layer_types(stack):
    ts = set()
    for x in stack:
        if x["t"] == "map":
            ts |= {y["t"] + str(y.get("k", "")) for y in x["ins"]} | {"map"}
        else:
            ts.add(x["t"] + str(x.get("k", "")))
    return ts


def pick_stacks(r, count, want=None):
    """`count` stacks of the menu; `want(stack)` restricts the choice"""
    menu = [s for s in stack_menu(r) if want is None or want(s)]
    r.shuffle(menu)
    return menu[:count]


def has_rank(stack):
    return any(t.startswith(("r9", "rs")) for t in layer_types(stack))


def has_select(stack):
    return any(t.startswith(("s9", "sa", "sza", "sac", "szac", "ss", "szs")) for t in layer_types(stack))


# --------------------------------------------------------------------------
# query arguments
# --------------------------------------------------------------------------
def uniq(xs):
    out, seen = [], set()
    for x in xs:
        if x not in seen:
            seen.add(x)
            out.append(x)
    return out


def positions(v, r, every_limit=300, sample=48):
    n = v["len"]
    if n <= every_limit:
        return list(range(0, n + 3)) + [n + 64, -1]
    ps = [0, 1, n - 1, n, n + 1, n + 64, -1, -2, -3]
    b = []
    for a, z in zip(v["s"], v["e"]):
        b += [a - 1, a, a + 1, z - 1, z, z + 1]
    if len(b) > 4 * sample:
        b = r.sample(b, 4 * sample)
    ps += b
    for blk in (64, 512, 1024, 2048, 8192):
        k = r.randrange(0, n // blk + 1)
        ps += [k * blk - 1, k * blk, k * blk + 1, (n // blk) * blk - 1, (n // blk) * blk]
    ps += [r.randrange(n) for _ in range(sample)]
    return uniq([p for p in ps if p >= 0 or p in HUGE_ARGS])


def ranks(v, r, zero, every_limit=300, sample=48):
    n = v["len"]
    m = ones_of(v)
    cnt = n - m if zero else m
    if n <= every_limit:
        return list(range(0, cnt + 2)) + [-1]
    rs = [0, 1, cnt - 2, cnt - 1, cnt, cnt + 1, -1, -2, -3]
    # ranks at run boundaries
    b = []
    for k in range(len(v["s"])):
        x = (v["s"][k] - v["c"][k]) if zero else v["c"][k]
        b += [x - 1, x, x + 1]
    if len(b) > 3 * sample:
        b = r.sample(b, 3 * sample)
    rs += b
    # ranks around the inventory quanta
    for lg in (0, 1, 2, 3, 4, 5, 6, 8, 9, 10, 12, 13, 16):
        q = 1 << lg
        k = r.randrange(0, cnt // q + 1)
        rs += [k * q - 1, k * q, k * q + 1, (cnt // q) * q - 1, (cnt // q) * q]
    rs += [r.randrange(cnt) for _ in range(sample)] if cnt else []
    return uniq([x for x in rs if x >= 0 or x in HUGE_ARGS])


def rank_ops(v, r, small_limit=300):
    n = v["len"]
    ps = positions(v, r, small_limit)
    inr = [p for p in ps if 0 <= p < n]
    ops = [{"op": "len"}, {"op": "num_ones"}, {"op": "num_zeros"}, {"op": "count_ones"}, {"op": "count_zeros"},
           {"op": "rank", "ps": ps}, {"op": "rank_zero", "ps": ps}]
    if inr:
        ops += [{"op": "rank_u", "ps": inr}, {"op": "rank_zero_u", "ps": inr}, {"op": "index", "ps": inr}]
        hp = inr if len(inr) <= 40 else r.sample(inr, 40)
        ops.append({"op": "rank_hinted", "ps": hp, "hs": [r.randrange(0, p // 64 + 1) if r.random() < 0.7 else p // 64
                                                         for p in hp]})
    ops.append({"op": "index", "ps": [r.choice([n, n + 1, n + 64, -1])]})
    return ops


def select_ops(v, r, small_limit=300):
    n = v["len"]
    m = ones_of(v)
    z = n - m
    ops = [{"op": "len"}, {"op": "num_ones"}, {"op": "num_zeros"}]
    rs = ranks(v, r, False, small_limit)
    zs = ranks(v, r, True, small_limit)
    ops += [{"op": "select", "rs": rs}, {"op": "select_zero", "rs": zs}]
    inr = [x for x in rs if 0 <= x < m]
    inz = [x for x in zs if 0 <= x < z]
    if inr:
        ops.append({"op": "select_u", "rs": inr})
        h = inr if len(inr) <= 40 else r.sample(inr, 40)
        ops.append({"op": "select_hinted", "rs": h,
                    "hrs": [max(0, x - r.choice([0, 1, 5, 70])) if r.random() < 0.8 else r.randrange(0, x + 1)
                            for x in h]})
    if inz:
        ops.append({"op": "select_zero_u", "rs": inz})
        h = inz if len(inz) <= 40 else r.sample(inz, 40)
        ops.append({"op": "select_zero_hinted", "rs": h,
                    "hrs": [max(0, x - r.choice([0, 1, 5, 70])) if r.random() < 0.8 else r.randrange(0, x + 1)
                            for x in h]})
    return ops


def battery(v, r, what, small_limit=300):
    ops = []
    if "rank" in what:
        ops += rank_ops(v, r, small_limit)
    if "select" in what:
        ops += select_ops(v, r, small_limit)
    if "mem" in what:
        ops.append({"op": "mem_size"})
    return ops


def episode(v, tail, stacks, r, what, src="recipe", reload=None, small_limit=300, budget_ms=None):
    ops = [vec_op(v, tail)]
    for st in stacks:
        ops.append({"op": "build", "kind": st})
        if reload:
            ops.append({"op": "reload", "mode": reload})
        ops += battery(v, r, what, small_limit)
    ep = {"fam": "ranksel", "src": src, "ops": ops}
    if budget_ms:
        ep["budget_ms"] = budget_ms
    return ep


# --------------------------------------------------------------------------
# vector families
# --------------------------------------------------------------------------
BOUND_LENS = [0, 1, 2, 63, 64, 65, 127, 128, 129, 255, 256, 257, 511, 512, 513, 1023, 1024, 1025, 2047, 2048, 2049,
              4095, 4096, 4097, 8191, 8192, 8193]


def small_vectors(r, count):
    """short vectors of every kind of content, lengths around the word / block sizes"""
    out = []
    for _ in range(count):
        n = r.choice(BOUND_LENS[:12]) if r.random() < 0.6 else r.randrange(0, 300)
        d = r.choice([0.0, 0.03, 0.1, 0.5, 0.9, 0.97, 1.0])
        out.append(random_density(r, n, d))
    return out


def block_vectors(r, count):
    """lengths at the block sizes of every variant (+-1), saturated and empty blocks"""
    out = []
    for _ in range(count):
        n = r.choice(BOUND_LENS[9:]) + r.choice([0, 0, 0, 64, 512])
        k = r.randrange(6)
        if k == 0:
            out.append(mkvec(n, [(0, n)]))
        elif k == 1:
            out.append(mkvec(n, []))
        elif k == 2:
            out.append(random_density(r, n, r.choice([0.001, 0.01, 0.1, 0.5, 0.9, 0.999])))
        elif k == 3:   # full blocks and empty blocks alternating
            b = r.choice([64, 128, 256, 512, 1024, 2048])
            out.append(mkvec(n, [(i, i + b) for i in range(r.choice([0, b]), n, 2 * b)]))
        elif k == 4:   # a single one / a single zero at a boundary
            p = r.choice([0, n - 1, n // 2, 63, 64, 511, 512]) if n else 0
            out.append(from_positions(n, [p]) if r.random() < 0.5 else mkvec(n, [(0, p), (p + 1, n)]))
        else:
            h = n // 2
            out.append(concat([random_density(r, h, r.choice([0.01, 0.9])), random_density(r, n - h, r.choice([0.5, 0.001]))]))
    return out


def density_vectors(r, sizes):
    out = []
    for n in sizes:
        for d in (0.001, 0.01, 0.1, 0.5, 0.9, 0.999):
            out.append(random_density(r, n + r.choice([0, 1, 37, 63]), d))
    return out


def quantum_vectors(r, count):
    """number of ones (zeros) an exact multiple of an inventory quantum, +-1, with a ragged tail"""
    out = []
    for _ in range(count):
        q = 1 << r.choice([0, 1, 2, 3, 4, 6, 8, 9, 10, 12, 13])
        k = r.choice([1, 2, 3, 5])
        m = max(0, k * q + r.choice([-1, 0, 0, 1]))
        d = r.choice([0.02, 0.2, 0.5, 0.8, 1.0])
        n = int(m / d) + r.choice([0, 1, 17, 64, 200])
        if m > 40000:
            continue
        pos = sorted(r.sample(range(n), m)) if m <= n else list(range(n))
        v = from_positions(n, pos)
        if r.random() < 0.5:   # the same for zeros
            runs, p = [], 0
            for x in pos:
                runs.append((p, x))
                p = x + 1
            runs.append((p, n))
            v = mkvec(n, runs)
        out.append(v)
    return out


def threshold_vectors(r, count):
    """gaps exactly at the span-class threshold of the adaptive inventories (2^16 +- a few bits):
    with 2^a ones per inventory entry, every group of 2^a ones begins some ones near its start and
    ends with consecutive ones at offsets D-3, D-2, D-1 from its first one, and the next group begins
    at offset D (or later), for D in 65535 .. 65540: the span of the entry is D (or more), the largest
    stored offset is D - 1. The vector remembers a ("_a") so that structures with that quantum are built."""
    out = []
    for _ in range(count):
        a = r.choice([1, 1, 2, 3])
        g = 1 << a
        pos, p = [], r.choice([0, 5, 63, 64])
        for _ in range(r.choice([2, 3, 4])):
            d = r.choice([65535, 65536, 65537, 65537, 65538, 65539, 65540])
            tail = min(g - 1, 3)
            head = g - tail
            grp = [0] + sorted(r.sample(range(1, 400), head - 1)) + [d - 1 - k for k in range(tail - 1, -1, -1)]
            pos += [p + x for x in grp]
            p += d + r.choice([0, 0, 1, 700])
        n = pos[-1] + 1 + r.choice([0, 1, 63, 1000, 65536, 65537])
        v = from_positions(n, pos)
        if r.random() < 0.4:   # complement: the same gaps for the zero selectors
            runs, q = [], 0
            for x in pos:
                runs.append((q, x))
                q = x + 1
            runs.append((q, n))
            v = mkvec(n, runs)
            v["_zero"] = True
        v["_a"] = a
        out.append(v)
    return out


def spread(off, bits, n):
    """n ones evenly spaced over bits bits starting at off"""
    if n <= 0:
        return []
    d = max(1, bits // n)
    return [(off + j * d, off + j * d + 1) for j in range(n)]


def select9_vectors(r, count):
    """Select9 span classes: a prefix of zeros (so that spans do not start in the first four words),
    segments holding exactly 512 ones over 512 ... 140000 bits (one per span class), a partial last
    segment, word counts in every residue modulo four; plus a few short / dense ones"""
    out = []
    for i in range(count):
        if i % 4 == 3:
            words = r.choice([1, 2, 3, 5, 6, 7, 9, 30, 61, 127])
            n = words * 64 - r.choice([0, 0, 1, 17, 63])
            out.append(random_density(r, n, r.choice([0.01, 0.13, 0.5, 0.9, 1.0])))
            continue
        p = r.choice([0, 256, 1024, 70, 1000, 5000])
        runs, off = [], p
        for _ in range(r.choice([0, 1, 1, 2])):
            if r.random() < 0.6:   # spans of exactly S subinventory words (256 bits each) when p is aligned
                bits = 256 * r.choice([2, 3, 15, 16, 17, 127, 128, 129, 255, 256, 257, 511, 512, 513])
            else:
                bits = r.choice([512, 700, 1100, 4100, 16500, 33000, 40000, 66000, 100000, 131072, 140000])
            runs += spread(off, bits, 512)
            off += bits
        bits, ones = r.choice([(1, 0), (1, 1), (200, 3), (70000, 3), (140000, 1), (5000, 511), (140000, 511),
                               (700, 100), (300000, 2), (64, 64)])
        runs += spread(off, bits, ones)
        off += bits + r.choice([0, 64, 128, 192, 7])
        out.append(mkvec(off, runs))
    return out


def sparse_vectors(r, count):
    """>= 70000 bits with a handful of ones (zeros)"""
    out = []
    for _ in range(count):
        n = r.choice([70000, 70001, 100000, 131072, 131073, 200000, 262144 + 65])
        k = r.choice([0, 1, 2, 3, 4, 9, 33])
        pos = sorted(r.sample(range(n), k))
        if r.random() < 0.3 and k:
            pos[0] = 0
            pos[-1] = n - 1
        v = from_positions(n, pos)
        if r.random() < 0.3:
            runs, q = [], 0
            for x in sorted(set(pos)):
                runs.append((q, x))
                q = x + 1
            runs.append((q, n))
            v = mkvec(n, runs)
        out.append(v)
    return out


def probe_vectors():
    """the inputs of the defects found by probes before any check existed"""
    return [
        (mkvec(5, [(0, 5)]), {"t": "pop", "k": 5, "g": "ones"}),
        (from_positions(70000, [5, 40000, 69999]), {"t": "clean"}),
        (mkvec(10, []), {"t": "clean"}),
        (mkvec(0, []), {"t": "clean"}),
        (mkvec(0, []), {"t": "extra", "k": 2, "g": "ones"}),
        (mkvec(0, []), {"t": "pop", "k": 3, "g": "ones"}),
    ]


def inv(t, a, b):
    return {"l": t, "t": t, "m": "inv", "a": a, "b": b}


def must_for(kind, r, v=None):
    v = v or {}
    """stacks that a vector family is aimed at (always built, whatever the rotation hands out)"""
    if kind == "select9":
        return [r.choice([[R9, S9], [R9, S9], [ANB, R9, S9], [R9, S9, SZA(r)], [ANB, SA(r), R9, S9]])]
    if kind == "threshold":
        a = v.get("_a", 1)
        b = r.choice([max(0, a - 2), max(0, a - 2) + 1, 3])     # every one of an entry is sampled
        zero = v.get("_zero", False)
        sel = "sza" if zero else "sa"
        const = {1: (1, 1), 3: (3, 0)}.get(a)
        if const and const not in (SZAC_MENU if zero else SAC_MENU):
            const = None
        out = [r.choice([[ANB, inv(sel, a, b)], [R9, inv(sel, a, b)]])]
        if const:
            out.append([ANB, (SZAC if zero else SAC)(*const)])
        else:
            out.append([ANB, inv(sel, a, r.choice([0, 1, 2, 3, 16]))])
        return out
    if kind == "quantum":
        a = r.choice([0, 1, 2, 3, 4, 6, 8, 9, 10, 12, 13])
        return [r.choice([[ANB, inv("sa", a, r.choice([0, 1, 3]))], [ANB, inv("sza", a, r.choice([0, 1, 3]))],
                          [ANB, SAC(*r.choice(SAC_MENU))], [ANB, SZAC(*r.choice(SZAC_MENU))], [R9, S9]])]
    if kind == "sparse":
        k = r.randrange(5)
        return [[R9, S9], r.choice([[ANB, SA(r)], [ANB, SZA(r)]]),
                r.choice([[RS(k), SS(k, r)], [RS(k), SZS(k, r)], [RS(k), SS(k, r), SZS(k, r)]])]
    return []


def all_vectors(r, scale):
    """(vector, stack count, family) triples making up one property run; scale = 1 for quick"""
    vs = []
    vs += [(v, 6, "small") for v in small_vectors(r, 60 * scale)]
    vs += [(v, 5, "block") for v in block_vectors(r, 40 * scale)]
    vs += [(v, 4, "density") for v in density_vectors(r, [4096, 20000] if scale == 1 else [4096, 20000, 100000, 300000])]
    vs += [(v, 4, "quantum") for v in quantum_vectors(r, 24 * scale)]
    vs += [(v, 3, "threshold") for v in threshold_vectors(r, 16 * scale)]
    vs += [(v, 3, "select9") for v in select9_vectors(r, 48 * scale)]
    vs += [(v, 2, "sparse") for v in sparse_vectors(r, 8 * scale)]
    return vs


class Rot:
    """hands out the stacks of the menu in rotation (fresh run-time parameters each round)"""

    def __init__(self, r, want=None):
        self.r, self.want, self.q = r, want, []

    def take(self, k):
        out = []
        while len(out) < k:
            if not self.q:
                self.q = [s for s in stack_menu(self.r) if self.want is None or self.want(s)]
                self.r.shuffle(self.q)
            out.append(self.q.pop())
        return out


def rotate_tails(r):
    while True:
        ts = tails(r)
        r.shuffle(ts)
        for t in ts:
            yield t


def s9_boundary_episodes(r, what):
    """Select9: inventory spans of exactly S subinventory words for S at every class boundary
    (classes 0..1, 2..15, 16..127, 128..255, 256..511, 512..), as first, middle and last entry,
    starting in the first four words or not; always queried through Select9"""
    eps = []

    def dense_tail_ranks(ep, v):
        """every rank in the last 70 of each inventory entry (512 ones) and every 7th rank: the last blocks of a span
        are where the padding of the 16-bit counters is read"""
        m = ones_of(v)
        rs = set(range(0, m, 7))
        for k in range(1, m // 512 + 2):
            rs.update(x for x in range(512 * k - 70, 512 * k + 2) if 0 <= x < m)
        ep["ops"].append({"op": "select", "rs": sorted(rs)[:6000]})
        return ep

    # regular vectors (one bit in 16 / 32 / 48, shifted): spans of 16, 32, 48 blocks, multiples of the eight
    # counters that are searched at a time
    for stride in (16, 32, 48):
        for shift in (0, 70, 200, 450):
            n = r.choice([3 * 8192 + shift + 160, 1 << 16])
            v = from_positions(n, list(range(shift, n, stride)))
            eps.append(dense_tail_ranks(episode(v, {"t": "clean"}, [[R9, S9]], r, what, src="s9span"), v))
    for S in (2, 15, 16, 17, 32, 48, 64, 96, 112, 127, 128, 129, 255, 256, 257, 511, 512, 513):
        for p in (0, 256 * r.choice([1, 3, 5])):
            for shape in ("first", "middle"):
                runs, off = [], p
                if shape == "middle":
                    runs += spread(off, 512, 512)
                    off += 512
                runs += spread(off, 256 * S, 512)
                off += 256 * S
                k = r.choice([1, 7, 300, 512])
                runs += spread(off, r.choice([k, 256 * S, 3000]), k)     # the last (partial or full) entry
                n = runs[-1][1] + r.choice([0, 1, 64, 130, 200])
                v = mkvec(n, runs)
                st = [r.choice([[R9, S9], [R9, S9], [ANB, R9, S9], [R9, S9, SZAC(12, 3)]])]
                eps.append(dense_tail_ranks(episode(v, {"t": "clean"} if r.random() < 0.6 else r.choice(tails(r)), st, r,
                                                    what, src="s9span"), v))
        # the same span (the 256-bit groups of two consecutive inventory entries differ by exactly S) reached with
        # entries that do not start their group: the first one sits at offset d of its group, the next entry's
        # first one at offset e of group +S, and the entry's last one right before it, so that offsets inside the
        # entry range up to 256 S + e - d - 1 (beyond 2^16 for S = 256)
        for (d, e) in ((1, 255), (100, 200), (244, 250), (255, 0)):
            g0 = 256 * r.choice([0, 1, 4])
            first = g0 + d
            nxt = g0 + 256 * S + e
            if nxt - first < 512:
                continue
            inner = sorted(r.sample(range(first + 1, nxt - 1), 509)) if nxt - first - 2 >= 509 else []
            if len(inner) != 509:
                continue
            ones = [first] + inner + [nxt - 1, nxt]
            ones += [nxt + 1 + 3 * j for j in range(r.choice([5, 600]))]
            n = ones[-1] + r.choice([1, 64, 777])
            v = from_positions(n, ones)
            eps.append(episode(v, {"t": "clean"}, [[R9, S9]], r, what, src="s9span"))
    return eps


def main_episodes(seed, what, want, scale=1, src="recipe"):
    """C01 (what = rank) / C02 (what = select): every vector family x tails x stacks in rotation"""
    r = random.Random(seed)
    rot = Rot(r, want)
    tl = rotate_tails(r)
    eps = []
    for v, tail in probe_vectors():
        eps.append(episode(v, tail, rot.take(8), r, what, src="probe"))
    for v, k, fam in all_vectors(r, scale):
        eps.append(episode(v, next(tl), must_for(fam, r, v) + rot.take(k), r, what, src=src))
    if "select" in what:
        eps += s9_boundary_episodes(r, what)
    return eps


def c11_episodes(seed, scale=1):
    """mem_size of the structures with a documented bound, over tiny, boundary and large lengths"""
    r = random.Random(seed ^ 0x11)
    stacks = [[R9], [RS(0)], [RS(1)], [RS(2)], [RS(3)], [RS(4)], [R9, S9], [ANB, R9], [R9, ANB], [ANB, R9, S9],
              [ANB, RS(2)], [RS(1), ANB]]
    lens = list(range(0, 70)) + BOUND_LENS + [b * k + d for b in (512, 1024, 2048, 8192) for k in (1, 2, 3, 7)
                                              for d in (-1, 0, 1)]
    lens += [r.randrange(1, 1 << 16) for _ in range(30 * scale)] + [100000, 262143, 262144, 262145, 1 << 20, (1 << 20) + 1]
    if scale > 1:
        lens += [(1 << 24) + 5, (1 << 26) - 1]
    tl = rotate_tails(r)
    eps = []
    for n in sorted(set(lens)):
        d = r.choice([0.0, 0.01, 0.5, 1.0])
        v = random_density(r, n, d) if n <= 70000 else mkvec(n, [(0, n)] if d >= 0.5 else [(5, 6), (n // 2, n // 2 + 70)])
        tail = next(tl)
        if len(eps) % 4 == 1:
            # much more storage than the length needs (a vector that was far longer once, a caller-supplied
            # backend): a structure sized by the backend instead of the length shows here
            tail = r.choice([{"t": "extra", "k": r.choice([64, 1000, 20000]), "g": "rnd", "seed": r.randrange(1 << 30)},
                             {"t": "pop", "k": r.choice([5000, 100000]), "g": "ones", "seed": r.randrange(1 << 30)}])
        ops = [vec_op(v, tail)]
        for st in stacks:
            ops += [{"op": "build", "kind": st}, {"op": "mem_size"}, {"op": "num_ones"}]
        # structures without a documented bound still report at least the vector they wrap
        for st in Rot(r, has_select).take(2):
            ops += [{"op": "build", "kind": st}, {"op": "mem_size"}]
        eps.append({"fam": "ranksel", "src": "mem", "ops": ops})
    return eps


def c12_episodes(seed, scale=1):
    """out-of-domain arguments, one per call, on every stack over empty / minimal / dirty vectors"""
    r = random.Random(seed ^ 0x12)
    vecs = [mkvec(0, []), mkvec(1, []), mkvec(1, [(0, 1)]), mkvec(64, []), mkvec(64, [(0, 64)]),
            mkvec(65, [(0, 1), (64, 65)]), mkvec(512, [(0, 512)]), mkvec(513, []),
            random_density(r, 1000, 0.5), from_positions(70000, [0, 69999])]
    if scale > 1:
        vecs += small_vectors(r, 20) + block_vectors(r, 10)
    tl = rotate_tails(r)
    eps = []
    for v in vecs:
        n, m = v["len"], ones_of(v)
        z = n - m
        for rnd in range(2 if scale == 1 else 3):
            menu = stack_menu(r)
            r.shuffle(menu)
            for i in range(0, len(menu), 6):
                ops = [vec_op(v, next(tl))]
                for st in menu[i:i + 6]:
                    ops.append({"op": "build", "kind": st})
                    for p in [n, n + 1, n + 63, n + 64, -1, -2, -3]:
                        ops += [{"op": "rank", "ps": [p]}, {"op": "rank_zero", "ps": [p]}]
                    for x in [m, m + 1, m + 512, -1, -2]:
                        ops.append({"op": "select", "rs": [x]})
                    for x in [z, z + 1, z + 512, -1, -3]:
                        ops.append({"op": "select_zero", "rs": [x]})
                    for p in [n, n + 1, -1]:
                        ops.append({"op": "index", "ps": [p]})
                    ops += [{"op": "len"}, {"op": "num_ones"}, {"op": "count_zeros"}, {"op": "mem_size"}]
                    if n:
                        ops += [{"op": "rank", "ps": [0, n - 1]}, {"op": "select", "rs": [0]},
                                {"op": "select_zero", "rs": [0]}]
                eps.append({"fam": "ranksel", "src": "ood", "ops": ops})
    return eps


def c15_episodes(seed, scale=1):
    """every stack x every loading path, the whole battery on the loaded instance"""
    r = random.Random(seed ^ 0x15)
    vecs = [mkvec(0, []), random_density(r, 200, 0.5), random_density(r, 1025, 0.1), mkvec(640, [(0, 640)]),
            random_density(r, 9000, 0.7), from_positions(70000, [5, 40000, 69999]),
            concat([random_density(r, 3000, 0.9), mkvec(4000, []), random_density(r, 1500, 0.3)])]
    if scale > 1:
        vecs += [v for v, _, _ in all_vectors(r, 1)][::3]
    tl = rotate_tails(r)
    eps = []
    for v in vecs:
        for mode in ("full", "eps", "mmap", "eps8"):
            menu = stack_menu(r)
            r.shuffle(menu)
            for i in range(0, len(menu), 5):
                ops = [vec_op(v, next(tl))]
                for st in menu[i:i + 5]:
                    ops += [{"op": "build", "kind": st}, {"op": "reload", "mode": mode}]
                    ops += battery(v, r, {"rank", "select", "mem"}, small_limit=130)
                    ops.append({"op": "reload", "mode": r.choice(["full", "eps", "mmap", "eps8"])})
                    if mode == "full":     # a fully deserialized copy can be saved and loaded again
                        ops += battery(v, r, {"rank", "select"}, small_limit=40)
                eps.append({"fam": "ranksel", "src": "reload", "ops": ops})
    return eps
