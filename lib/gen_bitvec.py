"""Random / boundary-biased scripts for the "bitvec" family (inputs only: no
expected results are computed here; Trace_BitVec decides)."""
import random

W = 64
BOUND = [0, 1, 2, 62, 63, 64, 65, 66, 126, 127, 128, 129, 191, 192, 193, 255, 256, 257]


def rlen(r, cap=300):
    if r.random() < 0.6:
        return r.choice([b for b in BOUND if b <= cap])
    return r.randrange(0, cap)


def rbits(r, n):
    mode = r.randrange(4)
    if mode == 0:
        return [r.random() < 0.5 for _ in range(n)]
    if mode == 1:
        return [True] * n
    if mode == 2:
        return [False] * n
    return [(i % 2 == 0) for i in range(n)]


def rstore(r, nbits, dens=None):
    dens = r.choice([0.0, 0.1, 0.5, 0.9, 1.0]) if dens is None else dens
    return [p for p in range(nbits) if r.random() < dens]


def ctor(r):
    k = r.randrange(10)
    if k == 0:
        return {"op": "new", "n": rlen(r)}
    if k == 1:
        return {"op": "with_value", "n": rlen(r), "v": r.random() < 0.7}
    if k == 2:
        return {"op": "with_capacity", "c": rlen(r)}
    if k == 3:
        return {"op": "macro_rep", "n": rlen(r), "v": r.random() < 0.5, "num": r.random() < 0.5}
    if k == 4:
        return {"op": r.choice(["collect", "macro_list"]), "bits": rbits(r, max(1, rlen(r, 140)))}
    if k == 5:
        return {"op": "macro_empty"}
    # dirty raw storage: arbitrary bits everywhere, 0-2 spare words
    n = rlen(r)
    nw = (n + W - 1) // W + r.choice([0, 0, 1, 2])
    g = r.randrange(3)
    if g == 0:
        st = rstore(r, nw * W)
    elif g == 1:  # clean contents, everything beyond len set
        st = rstore(r, n) + list(range(n, nw * W))
    else:
        st = list(range(nw * W))
    return {"op": "raw", "rlen": n, "rnw": nw, "rstore": st}


def idx(r, n):
    c = [0, n - 1, n, n + 1, 63, 64, 65, n // 2, 2 ** 63, 2 ** 64 - 1]
    c = [x for x in c if x >= 0]
    if r.random() < 0.7 and n > 0:
        return r.choice([x for x in [0, n - 1, 63, 64, n // 2, r.randrange(n)] if 0 <= x < n] or [0])
    return r.choice(c)


def hinted(r, n):
    """hinted rank/select with arbitrary arguments: the executor calls the unsafe method only when its
    precondition holds (the specification re-derives that), otherwise the event is `na`"""
    k = r.randrange(3)
    if k == 0:
        pos = r.randrange(n) if n else 0
        return {"op": "rank_hinted", "pos": pos, "hp": r.choice([0, pos // 64, max(0, pos // 64 - 1), r.randrange(pos // 64 + 1)])}
    rr = r.randrange(n) if n and r.random() < 0.7 else r.choice([0, 1, n // 2])
    hp = r.choice([0, 0, 63, 64, r.randrange(n) if n else 0])
    return {"op": "select_hinted" if k == 1 else "select_zero_hinted", "r": rr, "hp": hp}


def episode(r, nops, src="rand", reload=True):
    ops = [ctor(r)]
    form = "vec"
    n = None  # tracked only loosely for argument choice (not an oracle)
    c = ops[0]
    n = c.get("n", c.get("rlen", len(c.get("bits", []))))
    if c["op"] in ("with_capacity", "macro_empty"):
        n = 0
    for _ in range(nops):
        if form in ("vec", "boxed"):
            k = r.random()
            if form == "vec" and k < 0.35:
                j = r.randrange(5)
                if j == 0:
                    ops.append({"op": "push", "b": r.random() < 0.5}); n += 1
                elif j == 1:
                    ops.append({"op": "pop"}); n = max(0, n - 1)
                elif j == 2:
                    m = rlen(r); ops.append({"op": "resize", "n": m, "v": r.random() < 0.5}); n = m
                elif j == 3:
                    b = rbits(r, r.choice([1, 2, 63, 64, 65, 70])); ops.append({"op": "extend", "bits": b}); n += len(b)
                    if r.random() < 0.3:
                        ops[-1]["slack"] = r.choice([1, 64, 1000])
                else:
                    for _ in range(r.choice([1, 3, 64])):
                        ops.append({"op": r.choice(["pop", "pop", "push"]), "b": r.random() < 0.5})
                        if ops[-1]["op"] == "pop":
                            del ops[-1]["b"]; n = max(0, n - 1)
                        else:
                            n += 1
            elif k < 0.55:
                ops.append({"op": "set", "i": idx(r, n), "b": r.random() < 0.5})
            elif k < 0.62:
                ops.append({"op": r.choice(["fill", "par_fill"]), "v": r.random() < 0.5})
            elif k < 0.68:
                ops.append({"op": r.choice(["flip", "par_flip", "reset", "par_reset"])})
            elif k < 0.74:
                ops.append({"op": r.choice(["get", "index"]), "i": idx(r, n)})
            elif k < 0.86:
                ops.append({"op": r.choice(["len", "iter", "into_iter", "iter_ones", "iter_zeros", "count_ones",
                                            "par_count_ones", "count_zeros", "display", "to_owned", "clone",
                                            "mem_size", "capacity"])})
            elif k < 0.9:
                ops.append(hinted(r, n))
            elif k < 0.95:
                # compare with a vector of the same/other length whose backend differs
                # only beyond the length, or in exactly one bit inside
                ops.append({"op": "eq_self", "mode": r.choice(["same", "garbage", "flip_inside", "shorter", "longer"]),
                            "at": r.randrange(max(1, n))})
            elif k < 0.975 or not reload:
                to = r.choice(["boxed", "atomic"]) if form == "vec" else r.choice(["vec", "atomic_boxed"])
                ops.append({"op": "into", "to": to}); form = to
            else:
                mode = r.choice(["full", "eps", "eps8", "mmap"])
                ops.append({"op": "reload", "mode": mode}); form = form if mode == "full" else "ro"
        elif form == "ro":
            k = r.random()
            if k < 0.6:
                ops.append({"op": r.choice(["len", "iter", "into_iter", "iter_ones", "iter_zeros", "count_ones",
                                            "count_zeros", "display", "to_owned", "clone", "mem_size"])})
            elif k < 0.75:
                ops.append({"op": r.choice(["get", "index"]), "i": idx(r, n)})
            elif k < 0.9:
                ops.append(hinted(r, n))
            else:
                ops.append({"op": "eq_self", "mode": r.choice(["same", "garbage", "flip_inside", "shorter", "longer"]),
                            "at": r.randrange(max(1, n))})
        else:
            k = r.random()
            if k < 0.3:
                ops.append({"op": "a_set", "i": idx(r, n), "b": r.random() < 0.5})
            elif k < 0.45:
                ops.append({"op": "a_swap", "i": idx(r, n), "b": r.random() < 0.5})
            elif k < 0.55:
                ops.append({"op": r.choice(["a_get", "a_index"]), "i": idx(r, n)})
            elif k < 0.62:
                ops.append({"op": r.choice(["a_fill", "a_par_fill"]), "v": r.random() < 0.5})
            elif k < 0.7:
                ops.append({"op": r.choice(["a_flip", "a_par_flip", "a_reset", "a_par_reset"])})
            elif k < 0.9:
                ops.append({"op": r.choice(["a_len", "a_iter", "a_count_ones", "a_par_count_ones", "a_count_zeros",
                                            "a_mem_size"])})
            else:
                to = "vec" if form == "atomic" else "boxed"
                ops.append({"op": "into", "to": to}); form = to
    # closing battery
    if form in ("vec", "boxed", "ro"):
        ops += [{"op": "iter"}, {"op": "iter_ones"}, {"op": "iter_zeros"}, {"op": "count_ones"},
                {"op": "eq_self", "mode": "garbage", "at": 0}]
    else:
        ops += [{"op": "a_iter"}, {"op": "a_count_ones"}]
    return {"fam": "bitvec", "src": src, "ops": ops}


def random_episodes(seed, count, nops=(4, 40)):
    r = random.Random(seed)
    return [episode(r, r.randrange(*nops)) for _ in range(count)]


def atomic_ctor_episodes():
    eps = []
    for n in BOUND:
        for v in (False, True):
            eps.append({"fam": "bitvec", "src": "recipe", "ops": [
                {"op": "a_with_value", "n": n, "v": v}, {"op": "a_len"}, {"op": "a_iter"}, {"op": "a_count_ones"},
                {"op": "a_get", "i": n}, {"op": "a_set", "i": n, "b": True}, {"op": "a_swap", "i": n, "b": True},
                {"op": "a_flip"}, {"op": "a_count_ones"}, {"op": "a_fill", "v": True}, {"op": "a_count_zeros"},
                {"op": "into", "to": "vec"}, {"op": "iter_ones"}, {"op": "push", "b": True}, {"op": "iter"}]})
        eps.append({"fam": "bitvec", "src": "recipe", "ops": [{"op": "a_new", "n": n}, {"op": "a_iter"},
                                                                {"op": "a_par_flip"}, {"op": "a_par_count_ones"}]})
    return eps


def dirty_episodes(seed, count):
    """C14: every episode starts from caller-supplied storage with arbitrary bits
    beyond the length (same word and spare words) and mixes readers and writers."""
    r = random.Random(seed ^ 0x14)
    eps = []
    for _ in range(count):
        n = rlen(r)
        nw = (n + W - 1) // W + r.choice([0, 1, 2])
        g = r.randrange(4)
        if g == 0:
            st = rstore(r, nw * W)
        elif g == 1:
            st = rstore(r, n) + list(range(n, nw * W))
        elif g == 2:
            st = list(range(nw * W))
        else:
            st = rstore(r, n, 0.5) + [p for p in range(n, nw * W) if p % 2 == 1]
        ep = episode(r, r.randrange(3, 25), src="dirty")
        ep["ops"][0] = {"op": "raw", "rlen": n, "rnw": nw, "rstore": sorted(set(st))}
        # argument choice in episode() tracked the original constructor's length;
        # indices may be out of range here, which the specification handles (panic)
        eps.append(ep)
    return eps


def full_battery(n):
    idxs = sorted(set(x for x in [0, 1, n // 2, n - 1, n, n + 1, 63, 64, 65] if x >= 0))
    ops = [{"op": "len"}, {"op": "iter"}, {"op": "into_iter"}, {"op": "iter_ones"}, {"op": "iter_zeros"},
           {"op": "count_ones"}, {"op": "count_zeros"}, {"op": "display"}, {"op": "to_owned"}, {"op": "clone"},
           {"op": "mem_size"}]
    ops += [{"op": "get", "i": i} for i in idxs] + [{"op": "index", "i": i} for i in idxs]
    ops += [{"op": "eq_self", "mode": m, "at": n // 2} for m in ("same", "garbage", "flip_inside", "shorter", "longer")]
    for rr in (0, 1, n // 3, n - 1):
        for hp in (0, 64, n // 2):
            ops.append({"op": "select_hinted", "r": max(0, rr), "hp": hp})
            ops.append({"op": "select_zero_hinted", "r": max(0, rr), "hp": hp})
    for pos in (0, 63, 64, n // 2, n - 1):
        if pos >= 0:
            ops.append({"op": "rank_hinted", "pos": pos, "hp": 0})
            ops.append({"op": "rank_hinted", "pos": pos, "hp": pos // 64})
    return ops


def reload_episodes(seed, count):
    """C15: construct (clean, dirty, empty, after shrinking) -> full observer battery -> reload (full / eps /
    mmap) -> the same battery on the loaded instance (-> keep mutating the fully deserialised copy)."""
    r = random.Random(seed ^ 0x15)
    eps = []
    for k in range(count):
        ep = episode(r, r.randrange(0, 12), src="reload", reload=False)
        ops = [o for o in ep["ops"]]
        # stay in a serialisable form
        ops = [o for o in ops if not (o["op"] == "into" or o["op"].startswith("a_"))]
        if any(o["op"] == "into" for o in ep["ops"]):
            ops = ops[:1]
        n = 300
        mode = ("full", "eps", "mmap", "eps8")[k % 4]
        ops += full_battery(n if k % 2 else 64)
        if r.random() < 0.3:
            ops.append({"op": "into", "to": "boxed"})
        ops.append({"op": "reload", "mode": mode})
        ops += full_battery(n if k % 2 else 64)
        if mode == "full":
            ops += [{"op": "push", "b": True}, {"op": "set", "i": 0, "b": True}, {"op": "resize", "n": 70, "v": True},
                    {"op": "iter"}, {"op": "reload", "mode": "eps"}, {"op": "iter"}, {"op": "iter_ones"}]
        eps.append({"fam": "bitvec", "src": "reload", "ops": ops})
    # sparse vectors: single ones in even- and odd-indexed words, each followed by two or more empty words (loops
    # that skip empty words several at a time), every load path
    for k in range(max(8, count // 8)):
        nw = r.choice([9, 16, 17, 33, 40])
        n = nw * W - r.choice([0, 1, 17, 63])
        ones, wd = [], r.choice([0, 1])
        while wd < nw:
            ones.append(wd * W + r.randrange(W))
            if r.random() < 0.3:
                ones.append(wd * W + r.randrange(W))
            wd += r.choice([3, 3, 4, 5, 6, 7, 8])
        ones = sorted(p for p in set(ones) if p < n)
        mode = ("eps", "eps8", "mmap", "full")[k % 4]
        obs = [{"op": "iter_ones"}, {"op": "iter_zeros"}, {"op": "count_ones"}, {"op": "iter"}]
        eps.append({"fam": "bitvec", "src": "reload", "ops": [
            {"op": "raw", "rlen": n, "rnw": nw, "rstore": ones}] + obs + [{"op": "reload", "mode": mode}] + obs})
    # fixed corner cases: empty vector, exact word multiples, all ones
    for n in (0, 1, 63, 64, 65, 128, 192):
        for v in (False, True):
            for mode in ("full", "eps", "eps8", "mmap"):
                eps.append({"fam": "bitvec", "src": "reload", "ops": [
                    {"op": "with_value", "n": n, "v": v}] + full_battery(n) + [{"op": "reload", "mode": mode}] + full_battery(n)})
    return eps


def space_episodes(seed, count):
    """C11: histories that only build or grow (the documented bound applies), each ending in mem_size; and
    histories that shrink (only the backend-size bound applies)."""
    r = random.Random(seed ^ 0x11)
    eps = []
    for n in BOUND + [1000, 4095, 4096, 4097, 100000]:
        for c in ({"op": "new", "n": n}, {"op": "with_value", "n": n, "v": True},
                  {"op": "macro_rep", "n": n, "v": True, "num": False}, {"op": "a_new", "n": n}):
            ms = {"op": "a_mem_size"} if c["op"].startswith("a_") else {"op": "mem_size"}
            eps.append({"fam": "bitvec", "src": "recipe", "ops": [c, ms]})
        if n <= 300:
            eps.append({"fam": "bitvec", "src": "recipe", "ops": [{"op": "collect", "bits": [True] * n, "slack": 5000},
                                                                   {"op": "mem_size"}, {"op": "iter"}]})
            eps.append({"fam": "bitvec", "src": "recipe", "ops": [{"op": "collect", "bits": [True] * n}, {"op": "mem_size"},
                                                                   {"op": "into", "to": "boxed"}, {"op": "mem_size"},
                                                                   {"op": "into", "to": "atomic_boxed"}, {"op": "a_mem_size"}]})
    for _ in range(count):
        ops = [r.choice([{"op": "new", "n": rlen(r)}, {"op": "with_capacity", "c": rlen(r)}, {"op": "macro_empty"},
                         {"op": "with_value", "n": rlen(r), "v": True}])]
        for _ in range(r.randrange(1, 12)):
            j = r.randrange(4)
            if j == 0:
                ops += [{"op": "push", "b": r.random() < 0.5} for _ in range(r.choice([1, 2, 63, 64, 65, 130]))]
            elif j == 1:
                ops.append({"op": "extend", "bits": rbits(r, r.choice([1, 63, 64, 65, 129]))})
                if r.random() < 0.5:    # an iterator whose size hint is larger than what it yields
                    ops[-1]["slack"] = r.choice([1, 64, 1000, 100000])
            elif j == 2:
                ops.append({"op": "resize", "n": rlen(r, 600) + 300, "v": r.random() < 0.5})   # may shrink: the spec tracks it
            else:
                ops.append({"op": "set", "i": 0, "b": True})
            ops.append({"op": "mem_size"})
            if r.random() < 0.15:
                ops.append({"op": "pop"})
                ops.append({"op": "mem_size"})
        ops += [{"op": "capacity"}, {"op": "mem_size"}, {"op": "len"}]
        eps.append({"fam": "bitvec", "src": "space", "ops": ops})
    return eps


def ood_episodes(seed, count):
    """C12: out-of-domain arguments on every safe method of every form (index at and past the end, huge
    values, empty and minimal vectors): the specification admits a panic that changes nothing, or the
    documented result; `abort` and `hang` are admissible nowhere."""
    r = random.Random(seed ^ 0x12)
    eps = []
    huge = [2 ** 31, 2 ** 32, 2 ** 63 - 1, 2 ** 63, 2 ** 64 - 64, 2 ** 64 - 1]
    for n in [0, 1, 63, 64, 65, 128, 129]:
        bad = [n, n + 1, n + 63, n + 64, ((n + 63) // 64) * 64, ((n + 63) // 64) * 64 + 1] + huge
        for ctor in ({"op": "new", "n": n}, {"op": "with_value", "n": n, "v": True},
                     {"op": "raw", "rlen": n, "rnw": (n + 63) // 64 + 1, "rstore": list(range(((n + 63) // 64 + 1) * 64))}):
            ops = [ctor]
            for i in bad:
                ops += [{"op": "get", "i": i}, {"op": "index", "i": i}, {"op": "set", "i": i, "b": True},
                        {"op": "set", "i": i, "b": False}]
            ops += [{"op": "pop"}] * 2 if n == 0 else []
            ops += [{"op": "iter_ones"}, {"op": "iter_zeros"}, {"op": "iter"}, {"op": "count_ones"}, {"op": "into", "to": "boxed"}]
            for i in bad[:4] + huge[-2:]:
                ops += [{"op": "get", "i": i}, {"op": "set", "i": i, "b": True}]
            ops += [{"op": "iter_ones"}, {"op": "iter_zeros"}, {"op": "into", "to": "atomic_boxed"}]
            for i in bad:
                ops += [{"op": "a_get", "i": i}, {"op": "a_index", "i": i}, {"op": "a_set", "i": i, "b": True},
                        {"op": "a_swap", "i": i, "b": False}]
            ops += [{"op": "a_iter"}, {"op": "a_count_ones"}]
            eps.append({"fam": "bitvec", "src": "ood", "ops": ops})
        for mode in ("eps", "eps8", "mmap"):
            ops = [{"op": "with_value", "n": n, "v": True}, {"op": "reload", "mode": mode}]
            for i in bad:
                ops += [{"op": "get", "i": i}, {"op": "index", "i": i}]
            ops += [{"op": "iter_ones"}, {"op": "iter_zeros"}, {"op": "iter"}]
            eps.append({"fam": "bitvec", "src": "ood", "ops": ops})
    for _ in range(count):
        ep = episode(r, r.randrange(3, 15), src="ood")
        ops = []
        for o in ep["ops"]:
            ops.append(o)
            if o["op"] in ("push", "pop", "resize", "extend", "into") and r.random() < 0.7:
                i = r.choice(huge + [64, 65, 128, 129, 300, 301])
                ops.append({"op": r.choice(["get", "set", "index", "a_get", "a_set", "a_swap", "a_index"]), "i": i, "b": True})
        eps.append({"fam": "bitvec", "src": "ood", "ops": ops})
    return eps


def bulk_episodes(seed, count):
    """C10 (BitVec part): every bulk operation and its parallel / atomic variant, after shrinking and over dirty
    storage, each followed by observers (the specification defines each as the per-element loop)"""
    r = random.Random(seed ^ 0x10)
    eps = []
    plain = ["fill", "par_fill", "flip", "par_flip", "reset", "par_reset", "count_ones", "par_count_ones", "count_zeros"]
    atom = ["a_fill", "a_par_fill", "a_flip", "a_par_flip", "a_reset", "a_par_reset", "a_count_ones", "a_par_count_ones",
            "a_count_zeros"]
    for k in range(count):
        ops = [ctor(r)]
        c = ops[0]
        n = c.get("n", c.get("rlen", len(c.get("bits", []))))
        if c["op"] in ("with_capacity", "macro_empty"):
            n = 0
        # grow, then shrink: stale ones beyond the length in the last word and in spare words
        if r.random() < 0.7:
            m = r.choice([65, 100, 128, 130, 200])
            ops += [{"op": "resize", "n": m, "v": True}, {"op": "resize", "n": rlen(r, m), "v": False}]
            if r.random() < 0.5:
                ops += [{"op": "pop"}] * r.choice([1, 3, 30])
        form = "vec"
        for _ in range(r.randrange(3, 10)):
            if form == "vec" and r.random() < 0.15:
                ops.append({"op": "into", "to": "atomic"}); form = "atomic"
            elif form == "atomic" and r.random() < 0.3:
                ops.append({"op": "into", "to": "vec"}); form = "vec"
            o = r.choice(plain if form == "vec" else atom)
            op = {"op": o}
            if "fill" in o:
                op["v"] = r.random() < 0.5
            ops.append(op)
            ops.append({"op": "count_ones" if form == "vec" else "a_count_ones"})
            if r.random() < 0.4:
                ops.append({"op": "iter" if form == "vec" else "a_iter"})
        if form == "vec":
            ops += [{"op": "par_count_ones"}, {"op": "count_ones"}, {"op": "iter_ones"}, {"op": "eq_self", "mode": "garbage", "at": 0}]
        else:
            ops += [{"op": "a_par_count_ones"}, {"op": "a_count_ones"}, {"op": "a_iter"}]
        eps.append({"fam": "bitvec", "src": "bulk", "ops": ops})
    return eps
