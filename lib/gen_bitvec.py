"""Random / boundary-biased scripts for the "bitvec" family (inputs only: no
expected results are computed here; Trace_BitVec decides)."""
import random

W = 64
BOUND = [0, 1, 2, 62, 63, 64, 65, 66, 126, 127, 128, 129, 191, 192, 193, 255, 256, 257]


def rlen(r, cap=300):
    if r.random() < 0.6:
        return r.choice([b for b in BOUND if b <= cap])
    return r.randrange(0, cap)


def rbits(r, n):
    mode = r.randrange(4)
    if mode == 0:
        return [r.random() < 0.5 for _ in range(n)]
    if mode == 1:
        return [True] * n
    if mode == 2:
        return [False] * n
    return [(i % 2 == 0) for i in range(n)]


def rstore(r, nbits, dens=None):
    dens = r.choice([0.0, 0.1, 0.5, 0.9, 1.0]) if dens is None else dens
    return [p for p in range(nbits) if r.random() < dens]


def ctor(r):
    k = r.randrange(10)
    if k == 0:
        return {"op": "new", "n": rlen(r)}
    if k == 1:
        return {"op": "with_value", "n": rlen(r), "v": r.random() < 0.7}
    if k == 2:
        return {"op": "with_capacity", "c": rlen(r)}
    if k == 3:
        return {"op": "macro_rep", "n": rlen(r), "v": r.random() < 0.5, "num": r.random() < 0.5}
    if k == 4:
        return {"op": r.choice(["collect", "macro_list"]), "bits": rbits(r, max(1, rlen(r, 140)))}
    if k == 5:
        return {"op": "macro_empty"}
    # dirty raw storage: arbitrary bits everywhere, 0-2 spare words
    n = rlen(r)
    nw = (n + W - 1) // W + r.choice([0, 0, 1, 2])
    g = r.randrange(3)
    if g == 0:
        st = rstore(r, nw * W)
    elif g == 1:  # clean contents, everything beyond len set
        st = rstore(r, n) + list(range(n, nw * W))
    else:
        st = list(range(nw * W))
    return {"op": "raw", "rlen": n, "rnw": nw, "rstore": st}


def idx(r, n):
    c = [0, n - 1, n, n + 1, 63, 64, 65, n // 2, 2 ** 63, 2 ** 64 - 1]
    c = [x for x in c if x >= 0]
    if r.random() < 0.7 and n > 0:
        return r.choice([x for x in [0, n - 1, 63, 64, n // 2, r.randrange(n)] if 0 <= x < n] or [0])
    return r.choice(c)


def episode(r, nops, src="rand"):
    ops = [ctor(r)]
    form = "vec"
    n = None  # tracked only loosely for argument choice (not an oracle)
    c = ops[0]
    n = c.get("n", c.get("rlen", len(c.get("bits", []))))
    if c["op"] in ("with_capacity", "macro_empty"):
        n = 0
    for _ in range(nops):
        if form in ("vec", "boxed"):
            k = r.random()
            if form == "vec" and k < 0.35:
                j = r.randrange(5)
                if j == 0:
                    ops.append({"op": "push", "b": r.random() < 0.5}); n += 1
                elif j == 1:
                    ops.append({"op": "pop"}); n = max(0, n - 1)
                elif j == 2:
                    m = rlen(r); ops.append({"op": "resize", "n": m, "v": r.random() < 0.5}); n = m
                elif j == 3:
                    b = rbits(r, r.choice([1, 2, 63, 64, 65, 70])); ops.append({"op": "extend", "bits": b}); n += len(b)
                else:
                    for _ in range(r.choice([1, 3, 64])):
                        ops.append({"op": r.choice(["pop", "pop", "push"]), "b": r.random() < 0.5})
                        if ops[-1]["op"] == "pop":
                            del ops[-1]["b"]; n = max(0, n - 1)
                        else:
                            n += 1
            elif k < 0.55:
                ops.append({"op": "set", "i": idx(r, n), "b": r.random() < 0.5})
            elif k < 0.62:
                ops.append({"op": r.choice(["fill", "par_fill"]), "v": r.random() < 0.5})
            elif k < 0.68:
                ops.append({"op": r.choice(["flip", "par_flip", "reset", "par_reset"])})
            elif k < 0.74:
                ops.append({"op": r.choice(["get", "index"]), "i": idx(r, n)})
            elif k < 0.9:
                ops.append({"op": r.choice(["len", "iter", "into_iter", "iter_ones", "iter_zeros", "count_ones",
                                            "par_count_ones", "count_zeros", "display", "to_owned", "clone"])})
            elif k < 0.95:
                # compare with a vector of the same/other length whose backend differs
                # only beyond the length, or in exactly one bit inside
                ops.append({"op": "eq_self", "mode": r.choice(["same", "garbage", "flip_inside", "shorter", "longer"]),
                            "at": r.randrange(max(1, n))})
            else:
                to = r.choice(["boxed", "atomic"]) if form == "vec" else r.choice(["vec", "atomic_boxed"])
                ops.append({"op": "into", "to": to}); form = to
        else:
            k = r.random()
            if k < 0.3:
                ops.append({"op": "a_set", "i": idx(r, n), "b": r.random() < 0.5})
            elif k < 0.45:
                ops.append({"op": "a_swap", "i": idx(r, n), "b": r.random() < 0.5})
            elif k < 0.55:
                ops.append({"op": r.choice(["a_get", "a_index"]), "i": idx(r, n)})
            elif k < 0.62:
                ops.append({"op": r.choice(["a_fill", "a_par_fill"]), "v": r.random() < 0.5})
            elif k < 0.7:
                ops.append({"op": r.choice(["a_flip", "a_par_flip", "a_reset", "a_par_reset"])})
            elif k < 0.9:
                ops.append({"op": r.choice(["a_len", "a_iter", "a_count_ones", "a_par_count_ones", "a_count_zeros"])})
            else:
                to = "vec" if form == "atomic" else "boxed"
                ops.append({"op": "into", "to": to}); form = to
    # closing battery
    if form in ("vec", "boxed"):
        ops += [{"op": "iter"}, {"op": "iter_ones"}, {"op": "iter_zeros"}, {"op": "count_ones"},
                {"op": "eq_self", "mode": "garbage", "at": 0}]
    else:
        ops += [{"op": "a_iter"}, {"op": "a_count_ones"}]
    return {"fam": "bitvec", "src": src, "ops": ops}


def random_episodes(seed, count, nops=(4, 40)):
    r = random.Random(seed)
    return [episode(r, r.randrange(*nops)) for _ in range(count)]


def atomic_ctor_episodes():
    eps = []
    for n in BOUND:
        for v in (False, True):
            eps.append({"fam": "bitvec", "src": "recipe", "ops": [
                {"op": "a_with_value", "n": n, "v": v}, {"op": "a_len"}, {"op": "a_iter"}, {"op": "a_count_ones"},
                {"op": "a_get", "i": n}, {"op": "a_set", "i": n, "b": True}, {"op": "a_swap", "i": n, "b": True},
                {"op": "a_flip"}, {"op": "a_count_ones"}, {"op": "a_fill", "v": True}, {"op": "a_count_zeros"},
                {"op": "into", "to": "vec"}, {"op": "iter_ones"}, {"op": "push", "b": True}, {"op": "iter"}]})
        eps.append({"fam": "bitvec", "src": "recipe", "ops": [{"op": "a_new", "n": n}, {"op": "a_iter"},
                                                                {"op": "a_par_flip"}, {"op": "a_par_count_ones"}]})
    return eps


def dirty_episodes(seed, count):
    """C14: every episode starts from caller-supplied storage with arbitrary bits
    beyond the length (same word and spare words) and mixes readers and writers."""
    r = random.Random(seed ^ 0x14)
    eps = []
    for _ in range(count):
        n = rlen(r)
        nw = (n + W - 1) // W + r.choice([0, 1, 2])
        g = r.randrange(4)
        if g == 0:
            st = rstore(r, nw * W)
        elif g == 1:
            st = rstore(r, n) + list(range(n, nw * W))
        elif g == 2:
            st = list(range(nw * W))
        else:
            st = rstore(r, n, 0.5) + [p for p in range(n, nw * W) if p % 2 == 1]
        ep = episode(r, r.randrange(3, 25), src="dirty")
        ep["ops"][0] = {"op": "raw", "rlen": n, "rnw": nw, "rstore": sorted(set(st))}
        # argument choice in episode() tracked the original constructor's length;
        # indices may be out of range here, which the specification handles (panic)
        eps.append(ep)
    return eps
