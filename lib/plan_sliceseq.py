"""Family "sliceseq": the SliceSeq adapter (spec/SliceSeq.tla). Not the subject of a listed property of its own;
it is one of "every structure of the crate" of C12 (an index at or past the length panics, a start position at or
past the end yields nothing, nothing is read outside the slice), so it runs as part of C12."""
import gen_sliceseq

FAMILY = "sliceseq"
TRACE_SPEC = "Trace_SliceSeq"
PROPS = ["C12"]


def mc(prop, tier):
    return [("MC_SliceSeq", "MC_SliceSeq.cfg", ["MC_SliceSeq.Call"])]


def exports(prop, tier):
    return [("tlc", "MC_SliceSeq", "MC_SliceSeq_export.cfg")]


def episodes(prop, tier, seed):
    return {"rand": (gen_sliceseq.episodes(seed, 200 if tier == "quick" else 4000), "verif")}


def nontrivial(epi):
    n = len(epi.get("xs", []))
    return any(o["op"] in ("get", "into_iter_from") and o.get("i", o.get("k", 0)) >= n for o in epi["ops"])


RULE = "sliceseq: episode = (elements, backend kind) + calls; non-trivial = some index or start position at or past the length"
ASSUME = ["sliceseq: elements < 2^31-1 (the adapter never computes with them)"]
