"""Scripts for the "atomic" family (inputs only: instances, thread programs and
scheduling policies; no expected value is computed here, Trace_Atomic decides).

An episode is an instance of spec/Atomic.tla plus a schedule:
  w, wt, width, flen, nfw, finit   bit-field vector (finit: per word, list of set bits)
  blen, nbw, binit                 bit vector (64-bit words)
  prog                             per thread, its list of jobs {kind, idx, val, hi}
  ops                              {"op":"step","t":T} | {"op":"run","policy":...} | {"op":"end"}
The property's hypothesis (distinct threads write distinct elements; only swaps
share a bit) is built into the generators: fields and privately written bits are
partitioned over the threads."""
import random

BUDGET_MS = 180000  # per scheduler step; the machine may be very busy


def bits_of(x):
    return [b for b in range(x.bit_length()) if (x >> b) & 1]


def word_pattern(r, w, kind):
    if kind == "zeros":
        return 0
    if kind == "ones":
        return (1 << w) - 1
    if kind == "alt":
        return int("01" * (w // 2), 2)
    if kind == "alt2":
        return int("10" * (w // 2), 2)
    return r.getrandbits(w)


def value(r, width, kind=None):
    if width == 0:
        return 0
    kind = kind or r.choice(["zero", "ones", "top", "bot", "rand", "rand", "alt"])
    if kind == "zero":
        return 0
    if kind == "ones":
        return (1 << width) - 1
    if kind == "top":
        return 1 << (width - 1)
    if kind == "bot":
        return 1
    if kind == "alt":
        return int(("01" * width)[:width], 2)
    return r.getrandbits(width)


def pick_width(r, w, full):
    c = [1, 2, 3, 5, 7, w // 2 - 1, w // 2, w // 2 + 1, w - 3, w - 2, w - 1]
    c = [x for x in c if 1 <= x < w]
    k = r.random()
    if full and k < 0.5:
        return w
    if k < 0.04:
        return 0
    if k < 0.6:
        return r.choice(c)
    return r.randrange(1, w)


def schedule(r, nt, est):
    """A list of `run` ops. `est` is a rough guess of the number of steps, used
    only to place PCT change points and segment lengths."""
    k = r.randrange(7)
    if k == 0:
        return [{"op": "run", "policy": "rand", "seed": r.getrandbits(48)}]
    if k == 1:
        d = r.choice([1, 2, 3, 5])
        prio = list(range(1, nt + 1))
        r.shuffle(prio)
        return [{"op": "run", "policy": "pct", "prio": prio,
                 "chg": sorted(r.randrange(1, max(2, est)) for _ in range(d))}]
    if k == 2:
        return [{"op": "run", "policy": "burst", "q": r.choice([2, 3, 5, 9]), "seed": r.getrandbits(48)}]
    if k == 3:
        return [{"op": "run", "policy": "rr", "q": r.choice([1, 1, 2, 3])}]
    if k == 4:  # segments of different policies
        ops = []
        for _ in range(r.randrange(2, 6)):
            ops += schedule(r, nt, est)
            ops[-1]["n"] = r.randrange(1, max(2, est // 3))
        return ops
    if k == 5:  # PCT with many change points: threads overtake each other inside the CAS loops
        prio = list(range(1, nt + 1))
        r.shuffle(prio)
        return [{"op": "run", "policy": "pct", "prio": prio,
                 "chg": sorted(set(r.randrange(1, max(2, est)) for _ in range(est // 4 + 1)))}]
    return [{"op": "run", "policy": r.choice(["lowest", "highest"]), "n": r.randrange(1, max(2, est // 2))},
            {"op": "run", "policy": "rand", "seed": r.getrandbits(48)}]


def job(kind, idx, val=0, hi=0):
    return {"kind": kind, "idx": idx, "val": bits_of(val), "hi": hi}


def base(r, w, width, flen, spare, blen, src):
    nfw = max(1, (flen * width + w - 1) // w) + spare
    nbw = (blen + 63) // 64 + (1 if blen and r.random() < 0.2 else 0)
    fk = r.choice(["zeros", "ones", "alt", "alt2", "rand", "rand"])
    bk = r.choice(["zeros", "ones", "alt", "rand"])
    return {"fam": "atomic", "src": src, "budget_ms": BUDGET_MS,
            "w": w, "wt": r.choice(["usize", "u64"]) if w == 64 else "u%d" % w,
            "ord": r.choice(["relaxed", "relaxed", "seqcst", "acquire"]),
            "width": width, "flen": flen, "nfw": nfw,
            "finit": [bits_of(word_pattern(r, w, fk)) for _ in range(nfw)],
            "blen": blen, "nbw": nbw,
            "binit": [bits_of(word_pattern(r, 64, bk)) for _ in range(nbw)]}


def owner_map(r, n, nt):
    """Which thread owns element i (or None: nobody writes it)."""
    style = r.choice(["interleave", "interleave", "block", "random", "pairs"])
    skip = r.choice([0.0, 0.0, 0.1, 0.4])
    own = []
    for i in range(n):
        if r.random() < skip:
            own.append(None)
        elif style == "interleave":
            own.append(i % nt)
        elif style == "block":
            own.append(min(nt - 1, i * nt // max(1, n)))
        elif style == "pairs":
            own.append((i // 2 + i) % nt)
        else:
            own.append(r.randrange(nt))
    return own


def order(r, jobs):
    k = r.randrange(4)
    if k == 0:
        jobs.reverse()
    elif k == 1:
        r.shuffle(jobs)
    return jobs


def steps_estimate(ep):
    return sum(3 * len(p) for p in ep["prog"]) + 1


def writers_episode(r, full=False, big=True, src="rand"):
    """4-8 threads writing disjoint sets of fields (and bits) of one vector."""
    w = r.choice([64, 64, 64, 64, 8, 16, 32])
    width = pick_width(r, w, full)
    nt = r.randrange(4, 9)
    flen = r.randrange(60, 320) if big else r.randrange(6, 40)
    if w == 8:
        flen = min(flen, 120)
    blen = r.choice([0, 0, 65, 130, 200])
    ep = base(r, w, width, flen, r.choice([0, 0, 1]), blen, src)
    prog = [[] for _ in range(nt)]
    for i, t in enumerate(owner_map(r, flen, nt)):
        if t is not None:
            prog[t].append(job("setfield", i, value(r, width)))
            if r.random() < 0.03:  # the same thread writes its element again
                prog[t].append(job("setfield", i, value(r, width)))
    if blen:
        hot = [r.randrange(blen) for _ in range(r.choice([0, 1, 2]))]   # shared by swappers / readers only
        for i, t in enumerate(owner_map(r, blen, nt)):
            if t is None or i in hot:
                continue
            k = r.random()
            if k < 0.5:
                prog[t].append(job(r.choice(["setbit", "clearbit"]), i))
            elif k < 0.7:
                prog[t].append(job("swapbit", i, r.getrandbits(1)))
                if r.random() < 0.3:
                    prog[t].append(job("getbit", i))
        for h in hot:
            for t in range(nt):
                for _ in range(r.choice([0, 1, 1, 2])):
                    prog[t].append(job(r.choice(["swapbit", "swapbit", "getbit"]), h, r.getrandbits(1)))
        for t in range(nt):
            if r.random() < 0.3:
                prog[t].append(job("getbit", r.randrange(blen)))
    ep["prog"] = [order(r, p) for p in prog]
    ep["ops"] = schedule(r, nt, steps_estimate(ep)) + [{"op": "end"}]
    return ep


def ef_episode(r, src="ef"):
    """The jobs of EliasFanoConcurrentBuilder::set for a monotone sequence, the
    indices distributed over the threads: low part = field write, high bit =
    fetch_or. (l, the low parts and the high positions are inputs of the jobs.)"""
    n = r.randrange(2, 200)
    l = r.choice([0, 1, 2, 3, 5, 7, 13, 21, 31, 33, 47, 63])
    gap = r.choice([0, 1, 2, 5])
    hs, h = [], 0
    for _ in range(n):
        h += 0 if r.random() < 0.4 else r.randrange(0, gap + 1)
        hs.append(h)
    nt = r.randrange(2, 9)
    ep = base(r, 64, l, n, 0, n + hs[-1] + 1, src)
    if r.random() < 0.7:  # as the builder allocates them
        ep["finit"] = [[] for _ in range(ep["nfw"])]
        ep["binit"] = [[] for _ in range(ep["nbw"])]
    prog = [[] for _ in range(nt)]
    own = owner_map(r, n, nt)
    for i in range(n):
        t = own[i] if own[i] is not None else r.randrange(nt)
        prog[t].append(job("efset", i, value(r, l), hs[i] + i))
    ep["prog"] = [order(r, p) for p in prog]
    ep["ops"] = schedule(r, nt, 4 * n) + [{"op": "end"}]
    return ep


def efb_episode(r, src="efb"):
    """The real EliasFanoConcurrentBuilder: thread t calls set(i, x_i) for its
    indices. u is chosen as 1.5 * n * 2^l so that the builder's floating-point
    choice of l is unambiguous; the jobs carry x (what the executor passes to
    `set`) and, for the specification, the low part and the high position that
    `set` derives from it -- Trace_Atomic checks that derivation itself."""
    n = r.randrange(2, 160)
    l = r.choice([0, 1, 2, 3, 4, 5, 7, 8, 11, 13, 16, 17, 20])
    while 3 * n * (1 << l) // 2 >= 2 ** 30:
        l -= 1
    u = n if l == 0 else 3 * n * (1 << (l - 1))
    k = r.randrange(4)
    if k == 0:
        xs = sorted(r.randrange(0, u + 1) for _ in range(n))
    elif k == 1:   # clustered: many equal high parts, runs of equal values
        xs = sorted(r.choice([0, u // 2, u]) + 0 for _ in range(n))
    elif k == 2:   # dense at the start, one big jump to u
        xs = sorted([min(u, i // 2) for i in range(n - 1)] + [u])
    else:
        xs = sorted(r.randrange(0, max(1, u // 3)) for _ in range(n))
    nt = r.randrange(2, 9)
    blen = n + (u >> l) + 1
    nfw = max(1, (n * l + 63) // 64)
    nbw = (blen + 63) // 64
    ep = {"fam": "atomic", "src": src, "mode": "efb", "budget_ms": BUDGET_MS, "w": 64, "wt": "usize",
          "ord": "relaxed", "width": l, "flen": n, "nfw": nfw, "finit": [[] for _ in range(nfw)],
          "blen": blen, "nbw": nbw, "binit": [[] for _ in range(nbw)], "n": n, "u": u}
    prog = [[] for _ in range(nt)]
    own = owner_map(r, n, nt)
    for i in range(n):
        t = own[i] if own[i] is not None else r.randrange(nt)
        j = job("efset", i, xs[i] & ((1 << l) - 1), (xs[i] >> l) + i)
        j["x"] = xs[i]
        prog[t].append(j)
    ep["prog"] = [order(r, p) for p in prog]
    ep["ops"] = schedule(r, nt, 4 * n) + [{"op": "end"}]
    return ep


def contended_episode(r, full=False, src="hot"):
    """Few fields around one word boundary, many threads, one job each plus
    swaps on one bit: maximal contention, many CAS retries."""
    w = r.choice([64, 64, 8, 16, 32])
    width = pick_width(r, w, full)
    nt = r.randrange(4, 9)
    k = (w // width) if width else 1
    first = max(0, k - r.randrange(1, 4))
    flen = first + nt + 2
    ep = base(r, w, width, flen, r.choice([0, 1]), 70, src)
    hot = r.choice([0, 62, 63, 64, 69])
    prog = []
    for t in range(nt):
        p = [job("setfield", first + t, value(r, width))]
        if r.random() < 0.6:
            p.append(job("swapbit", hot, r.getrandbits(1)))
        if r.random() < 0.3:
            p.append(job("getbit", hot))
        r.shuffle(p)
        prog.append(p)
    ep["prog"] = prog
    ep["ops"] = schedule(r, nt, steps_estimate(ep)) + [{"op": "end"}]
    return ep


def out_of_domain_episode(r, src="ood"):
    """Some calls have arguments outside the domain (index = len, len + 1, huge;
    a value wider than the field): they must panic before their first atomic
    instruction and leave everything alone, while the other threads go on."""
    ep = writers_episode(r, big=False, src=src)
    w, width, flen, blen = ep["w"], ep["width"], ep["flen"], ep["blen"]
    for p in ep["prog"]:
        for _ in range(r.choice([0, 1, 2])):
            k = r.randrange(4)
            if k == 0:
                j = job("setfield", r.choice([flen, flen + 1, 2 ** 40, 2 ** 64 - 1]), value(r, width))
            elif k == 1 and width < w:
                j = job("setfield", r.randrange(flen), (1 << width) | value(r, width))
            elif k == 2:
                j = job(r.choice(["setbit", "clearbit", "swapbit", "getbit"]), r.choice([blen, blen + 1, 2 ** 63]))
            else:
                j = job("setfield", flen, 0)
            p.insert(r.randrange(len(p) + 1), j)
    return ep


def cap_bit_ops(ep, cap=5):
    """At most `cap` in-range calls per bit (Trace_Atomic searches the
    linearizations of the calls on one bit); extra ones are dropped."""
    cnt = {}
    for p in ep["prog"]:
        keep = []
        for j in p:
            if j["kind"] in ("setfield",):
                keep.append(j)
                continue
            pos = j["hi"] if j["kind"] == "efset" else j["idx"]
            if pos < ep["blen"]:
                cnt[pos] = cnt.get(pos, 0) + 1
                if cnt[pos] > cap:
                    continue
            keep.append(j)
        p[:] = keep
    return ep


def swap_race_episode(r, src="free-swaprace"):
    """Every thread swaps (or sets) the same few bits: exactly one swap(true)
    of a clear bit may see false, whatever the interleaving."""
    nt = r.randrange(2, 6)
    blen = r.choice([1, 64, 65, 130])
    ep = base(r, 64, r.choice([1, 3, 7]), 4, 0, blen, src)
    ep["binit"] = [[] for _ in range(ep["nbw"])] if r.random() < 0.7 else ep["binit"]
    bits = [r.randrange(blen) for _ in range(r.choice([1, 1, 2, 3]))]
    prog = [[] for _ in range(nt)]
    for b in bits:
        v = r.choice([1, 1, 1, 0])
        for t in range(nt):
            prog[t].append(job("swapbit", b, v))
    for p in prog:
        r.shuffle(p)
    ep["prog"] = prog
    return cap_bit_ops(ep)


def same_word_episode(r, full=False, src="free-sameword"):
    """2-4 threads, one field each, all in the same word (or straddling into
    it), the word all zeros / all ones / random; plus distinct bits of one word."""
    w = r.choice([64, 64, 8, 16, 32])
    width = pick_width(r, w, full) or 1
    nt = r.randrange(2, 5)
    per = max(1, w // width)
    first = r.choice([0, 0, per - 1, per, r.randrange(0, 2 * per)])
    flen = first + nt + 1
    ep = base(r, w, width, flen, r.choice([0, 1]), 64, src)
    k = r.random()
    if k < 0.5:
        ep["finit"] = [[] for _ in range(ep["nfw"])]
    elif k < 0.7:
        ep["finit"] = [list(range(w)) for _ in range(ep["nfw"])]
    ep["binit"] = [[] for _ in range(ep["nbw"])] if r.random() < 0.6 else ep["binit"]
    same = r.random() < 0.4
    v0 = value(r, width)
    prog = []
    for t in range(nt):
        p = [job("setfield", first + t, v0 if same else value(r, width))]
        if r.random() < 0.5:
            p.append(job(r.choice(["setbit", "clearbit", "swapbit"]), t * 3 + r.randrange(3), r.getrandbits(1)))
        if r.random() < 0.3:   # write the own field again
            p.append(job("setfield", first + t, value(r, width)))
        prog.append(p)
    ep["prog"] = prog
    return cap_bit_ops(ep)


def free_episodes(seed, count, reps, full=False):
    """Episodes whose threads run unscheduled (op "free"): real races, judged by
    what every interleaving guarantees."""
    r = random.Random(seed)
    eps = []
    for k in range(count):
        x = r.random()
        if x < 0.25:
            ep = same_word_episode(r, full=full)
        elif x < 0.45:
            ep = swap_race_episode(r)
        elif x < 0.60:
            ep = cap_bit_ops(contended_episode(r, full=full, src="free-hot"))
        elif x < 0.75:
            ep = cap_bit_ops(writers_episode(r, full=full, big=r.random() < 0.3, src="free-writers"))
        elif x < 0.85:
            ep = cap_bit_ops(ef_episode(r, src="free-ef"))
        elif x < 0.95:
            ep = efb_episode(r, src="free-efb")
        else:
            ep = cap_bit_ops(out_of_domain_episode(r, src="free-ood"))
        n = reps // 8 if ep.get("mode") == "efb" else reps
        ep["ops"] = [{"op": "free", "reps": max(2, n)}, {"op": "end"}]
        eps.append(ep)
    return eps


def random_episodes(seed, count, full=False):
    r = random.Random(seed)
    eps = []
    for k in range(count):
        x = r.random()
        if x < 0.45:
            eps.append(writers_episode(r, full=full))
        elif x < 0.55:
            eps.append(ef_episode(r))
        elif x < 0.65:
            eps.append(efb_episode(r))
        elif x < 0.90:
            eps.append(contended_episode(r, full=full))
        else:
            eps.append(out_of_domain_episode(r))
    return eps
