#!/usr/bin/env python3
"""seedtable.py <regex on seed id> : prints the DESIGN.md table rows (seed | file | change | result) of the kept
seeded changes under /verif/seeded whose id matches."""
import json
import os
import re
import sys

pat = re.compile(sys.argv[1])
base = os.path.join(os.path.dirname(os.path.dirname(os.path.abspath(__file__))), "seeded")


def order(i):
    m = re.match(r"C(\d+)(\D*)-(\d+)", i)
    return (int(m.group(1)), m.group(2), int(m.group(3))) if m else (99, i, 0)


print("| seed | file | change | result |")
print("|---|---|---|---|")
for i in sorted(os.listdir(base), key=order):
    if not pat.fullmatch(i):
        continue
    m = json.load(open(os.path.join(base, i, "meta.json")))
    files = ", ".join(os.path.basename(f) for f in m.get("files", []))
    summ = " ".join(str(m.get("summary", "")).split()).replace("|", "/")
    if len(summ) > 150:
        summ = summ[:150] + "..."
    res = "; ".join("%s: %s" % (k, str(v).replace("|", "/")) for k, v in m.get("checks", {}).items())
    print("| %s | %s | %s | %s |" % (i, files, summ, res))
