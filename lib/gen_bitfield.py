"""Random / boundary-biased / recipe scripts for the "bitfield" family (inputs
only: no expected results are computed here; Trace_BitField decides).

The generators keep a *loose* idea of the width and length of the vector under
test, used only to aim arguments at interesting places (word boundaries, the
last element, one past the end). Nothing depends on it being right: the
specification defines every operation for every argument, and the executor
guards the `*_unchecked` methods with the real length."""
import math
import random

WT = {"u8": 8, "u16": 16, "u32": 32, "u64": 64, "u128": 128, "usize": 64}
WTS = ["u8", "u16", "u32", "u64", "u128", "usize"]
HUGES = [2 ** 63, 2 ** 64 - 1, 2 ** 62 + 1]



def via_helper(r, op):
    """a third of the atomic get / set calls go through the AtomicHelper blanket trait (another entry point)"""
    if op["op"] in ("a_get", "a_set") and r.random() < 0.34:
        op["via"] = "helper"
    return op

def bits_of(x):
    return [b for b in range(x.bit_length()) if (x >> b) & 1]


def rwidth(r, W):
    c = [0, 1, 2, 3, 5, 7, W // 2 - 1, W // 2, W // 2 + 1, W - 8, W - 7, W - 6, W - 5, W - 4, W - 3, W - 2, W - 1, W]
    if r.random() < 0.75:
        return r.choice([x for x in c if 0 <= x <= W])
    return r.randrange(0, W + 1)


def rlen(r, W, width, maxbits=None, maxlen=120):
    """A length whose bit size is near a word boundary."""
    maxbits = maxbits or 5 * W
    if width == 0:
        return r.choice([0, 1, 2, 5, 17, 64, 100])
    if r.random() < 0.7:
        tb = r.choice([0, 1, W - 1, W, W + 1, 2 * W - 1, 2 * W, 2 * W + 1, 3 * W, 3 * W + 1, 4 * W - 1, 4 * W, 5 * W])
        tb = min(tb, maxbits)
        n = tb // width + r.choice([-1, 0, 0, 1])
    else:
        n = r.randrange(0, maxbits // width + 2)
    return max(0, min(n, maxlen, maxbits // width))


def rval(r, width, W, bad=0.04):
    """A value as a list of set-bit positions; with probability `bad` one that
    does not fit the width (when such a value exists)."""
    if width < W and r.random() < bad:
        return sorted(set(rval(r, width, W, 0) + [r.randrange(width, W)]))
    if width == 0:
        return []
    m = r.randrange(7)
    if m == 0:
        return []
    if m == 1:
        return list(range(width))
    if m == 2:
        return [width - 1]
    if m == 3:
        return [0]
    if m == 4:
        return [b for b in range(width) if b % 2 == r.randrange(2)]
    return [b for b in range(width) if r.random() < 0.5]


def distinct_val(k, width, salt=0):
    """Pairwise distinct values (as far as the width allows) for copy tests."""
    if width == 0:
        return []
    x = ((k + 1 + salt) * 0x9E3779B97F4A7C15F39CC0605CEDC835) % (1 << width)
    if width >= 8:
        x = (x & ~0xFF) | ((k + salt) & 0xFF) if width > 8 else (k + salt) & 0xFF
    return bits_of(x % (1 << width))


def rstore(r, lo, hi, mode=None):
    mode = r.randrange(5) if mode is None else mode
    if mode == 0:
        return []
    if mode == 1:
        return list(range(lo, hi))
    if mode == 2:
        return [p for p in range(lo, hi) if p % 2 == 1]
    if mode == 3:
        return [p for p in range(lo, hi) if r.random() < 0.5]
    return [p for p in range(lo, hi) if r.random() < 0.12]


def raw_fields(r, W, width, n, spare=None, garbage=None, content=None):
    """(len, nw, store) of caller-supplied storage: arbitrary contents and
    arbitrary bits beyond them (same word and `spare` extra words)."""
    need = (n * width + W - 1) // W
    spare = r.choice([0, 0, 1, 2]) if spare is None else spare
    nw = need + spare
    if width == 0 and nw == 0:
        nw = 1  # (an empty backend under a zero-width vector is a C12 recipe, not a random case)
    st = rstore(r, 0, n * width, content if content is not None else r.choice([3, 3, 1, 4]))
    st += rstore(r, n * width, nw * W, garbage if garbage is not None else r.choice([1, 2, 3, 3, 0]))
    return n, nw, st


def idx(r, n, W=64, width=1):
    inside = [x for x in [0, n - 1, n // 2, (W // max(1, width)), (W // max(1, width)) - 1] if 0 <= x < n]
    if n > 0 and r.random() < 0.8:
        return r.choice(inside + [r.randrange(n)])
    return r.choice([n, n + 1, 2 ** 63, 2 ** 64 - 1, n + W])


def other(r, W, width, olen=None, content=3, garbage=None):
    """The second vector of eq / copy, same width, given by raw parts."""
    olen = rlen(r, W, width) if olen is None else olen
    n, nw, st = raw_fields(r, W, width, olen, garbage=garbage, content=content)
    return {"olen": n, "onw": nw, "ostore": st}


class Tr:
    """Loose tracking of the vector under test (argument aiming only)."""

    def __init__(self, r, wt):
        self.r, self.wt, self.W = r, wt, WT[wt]
        self.width, self.n, self.form = 0, 0, "none"
        self.ops = []

    def add(self, op):
        self.ops.append(op)

    # ---- constructors
    def ctor(self, kind=None, width=None, n=None):
        r, W = self.r, self.W
        width = rwidth(r, W) if width is None else width
        n = rlen(r, W, width) if n is None else n
        kind = kind or r.choice(["new", "new", "new_unaligned", "with_capacity", "raw", "raw", "from_slice", "a_new",
                                 "a_raw", "macro"])
        self.form = "vec"
        if kind == "with_capacity":
            self.add({"op": "with_capacity", "width": width, "c": r.choice([0, 1, n, n + 3])})
            n = 0
        elif kind in ("raw", "a_raw"):
            if kind == "a_raw" and self.wt == "u128":
                kind = "raw"
            n, nw, st = raw_fields(r, W, width, n)
            self.add({"op": kind, "width": width, "rlen": n, "rnw": nw, "rstore": st})
            if kind == "a_raw":
                self.form = "atomic"
        elif kind == "a_new" and self.wt != "u128":
            self.add({"op": "a_new", "width": width, "n": n})
            self.form = "atomic"
        elif kind == "from_slice":
            vals = [rval(r, width, W, 0) for _ in range(n)]
            via = r.choice(["plain", "bfv", "u128"])
            op = {"op": "from_slice", "vals": vals, "via": via}
            if via == "bfv":
                op["swidth"] = width
            self.add(op)
            width = max([max(v) + 1 if v else 1 for v in vals] or [0])
        elif kind == "macro" and self.wt == "usize":
            k = r.randrange(3)
            if k == 0:
                self.add({"op": "macro_empty", "width": width})
                n = 0
            elif k == 1:
                self.add({"op": "macro_rep", "width": width, "n": n, "v": rval(r, width, W), "old": r.random() < 0.5})
            else:
                n = r.randrange(1, 5)
                self.add({"op": "macro_list", "width": width, "vals": [rval(r, width, W, 0.02) for _ in range(n)]})
        else:
            self.add({"op": kind if kind in ("new", "new_unaligned") else "new", "width": width, "n": n})
        self.width, self.n = width, n

    def fill(self, distinct=False, salt=0):
        """Writes every element (set or atomic set)."""
        name = "set" if self.form in ("vec", "boxed") else "a_set"
        for i in range(self.n):
            v = distinct_val(i, self.width, salt) if distinct else rval(self.r, self.width, self.W, 0)
            self.add({"op": name, "i": i, "v": v})

    # ---- one random operation appropriate for the current form
    def step(self):
        r, W, w, n = self.r, self.W, self.width, self.n
        f = self.form
        k = r.random()
        if f in ("vec", "boxed"):
            if f == "vec" and k < 0.30:
                j = r.randrange(7)
                if j == 0:
                    self.add({"op": "push", "v": rval(r, w, W)}); self.n += 1
                elif j == 1:
                    self.add({"op": "pop"}); self.n = max(0, n - 1)
                elif j == 2:
                    m = rlen(r, W, w); self.add({"op": "resize", "n": m, "v": rval(r, w, W, 0.02)}); self.n = m
                elif j == 3:
                    vs = [rval(r, w, W, 0) for _ in range(r.choice([1, 2, 3, 9]))]
                    self.add({"op": "extend", "vals": vs}); self.n += len(vs)
                elif j == 4:
                    if r.random() < 0.3:
                        self.add({"op": "clear"}); self.n = 0
                    else:
                        self.add({"op": "resize", "n": max(0, n - r.choice([1, 2, 5])), "v": []})
                        self.n = self.ops[-1]["n"]
                else:
                    for _ in range(r.choice([2, 5, 20])):
                        if r.random() < 0.55:
                            self.add({"op": "pop"}); self.n = max(0, self.n - 1)
                        else:
                            self.add({"op": "push", "v": rval(r, w, W, 0.01)}); self.n += 1
            elif k < 0.45:
                self.add({"op": r.choice(["set", "set", "set", "set_unchecked", "view_atomic_set"]),
                          "i": idx(r, n, W, w), "v": rval(r, w, W)})
            elif k < 0.55:
                self.add({"op": r.choice(["get", "get", "get_unchecked", "view_atomic_get", "get_unaligned", "addr_of"]),
                          "i": idx(r, n, W, w)})
            elif k < 0.70:
                self.reader()
            elif k < 0.74:
                self.add({"op": r.choice(["reset", "par_reset"])})
            elif k < 0.79:
                self.add({"op": r.choice(["apply", "apply", "apply_unchecked"]),
                          "kind": r.choice(["id", "not", "xor", "and", "or", "const", "shl1", "xorprev"]),
                          "m": rval(r, w, W, 0.3)})
            elif k < 0.86:
                self.copy()
            elif k < 0.90:
                self.chunks()
            elif k < 0.93:
                self.eq()
            elif k < 0.94:
                self.add({"op": r.choice(["clone", "raw_roundtrip", "mask", "mem_size"])})
            elif k < 0.95:
                self.add(plain_op(r, W))
            elif k < 0.97:
                self.add({"op": "reload", "mode": r.choice(["full", "eps", "mmap", "load_full", "load_mem", "load_mmap", "eps8"])})
                m = self.ops[-1]["mode"]
                self.form = "vec" if m in ("full", "load_full") else "ro"
            else:
                to = r.choice(["boxed", "atomic"]) if f == "vec" else r.choice(["vec", "atomic_boxed"])
                self.add({"op": "into", "to": to})
                if not (self.wt == "u128" and to.startswith("atomic")):
                    self.form = to
        elif f == "ro":
            if k < 0.25:
                self.add({"op": r.choice(["get", "get_unchecked", "get_unaligned", "addr_of", "view_atomic_get"]),
                          "i": idx(r, n, W, w)})
            elif k < 0.75:
                self.reader()
            elif k < 0.85:
                self.eq()
            elif k < 0.92:
                self.add({"op": r.choice(["set", "push", "reset", "mem_size"]), "i": 0, "v": []})  # not applicable
            else:
                self.add({"op": "reload", "mode": r.choice(["full", "eps", "mmap"])})
                self.form = "vec" if self.ops[-1]["mode"] == "full" else "ro"
        else:  # atomic forms
            if k < 0.40:
                self.add(via_helper(r, {"op": r.choice(["a_set", "a_set", "a_set_unchecked"]), "i": idx(r, n, W, w),
                                        "v": rval(r, w, W)}))
            elif k < 0.60:
                self.add(via_helper(r, {"op": r.choice(["a_get", "a_get_unchecked"]), "i": idx(r, n, W, w)}))
            elif k < 0.70:
                self.add({"op": r.choice(["a_reset", "a_par_reset", "a_reset_dep"])})
            elif k < 0.90:
                self.add({"op": r.choice(["a_all", "a_len", "a_bit_width", "a_mask", "raw_roundtrip", "get", "push"]),
                          "i": 0, "v": []})
            else:
                self.add({"op": "into", "to": "vec" if f == "atomic" else "boxed"})
                self.form = "vec" if f == "atomic" else "boxed"

    def reader(self):
        r, n = self.r, self.n
        j = r.randrange(10)
        if j == 0:
            self.add({"op": r.choice(["iter", "into_iter"])})
        elif j == 1:
            self.add({"op": r.choice(["iter_from", "into_iter_from", "slice_iter"]), "from": self.pos()})
        elif j == 2:
            self.add({"op": "iter_len", "from": self.pos(), "k": r.choice([0, 1, n // 2, n, n + 2])})
        elif j in (3, 4):
            f = self.pos()
            op = {"op": "uiter", "from": f, "n": max(0, n - f) if r.random() < 0.7 else r.randrange(0, max(1, n - f + 1))}
            if r.random() < 0.2:
                del op["from"]; op["n"] = n
            self.add(op)
        elif j in (5, 6):
            f = self.pos()
            op = {"op": "ruiter", "from": f, "n": min(f, n) if r.random() < 0.7 else r.randrange(0, min(f, n) + 1)}
            if r.random() < 0.3:
                del op["from"]; op["n"] = n
            self.add(op)
        elif j == 7:
            self.add({"op": r.choice(["len", "is_empty", "bit_width", "bit_width_vec", "mask_vec"])})
        elif j == 8:
            self.add({"op": "mem_size"})
        else:
            self.eq()

    def pos(self):
        r, n = self.r, self.n
        if r.random() < 0.85:
            return r.choice([0, n, max(0, n - 1), n // 2, r.randrange(n + 1)])
        return r.choice([n + 1, 2 ** 63, 2 ** 64 - 1])

    def eq(self):
        r = self.r
        if r.random() < 0.75:
            self.add({"op": "eq_self", "mode": r.choice(["same", "garbage", "garbage", "flip_inside", "shorter", "longer", "width"]),
                      "at": r.randrange(1 << 20)})
        else:
            o = other(r, self.W, self.width)
            o.update({"op": "eq_other", "owidth": self.width})
            self.add(o)

    def copy(self, name=None, from_=None, to=None, cnt=None, o=None):
        r, W, w, n = self.r, self.W, self.width, self.n
        name = name or r.choice(["copy_to", "copy_from"])
        o = o or other(r, W, w)
        slen, dlen = (n, o["olen"]) if name == "copy_to" else (o["olen"], n)
        from_ = r.randrange(slen + 1) if from_ is None else from_
        to = r.randrange(dlen + 1) if to is None else to
        if cnt is None:
            cnt = r.choice([0, 1, 2, min(slen - from_, dlen - to), max(0, min(slen - from_, dlen - to) - 1), slen + dlen + 1,
                            r.randrange(0, max(1, slen + 2)), 2 ** 64 - 1])
        op = {"op": name, "from": from_, "to": to, "n": cnt}
        op.update(o)
        self.add(op)

    def chunks(self, c=None):
        r, W, w, n = self.r, self.W, self.width, self.n
        if w == 0 and c is None:
            # (try_chunks_mut on a zero-width vector is a recorded finding with its own recipe)
            return self.reader()
        if c is None:
            unit = W // math.gcd(W, w) if w else 1
            c = r.choice([unit, unit, 2 * unit, n, n + 1, max(1, n - 1), r.randrange(1, n + 2), 3 * unit])
        nv = (n + c - 1) // c if c else 0
        acts = []
        for _ in range(r.choice([0, 2, 4, 8])):
            a = {"j": r.choice([0, max(0, nv - 1), r.randrange(nv + 1)]), "k": r.choice([0, max(0, c - 1), c, r.randrange(c + 1) if c else 0])}
            if r.random() < 0.5:
                a["v"] = rval(r, w, W, 0.05)
            acts.append(a)
        self.add({"op": "chunks", "c": c, "acts": acts})

    def battery(self):
        f = self.form
        if f in ("vec", "boxed", "ro"):
            self.ops += [{"op": "len"}, {"op": "iter"}, {"op": "ruiter", "n": self.n}, {"op": "uiter", "n": self.n},
                         {"op": "eq_self", "mode": "garbage", "at": 0}, {"op": "mem_size"}]
        else:
            self.ops += [{"op": "a_len"}, {"op": "a_all"}]

    def episode(self, src):
        return {"fam": "bitfield", "wt": self.wt, "src": src, "ops": self.ops}


def random_episodes(seed, count, nops=(4, 36), src="rand", wts=WTS):
    r = random.Random(seed ^ 0xB1F)
    eps = []
    for k in range(count):
        t = Tr(r, wts[k % len(wts)])
        t.ctor()
        if r.random() < 0.5 and t.form in ("vec", "atomic"):
            t.fill()
        for _ in range(r.randrange(*nops)):
            t.step()
        t.battery()
        eps.append(t.episode(src))
    return eps


def dirty_episodes(seed, count):
    """C14: every episode starts from caller-supplied storage (plain or atomic)
    with arbitrary bits beyond the contents -- rest of the last word and spare
    words -- and mixes every reader with every writer."""
    r = random.Random(seed ^ 0x14B)
    eps = []
    for k in range(count):
        t = Tr(r, WTS[k % len(WTS)])
        t.ctor(kind=r.choice(["raw", "raw", "raw", "a_raw"]))
        if r.random() < 0.3 and t.form == "vec":
            t.add({"op": "into", "to": "boxed"}); t.form = "boxed"
        for _ in range(r.randrange(4, 24)):
            kk = r.random()
            if t.form in ("vec", "boxed") and kk < 0.5:
                j = r.randrange(8)
                if j == 0:
                    t.add({"op": "set", "i": idx(r, t.n, t.W, t.width), "v": rval(r, t.width, t.W)})
                elif j == 1:
                    t.add({"op": r.choice(["reset", "par_reset"])})
                elif j == 2:
                    t.copy(name="copy_from")
                elif j == 3:
                    t.add({"op": "apply", "kind": r.choice(["id", "not", "xor", "const", "xorprev"]), "m": rval(r, t.width, t.W, 0)})
                elif j == 4:
                    t.chunks()
                elif j == 5:
                    t.add({"op": "view_atomic_set", "i": idx(r, t.n, t.W, t.width), "v": rval(r, t.width, t.W)})
                elif j == 6:
                    t.eq()
                else:
                    t.reader()
            else:
                t.step()
        t.battery()
        eps.append(t.episode("dirty"))
    return eps


def bulk_episodes(seed, count):
    """C10: copy over all relative alignments with pairwise distinct contents and
    a dirty destination, apply_in_place on vectors with spare words, reset,
    chunk views, unaligned reads."""
    r = random.Random(seed ^ 0xC10)
    eps = []
    for k in range(count):
        wt = WTS[k % len(WTS)]
        W = WT[wt]
        t = Tr(r, wt)
        width = rwidth(r, W)
        kind = k % 4
        if kind == 0 or kind == 1:
            # copy: source (self) and destination of several words, distinct values
            n = rlen(r, W, width, maxbits=4 * W + W // 2, maxlen=80) if width else 5
            t.ctor(kind=r.choice(["new", "raw", "new_unaligned"]), width=width, n=n)
            n = t.n
            t.fill(distinct=True)
            if r.random() < 0.3:
                t.add({"op": "resize", "n": max(0, n - r.choice([1, 3])), "v": []}); t.n = n = t.ops[-1]["n"]
            for _ in range(r.randrange(3, 9)):
                olen = rlen(r, W, width, maxbits=4 * W + W // 2, maxlen=80) if width else 7
                o = other(r, W, width, olen=olen, content=3)
                name = r.choice(["copy_to", "copy_from"])
                slen, dlen = (t.n, olen) if name == "copy_to" else (olen, t.n)
                per = max(1, W // max(1, width))
                f = min(slen, r.choice([0, 1, r.randrange(per + 1), r.randrange(slen + 1)]))
                to = min(dlen, r.choice([0, 1, r.randrange(per + 1), r.randrange(dlen + 1)]))
                room = min(slen - f, dlen - to)
                cnt = r.choice([room, room, max(0, room - 1), r.randrange(room + 1), room + 5, 1, per, per + 1, 2 * per])
                t.copy(name=name, from_=f, to=to, cnt=cnt, o=o)
                if name == "copy_from" and r.random() < 0.3:
                    t.add({"op": "iter"})
        elif kind == 2:
            # apply_in_place / reset on exact, padded, shrunk and dirty vectors
            t.ctor(kind=r.choice(["new", "raw", "new_unaligned", "with_capacity"]), width=width)
            if t.n == 0 and r.random() < 0.7:
                m = rlen(r, W, width)
                t.add({"op": "resize", "n": m, "v": []}); t.n = m
            t.fill(distinct=r.random() < 0.5)
            if r.random() < 0.5:
                t.add({"op": "resize", "n": max(0, t.n - r.choice([1, 2, t.n // 2, t.n])), "v": []}); t.n = t.ops[-1]["n"]
            for _ in range(r.randrange(2, 6)):
                t.add({"op": r.choice(["apply", "apply", "apply_unchecked"]),
                       "kind": r.choice(["id", "not", "xor", "and", "or", "const", "shl1", "xorprev"]),
                       "m": rval(r, width, W, 0.3)})
                if r.random() < 0.3:
                    t.add({"op": r.choice(["reset", "par_reset", "iter", "push"]), "v": rval(r, width, W, 0)})
                    if t.ops[-1]["op"] == "push":
                        t.n += 1
        else:
            # chunk views, unaligned reads, atomic reset
            if r.random() < 0.5:
                width = r.choice([x for x in [1, 2, W - 8, W - 7, W - 6, W - 4, W, W // 2, W // 4, 3] if 0 < x <= W])
            t.ctor(kind=r.choice(["new_unaligned", "raw", "new"]), width=width)
            t.fill(distinct=True)
            for _ in range(r.randrange(3, 9)):
                j = r.randrange(4)
                if j == 0:
                    t.chunks()
                elif j == 1:
                    for i in sorted({0, t.n - 1, t.n // 2, r.randrange(t.n + 1)} if t.n else {0}):
                        t.add({"op": "get_unaligned", "i": max(0, i)})
                elif j == 2 and wt != "u128":
                    t.add({"op": "into", "to": "atomic"})
                    t.add({"op": r.choice(["a_reset", "a_par_reset"])})
                    t.add({"op": "a_all"})
                    t.add({"op": "into", "to": "vec"})
                    t.fill(distinct=True, salt=7)
                else:
                    t.add({"op": r.choice(["reset", "par_reset"])})
                    t.add({"op": "iter"})
                    t.fill(distinct=True, salt=3)
        t.battery()
        eps.append(t.episode("bulk"))
    return eps


def copy_grid_episodes(seed, wt, widths, count):
    """Systematic (from*w mod W, to*w mod W) grid for one word type: one episode per
    width, many copies each into a fresh dirty destination."""
    r = random.Random(seed ^ 0xC0B1 ^ WT[wt])
    W = WT[wt]
    eps = []
    for width in widths:
        if width == 0:
            continue
        per = W // math.gcd(W, width)          # elements after which the bit offset repeats
        n = min(100, (4 * W) // width + 2)
        t = Tr(r, wt)
        t.ctor(kind="new", width=width, n=n)
        t.fill(distinct=True)
        for _ in range(count):
            f = r.randrange(min(per, n) + 1)
            to = r.randrange(min(per, n) + 1)
            o = other(r, W, width, olen=n + r.choice([0, -1, 3]), content=3)
            to = min(to, o["olen"])
            room = min(n - f, o["olen"] - to)
            t.copy(name="copy_to", from_=f, to=to, cnt=r.choice([room, max(0, room - 1), r.randrange(room + 1), (W // width) + 1]), o=o)
        eps.append(t.episode("copygrid"))
    return eps


def recipes():
    """Inputs of the defects found while the model was written (regression)."""
    eps = []
    # copy, src_bit < dst_bit, multi-word: element straddling into the last destination word
    ops = [{"op": "new", "width": 5, "n": 200}]
    ops += [{"op": "set", "i": i, "v": distinct_val(i, 5)} for i in range(200)]
    ops += [{"op": "copy_to", "from": 1, "to": 5, "n": 60, "olen": 200, "onw": 16, "ostore": []},
            {"op": "copy_to", "from": 0, "to": 0, "n": 5, "olen": 10, "onw": 1, "ostore": [0, 63]}]
    eps.append({"fam": "bitfield", "wt": "usize", "src": "recipe", "ops": ops})
    # width 0 copy, apply
    eps.append({"fam": "bitfield", "wt": "usize", "src": "recipe", "ops": [
        {"op": "new", "width": 0, "n": 10}, {"op": "copy_to", "from": 0, "to": 0, "n": 5, "olen": 10, "onw": 1, "ostore": [3]},
        {"op": "copy_from", "from": 0, "to": 0, "n": 5, "olen": 10, "onw": 1, "ostore": [3]},
        {"op": "apply", "kind": "id", "m": []}, {"op": "apply_unchecked", "kind": "const", "m": [0]}, {"op": "iter"}]})
    # apply_in_place with spare words / dirty tail
    for wt in ("usize", "u16"):
        eps.append({"fam": "bitfield", "wt": wt, "src": "recipe", "ops": [
            {"op": "new", "width": 5, "n": 100}, {"op": "resize", "n": 3, "v": []}, {"op": "apply", "kind": "not", "m": []},
            {"op": "iter"}, {"op": "resize", "n": 30, "v": [0]}, {"op": "apply", "kind": "xorprev", "m": []}, {"op": "iter"}]})
        eps.append({"fam": "bitfield", "wt": wt, "src": "recipe", "ops": [
            {"op": "raw", "width": 5, "rlen": 3, "rnw": 3, "rstore": list(range(3 * WT[wt]))},
            {"op": "apply", "kind": "id", "m": []}, {"op": "apply", "kind": "not", "m": []}, {"op": "iter"}]})
    # full width: iterators, apply, atomic set
    for wt in WTS:
        W = WT[wt]
        ops = [{"op": "new", "width": W, "n": 4}]
        ops += [{"op": "set", "i": i, "v": distinct_val(i, W)} for i in range(4)]
        ops += [{"op": "iter"}, {"op": "iter_from", "from": 2}, {"op": "uiter", "from": 1, "n": 3}, {"op": "ruiter", "n": 4},
                {"op": "ruiter", "from": 3, "n": 2}, {"op": "apply", "kind": "not", "m": []}, {"op": "iter"},
                {"op": "into", "to": "atomic"}, {"op": "a_set", "i": 1, "v": list(range(W))}, {"op": "a_all"}]
        eps.append({"fam": "bitfield", "wt": wt, "src": "recipe", "ops": ops})
    # get_unaligned on every word type
    for wt in WTS:
        W = WT[wt]
        for width in [x for x in (1, 2, 3, W - 8, W - 7, W - 6, W - 5, W - 4, W - 1, W) if 0 < x <= W]:
            n = 20
            ops = [{"op": "new_unaligned", "width": width, "n": n}]
            ops += [{"op": "set", "i": i, "v": distinct_val(i, width)} for i in range(n)]
            ops += [{"op": "get_unaligned", "i": i} for i in range(n + 1)]
            eps.append({"fam": "bitfield", "wt": wt, "src": "recipe", "ops": ops})
    # from_slice: values wider than the word are an Err, not a panic
    for wt in ("u8", "u32", "u64"):
        eps.append({"fam": "bitfield", "wt": wt, "src": "recipe", "ops": [
            {"op": "new", "width": 3, "n": 2}, {"op": "from_slice", "via": "u128", "vals": [[0], [WT[wt]]]}, {"op": "len"},
            {"op": "from_slice", "via": "u128", "vals": [[0], [WT[wt] - 1]]}, {"op": "iter"},
            {"op": "from_slice", "via": "plain", "vals": []}, {"op": "iter"}, {"op": "bit_width"}]})
    # width zero
    for wt in ("u8", "usize", "u128"):
        eps.append({"fam": "bitfield", "wt": wt, "src": "recipe", "ops": [
            {"op": "with_capacity", "width": 0, "c": 10}, {"op": "push", "v": []}, {"op": "get", "i": 0},
            {"op": "resize", "n": 50, "v": []}, {"op": "push", "v": [0]}, {"op": "set", "i": 3, "v": [0]}, {"op": "iter"},
            {"op": "ruiter", "n": 50}, {"op": "pop"}, {"op": "extend", "vals": [[], []]}, {"op": "len"},
            {"op": "reset"}, {"op": "eq_self", "mode": "garbage", "at": 0}, {"op": "mem_size"}]})
    return eps


def plain_op(r, W, atomic_ok=True):
    """An operand and accesses for the blanket slice implementations (Vec<W>, Vec<AtomicW>)."""
    n = r.choice([0, 1, 2, 5, 9])
    vals = [rval(r, W, W, 0) for _ in range(n)]
    acts = []
    for _ in range(r.randrange(2, 9)):
        i = r.choice([0, max(0, n - 1), n, n + 1, 2 ** 64 - 1, r.randrange(n + 1)])
        k = r.choice(["get", "set", "reset", "par_reset", "len", "bit_width", "copy", "apply"] +
                     (["a_get", "a_set", "a_reset", "a_par_reset", "a_len", "a_bit_width"] if atomic_ok else ["a_get"]))
        a = {"k": k}
        if k in ("get", "set", "a_get", "a_set"):
            a["i"] = i
        if k in ("set", "a_set"):
            a["v"] = rval(r, W, W, 0)
        if k == "copy":
            m = r.choice([0, 1, 4, n])
            a.update({"dst": [rval(r, W, W, 0) for _ in range(m)], "from": r.randrange(n + 1), "to": r.randrange(m + 1),
                      "n": r.choice([0, 1, n, n + m, 2 ** 64 - 1])})
        if k == "apply":
            a.update({"kind": r.choice(["id", "not", "xor", "const", "shl1", "xorprev"]), "m": rval(r, W, W, 0)})
        acts.append(a)
    return {"op": "plain", "vals": vals, "acts": acts}


def mem_episodes(seed, count):
    """C11: vectors that are only built and grown, mem_size after every step."""
    r = random.Random(seed ^ 0xC11)
    eps = []
    for k in range(count):
        wt = WTS[k % len(WTS)]
        W = WT[wt]
        t = Tr(r, wt)
        width = rwidth(r, W)
        t.ctor(kind=r.choice(["new", "new_unaligned", "with_capacity", "from_slice", "macro", "new"]), width=width,
               n=rlen(r, W, width, maxbits=8 * W, maxlen=200))
        t.add({"op": "mem_size"})
        for _ in range(r.randrange(2, 14)):
            j = r.randrange(4)
            if j == 0:
                for _ in range(r.choice([1, 2, W // max(1, t.width) + 1])):
                    t.add({"op": "push", "v": rval(r, t.width, W, 0)}); t.n += 1
            elif j == 1:
                m = t.n + r.choice([0, 1, 2, W // max(1, t.width), 40])
                t.add({"op": "resize", "n": m, "v": rval(r, t.width, W, 0)}); t.n = m
            elif j == 2:
                vs = [rval(r, t.width, W, 0) for _ in range(r.choice([1, 3, 10]))]
                t.add({"op": "extend", "vals": vs}); t.n += len(vs)
            else:
                t.add({"op": r.choice(["set", "reset", "into", "iter"]), "i": 0, "v": [], "to": "boxed"})
                if t.ops[-1]["op"] == "into":
                    t.add({"op": "mem_size"}); t.add({"op": "into", "to": "vec"})
            t.add({"op": "mem_size"})
        if r.random() < 0.3:  # after a shrink the property no longer bounds the size
            t.add({"op": "pop"}); t.add({"op": "mem_size"}); t.add({"op": "push", "v": []}); t.add({"op": "mem_size"})
        eps.append(t.episode("mem"))
    return eps


def ood_episodes(seed, count):
    """C12: out-of-domain arguments on full, minimal and empty vectors of every
    form: index = len, len+1, 2^63, 2^64-1; start positions past the end; values
    that do not fit; chunk size 0; copy lengths beyond both vectors."""
    r = random.Random(seed ^ 0xC12)
    eps = []
    for k in range(count):
        wt = WTS[k % len(WTS)]
        W = WT[wt]
        t = Tr(r, wt)
        width = rwidth(r, W)
        n = r.choice([0, 0, 1, 2, rlen(r, W, width)])
        t.ctor(kind=r.choice(["new", "with_capacity", "raw", "new_unaligned", "a_new", "from_slice"]), width=width, n=n)
        n, width = t.n, t.width
        far = [n, n + 1, n + W, 2 ** 31 - 1, 2 ** 31, 2 ** 32, 2 ** 63 - 1, 2 ** 63, 2 ** 64 - 1]
        big = list(range(width, W))
        for _ in range(r.randrange(6, 22)):
            i = r.choice(far)
            v = rval(r, width, W, 0.5)
            if t.form in ("vec", "boxed"):
                j = r.randrange(16)
                if j == 0: t.add({"op": "get", "i": i})
                elif j == 1: t.add({"op": "set", "i": r.choice(far + [0]), "v": v})
                elif j == 2: t.add({"op": r.choice(["iter_from", "into_iter_from", "slice_iter"]), "from": r.choice(far[1:])})
                elif j == 3: t.add({"op": "uiter", "from": r.choice(far[1:]), "n": 1})
                elif j == 4: t.add({"op": "ruiter", "from": r.choice(far[1:]), "n": 1})
                elif j == 5: t.add({"op": "get_unaligned", "i": r.choice(far + [0, max(0, n - 1)])})
                elif j == 6: t.add({"op": "addr_of", "i": r.choice([n, n + 1, n + 2 * W])})
                elif j == 7: t.chunks(c=0 if width == 0 else r.choice([0, 0, 1, n + 1, 2 ** 64 - 1, 2 ** 62 + 1, n + 2]))
                elif j == 8: t.copy(cnt=r.choice([2 ** 64 - 1, 2 ** 63]))
                elif j == 9 and t.form == "vec": t.add({"op": "push", "v": sorted(set(v + big[:1]))})
                elif j == 10 and t.form == "vec": t.add({"op": "resize", "n": r.choice([n, n + 1, 0]), "v": sorted(set(v + big[-1:]))})
                elif j == 11 and t.form == "vec": t.add({"op": "pop"}); t.n = max(0, t.n - 1)
                elif j == 12: t.add({"op": "iter_len", "from": r.choice(far), "k": r.choice([0, 1, 2 ** 20])})
                elif j == 13: t.add({"op": "view_atomic_get", "i": i}); t.add({"op": "view_atomic_set", "i": i, "v": v})
                elif j == 14:
                    # the generator does not follow conversions here: afterwards any op may come,
                    # the specification says which of them apply
                    t.add({"op": "into", "to": r.choice(["boxed", "vec", "atomic", "atomic_boxed"])}); t.form = "unknown"
                else: t.add({"op": "eq_self", "mode": r.choice(["longer", "shorter", "width"]), "at": 0})
            elif t.form in ("atomic", "atomic_boxed"):
                j = r.randrange(4)
                if j == 0: t.add(via_helper(r, {"op": "a_get", "i": i}))
                elif j == 1: t.add(via_helper(r, {"op": "a_set", "i": r.choice(far + [0]), "v": v}))
                elif j == 2: t.add({"op": r.choice(["a_reset", "a_all", "a_len"])})
                else: t.add({"op": "into", "to": "vec"}); t.form = "vec"
            else:
                # form unknown to the generator: any op is fine, the spec says which apply
                t.add(r.choice([{"op": "get", "i": i}, {"op": "a_get", "i": i}, {"op": "set", "i": i, "v": v},
                                {"op": "a_set", "i": i, "v": v}, {"op": "iter_from", "from": i}, {"op": "pop"},
                                {"op": "into", "to": "vec"}, {"op": "into", "to": "boxed"}]))
            n = t.n
        t.ops += [{"op": "len"}, {"op": "iter"}, {"op": "a_len"}, {"op": "a_all"}]
        eps.append(t.episode("ood"))
    # fixed recipes: minimal and empty structures
    for wt in WTS:
        W = WT[wt]
        for width in (0, 1, W):
            eps.append({"fam": "bitfield", "wt": wt, "src": "ood", "ops": [
                {"op": "new", "width": width, "n": 0}, {"op": "get", "i": 0}, {"op": "pop"}, {"op": "iter"},
                {"op": "iter_from", "from": 0}, {"op": "iter_from", "from": 1}, {"op": "uiter", "n": 0}, {"op": "ruiter", "n": 0},
                {"op": "ruiter", "from": 1, "n": 0}, {"op": "reset"}, {"op": "apply", "kind": "not", "m": []},
                {"op": "chunks", "c": 1 if width else 0, "acts": [{"j": 0, "k": 0}]}, {"op": "chunks", "c": 0, "acts": []},
                {"op": "copy_to", "from": 0, "to": 0, "n": 2 ** 64 - 1, "olen": 0, "onw": 0, "ostore": []},
                {"op": "eq_other", "owidth": width, "olen": 0, "onw": 0, "ostore": []},
                {"op": "get_unaligned", "i": 0}, {"op": "addr_of", "i": 0}, {"op": "set", "i": 0, "v": []},
                {"op": "clear"}, {"op": "into", "to": "atomic"}, {"op": "a_get", "i": 0}, {"op": "a_set", "i": 0, "v": []},
                {"op": "a_reset"}, {"op": "a_all"}]})
    return eps


def ood_known_episodes():
    """C12 recipes for defects that are recorded, not repaired (known findings)."""
    eps = []
    for wt in ("u64", "u8"):
        # a zero-width vector over an empty caller-supplied backend satisfies the
        # safety contract of from_raw_parts, but get reads word 0
        eps.append({"fam": "bitfield", "wt": wt, "src": "ood", "ops": [
            {"op": "raw", "width": 0, "rlen": 3, "rnw": 0, "rstore": []}, {"op": "len"}, {"op": "get", "i": 0}]})
        eps.append({"fam": "bitfield", "wt": wt, "src": "ood", "ops": [
            {"op": "new", "width": 0, "n": 7}, {"op": "chunks", "c": 3, "acts": [{"j": 1, "k": 0}]}, {"op": "iter"}]})
    return eps


def overflow_episodes():
    """C12 (release profile): sizes whose bit count overflows usize."""
    eps = []
    for wt, width, n in (("u64", 2, 2 ** 63), ("usize", 4, 2 ** 62), ("u8", 8, 2 ** 61), ("u32", 2, 2 ** 63)):
        eps.append({"fam": "bitfield", "wt": wt, "src": "ood", "ops": [
            {"op": "new", "width": width, "n": n}, {"op": "len"}]})
        eps.append({"fam": "bitfield", "wt": wt, "src": "ood", "ops": [
            {"op": "new_unaligned", "width": width, "n": n}, {"op": "len"}]})
        eps.append({"fam": "bitfield", "wt": wt, "src": "ood", "ops": [
            {"op": "new", "width": width, "n": 3}, {"op": "resize", "n": n, "v": []}, {"op": "len"}, {"op": "iter"}]})
        eps.append({"fam": "bitfield", "wt": wt, "src": "ood", "ops": [
            {"op": "new", "width": width, "n": 40}, {"op": "chunks", "c": n // 2 + 1, "acts": [{"j": 0, "k": 20}]},
            {"op": "iter"}]})
    return eps


def reload_episodes(seed, count):
    """C15: build, fill, serialize, load back each way, whole query battery on
    the loaded instance (which replaces the vector under test)."""
    r = random.Random(seed ^ 0xC15)
    eps = []
    modes = ["full", "eps", "mmap", "load_full", "load_mem", "load_mmap", "eps8"]
    for k in range(count):
        wt = WTS[k % len(WTS)]
        W = WT[wt]
        t = Tr(r, wt)
        width = rwidth(r, W)
        big = k % 5 == 4      # more than 256 bytes of full words (wide comparisons / copies take other paths there)
        if big:
            width = max(width, W // 4)
        t.ctor(kind=r.choice(["new", "new", "raw", "new_unaligned", "from_slice", "with_capacity"]), width=width,
               n=r.choice([0, 1, rlen(r, W, width), rlen(r, W, width)]) if not big else (2600 // max(1, width)) + r.randrange(40))
        if t.form == "vec":
            t.fill(distinct=r.random() < 0.5)
            if r.random() < 0.3:
                t.add({"op": "pop"}); t.n = max(0, t.n - 1)
            if r.random() < 0.3:
                t.add({"op": "into", "to": "boxed"}); t.form = "boxed"
        for m in r.sample(modes, r.choice([1, 2, 3])):
            t.add({"op": "reload", "mode": m})
            t.form = "vec" if m in ("full", "load_full") else "ro"
            n = t.n
            t.ops += [{"op": "len"}, {"op": "bit_width"}, {"op": "is_empty"}, {"op": "iter"}, {"op": "into_iter"},
                      {"op": "iter_from", "from": n // 2}, {"op": "into_iter_from", "from": n}, {"op": "slice_iter", "from": n // 3},
                      {"op": "iter_len", "from": 0, "k": n // 3}, {"op": "uiter", "n": n},
                      {"op": "uiter", "from": n // 3, "n": n - n // 3}, {"op": "ruiter", "n": n},
                      {"op": "ruiter", "from": n // 2, "n": n // 2}, {"op": "eq_self", "mode": "same", "at": 0},
                      {"op": "eq_self", "mode": "garbage", "at": 0}, {"op": "eq_self", "mode": "flip_inside", "at": r.randrange(1 << 16)},
                      {"op": "get", "i": 0}, {"op": "get", "i": max(0, n - 1)}, {"op": "get", "i": n},
                      {"op": "get_unchecked", "i": n // 2}, {"op": "get_unaligned", "i": n // 2}, {"op": "addr_of", "i": n // 2},
                      {"op": "view_atomic_get", "i": n // 2}, {"op": "mem_size"}]
            if t.form == "vec" and r.random() < 0.6:
                t.add({"op": "push", "v": rval(r, t.width, W, 0)}); t.n += 1
                t.add({"op": "set", "i": 0, "v": rval(r, t.width, W, 0)})
                t.add({"op": "iter"})
        eps.append(t.episode("reload"))
    return eps
