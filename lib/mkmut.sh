#!/bin/sh
# mkmut.sh <id> : scratch worktree of /repo for an independent seeded-change agent: /tmp/m/<id>/repo, output in /tmp/m/<id>/out
set -e
n="$1"
mkdir -p /tmp/m/$n/out
[ -d /tmp/m/$n/repo ] || git -C /repo worktree add -q --detach /tmp/m/$n/repo HEAD
echo /tmp/m/$n
