#!/usr/bin/env python3
"""keepseed.py <seed-dir> <id> <caught-by...> : stores a confirmed seeded change under /verif/seeded/<id>/
(patch.diff, demo.rs, meta.json with what it breaks, what it needs to manifest, what was run, which checks caught it)."""
import json
import os
import shutil
import sys

src, sid, caught = sys.argv[1], sys.argv[2], sys.argv[3:]
dst = "/verif/seeded/%s" % sid
os.makedirs(dst, exist_ok=True)
shutil.copy(os.path.join(src, "patch.diff"), dst)
shutil.copy(os.path.join(src, "demo.rs"), dst)
meta = json.load(open(os.path.join(src, "meta.json")))
ver = json.load(open(os.path.join(src, "verify.json")))
assert ver["confirmed"], "not confirmed"
out = {
    "id": sid,
    "property": meta.get("property"),
    "summary": meta.get("summary"),
    "needs_to_manifest": meta.get("needs"),
    "files": meta.get("files"),
    "origin": "independent sub-agent given only the property text and a scratch worktree",
    "confirmed_by_me": {
        "repo_head": ver["repo_head"],
        "ran": ["cargo test --offline --test demo (unchanged tree): passes",
                "git apply patch.diff; cargo test --offline --test demo: fails",
                "cargo test --workspace --no-fail-fast --offline with the change: all existing tests pass (%ss)" % ver.get("suite_s"),
                "cargo build --release --offline with the change: builds"],
        "demo_failure_tail": ver.get("demo_tail", "")[-400:],
    },
    "checks": {c.split("=", 1)[0]: c.split("=", 1)[1] for c in caught},
}
json.dump(out, open(os.path.join(dst, "meta.json"), "w"), indent=1)
print("kept", dst)
