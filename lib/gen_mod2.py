"""Scripts for the "mod2" family (inputs only: no expected values are computed
here; Trace_Mod2 decides solvability and satisfaction).

System shapes: random rows of assorted weights, rows that are XORs of earlier
rows (dependent; with a consistent or with a contradicting constant, the
contradiction possibly confined to one bit plane), repeated rows, unused
variables, constants of the full word width; sparse 3-variable equations laid
out like the fuse graphs of VBuilder::lge_shard (mostly peelable, with a dense
core left to the Gaussian phase); out-of-domain systems for C12."""
import random

WT = {"u8": 8, "u16": 16, "u32": 32, "u64": 64, "u128": 128, "usize": 64}


def bits(x):
    out, i = [], 0
    while x:
        if x & 1:
            out.append(i)
        x >>= 1
        i += 1
    return out


def rword(r, w):
    k = r.randrange(8)
    if k == 0:
        return 0
    if k == 1:
        return (1 << w) - 1
    if k == 2:
        return 1 << r.randrange(w)
    if k == 3:
        return 1 << (w - 1)
    return r.getrandbits(w)


def xor_rows(rows, idx):
    v, c = set(), 0
    for i in idx:
        v ^= set(rows[i][0])
        c ^= rows[i][1]
    return sorted(v), c


def solve_ops(r, nv, w, rows, planted=None):
    ops = []
    algs = ["gauss", "lazy"]
    r.shuffle(algs)
    for a in algs:
        ops.append({"op": "solve", "alg": a, "ctor": r.choice(["push", "parts"])})
    if r.random() < 0.5:
        ops.append({"op": "solve", "alg": r.choice(algs), "ctor": r.choice(["push", "parts"])})
    if planted is not None:
        ops.append({"op": "check", "a": [bits(x) for x in planted]})
    ops.append({"op": "check", "a": [bits(rword(r, w)) for _ in range(nv)]})
    if r.random() < 0.3:
        ops.append({"op": "dims", "ctor": r.choice(["push", "parts"])})
    if len(rows) >= 2 and r.random() < 0.5:
        ops.append({"op": "add", "i": r.randrange(len(rows)), "j": r.randrange(len(rows))})
    return ops


def mk(src, wt, nv, rows, ops):
    return {"fam": "mod2", "src": src, "wt": wt, "nv": nv,
            "eqs": [{"v": list(v), "c": bits(c)} for (v, c) in rows], "ops": ops}


def random_system(r, max_v=40, max_e=60):
    wt = r.choice(list(WT))
    w = WT[wt]
    nv = r.choice([1, 2, 3, 5, 8, r.randrange(1, max_v + 1), r.randrange(1, max_v + 1)])
    m = r.choice([0, 1, 2, r.randrange(0, max_e + 1), r.randrange(0, max_e + 1), min(max_e, nv), min(max_e, nv + 1)])
    used = list(range(nv))
    if nv > 2 and r.random() < 0.5:          # unused variables
        used = sorted(r.sample(range(nv), r.randrange(1, nv)))
    planted = [rword(r, w) for _ in range(nv)] if r.random() < 0.7 else None
    dens = r.choice(["sparse", "sparse", "mixed", "dense"])
    rows = []
    while len(rows) < m:
        k = r.random()
        if rows and k < 0.12:                 # repeated row
            rows.append(r.choice(rows))
            continue
        if len(rows) >= 2 and k < 0.30:       # dependent row: XOR of some earlier rows
            idx = r.sample(range(len(rows)), r.randrange(2, min(len(rows), 5) + 1))
            v, c = xor_rows(rows, idx)
            if not v:
                continue
            if r.random() < 0.35:             # contradiction, possibly in a single plane
                c ^= (1 << r.randrange(w)) if r.random() < 0.7 else (rword(r, w) or 1)
            rows.append((v, c))
            continue
        if dens == "sparse":
            sz = r.choice([1, 2, 3, 3, 3, 4])
        elif dens == "dense":
            sz = r.randrange(max(1, len(used) // 2), len(used) + 1)
        else:
            sz = r.randrange(1, len(used) + 1)
        sz = max(1, min(sz, len(used)))
        v = sorted(r.sample(used, sz))
        if planted is not None and r.random() < 0.93:
            c = 0
            for x in v:
                c ^= planted[x]
        else:
            c = rword(r, w)
        rows.append((v, c))
    return mk("rand", wt, nv, rows, solve_ops(r, nv, w, rows, planted))


def fuse_system(r, m, ratio, wt=None):
    """m equations with three variables in consecutive segments, as produced
    by lge_shard for the non-peeled edges of a fuse graph."""
    wt = wt or r.choice(list(WT))
    w = WT[wt]
    s = r.choice([1, 2, 3, 4])
    seg = 1 << s
    l = max(1, -(-int(ratio * m + 0.999) // seg) - 2)
    nv = (l + 2) * seg
    planted = [rword(r, w) for _ in range(nv)] if r.random() < 0.8 else None
    rows = []
    for _ in range(m):
        f = r.randrange(l)
        v = [f * seg + r.randrange(seg), (f + 1) * seg + r.randrange(seg), (f + 2) * seg + r.randrange(seg)]
        if planted is not None:
            c = planted[v[0]] ^ planted[v[1]] ^ planted[v[2]]
        else:
            c = rword(r, w)
        rows.append((v, c))
    if planted is not None and r.random() < 0.25 and rows:
        i = r.randrange(len(rows))
        rows[i] = (rows[i][0], rows[i][1] ^ (1 << r.randrange(w)))
    ops = [{"op": "solve", "alg": "lazy", "ctor": "parts"}, {"op": "solve", "alg": "gauss", "ctor": "push"}]
    if planted is not None:
        ops.append({"op": "check", "a": [bits(x) for x in planted]})
    return mk("fuse", wt, nv, rows, ops)


def uniform3_system(r, m, ratio, wt=None):
    """Random 3-variable equations without the segment structure: below ratio
    1.22 a 2-core survives peeling, which is what exercises the hand-over from
    the lazy phase to the dense solver."""
    wt = wt or r.choice(list(WT))
    w = WT[wt]
    nv = max(3, int(ratio * m))
    planted = [rword(r, w) for _ in range(nv)] if r.random() < 0.8 else None
    rows = []
    for _ in range(m):
        v = sorted(r.sample(range(nv), 3))
        c = (planted[v[0]] ^ planted[v[1]] ^ planted[v[2]]) if planted is not None else rword(r, w)
        rows.append((v, c))
    ops = [{"op": "solve", "alg": "lazy", "ctor": r.choice(["push", "parts"])},
           {"op": "solve", "alg": "gauss", "ctor": "push"}]
    if planted is not None:
        ops.append({"op": "check", "a": [bits(x) for x in planted]})
    return mk("core", wt, nv, rows, ops)


def random_episodes(seed, count):
    r = random.Random(seed)
    return [random_system(r) for _ in range(count)]


def sparse_episodes(seed, count, max_m=120):
    r = random.Random(seed)
    out = []
    for k in range(count):
        m = r.choice([3, 5, 10, 20, 40, r.randrange(3, max_m + 1), max_m])
        ratio = r.choice([0.9, 1.0, 1.05, 1.1, 1.125, 1.23, 1.5])
        out.append(fuse_system(r, m, ratio) if k % 2 == 0 else uniform3_system(r, m, ratio))
    return out


def long_equation_system(r, huge=False):
    """a few equations with hundreds of variables (around 255 / 256 / 257: counters narrower than usize) among
    many equations of two or three variables sharing their variables: the long ones are picked up late by the lazy
    solver, with most of their variables already solved or active; planted solution (solvable)"""
    wt = r.choice(list(WT))
    w = WT[wt]
    ln = r.choice([254, 255, 256, 256, 257, 258, 300, 511, 512, 513])
    style = r.randrange(3)
    if huge:          # 16-bit counters
        ln, style, wt = r.choice([65535, 65536, 65537]), 0, "u8"
        w = WT[wt]
    nv = ln + r.choice([3, 10, 300, 2 * ln + 5])
    planted = [rword(r, w) for _ in range(nv)]
    rows = []

    def eq(v):
        v = sorted(set(v))
        c = 0
        for x in v:
            c ^= planted[x]
        rows.append((v, c))

    nlong = r.choice([1, 1, 2, 3])
    longs = []
    for _ in range(nlong):
        start = r.randrange(0, nv - ln + 1)
        v = list(range(start, start + ln)) if r.random() < 0.5 else r.sample(range(nv), ln)
        longs.append(sorted(v))
        eq(v)
    lv = longs[0]
    if style == 0:
        # chains hanging off variables of the long equation, private variables for the others
        nxt = [x for x in range(nv) if x not in set(lv)]
        r.shuffle(nxt)
        for x in lv:
            for _ in range(r.choice([0, 1, 2, 2])):
                if not nxt:
                    break
                y = nxt.pop() if r.random() < 0.8 else r.choice(range(nv))
                if y != x:
                    eq([x, y])
        for _ in range(r.randrange(0, 6)):      # short chains between outside variables
            a, b = r.sample(range(nv), 2)
            eq([a, b])
    elif style == 1:
        # random sparse equations over all the variables
        for _ in range(r.randrange(nv // 3, nv)):
            eq(r.sample(range(nv), r.choice([2, 2, 3, 3, 4])))
    else:
        # every variable of the long equation also in two short equations
        for x in lv:
            for _ in range(2):
                eq([x] + r.sample(range(nv), r.choice([1, 2])))
    r.shuffle(rows)
    ops = []
    for a in ("lazy", "gauss"):
        ops.append({"op": "solve", "alg": a, "ctor": r.choice(["push", "parts"])})
    return mk("long", wt, nv, rows, ops)


def hub_system(r):
    """the transpose of a long equation: a few variables that occur in hundreds of equations (254..513: counters and
    bucket arrays narrower than the number of equations), the equations themselves short; planted solution"""
    wt = r.choice(list(WT))
    w = WT[wt]
    deg = r.choice([254, 255, 256, 256, 257, 258, 300, 511, 512, 513])
    nhubs = r.choice([1, 1, 2, 3])
    nv = nhubs + deg + r.choice([0, 5, deg])
    planted = [rword(r, w) for _ in range(nv)]
    hubs = r.sample(range(nv), nhubs)
    others = [x for x in range(nv) if x not in hubs]
    rows = []

    def eq(v):
        v = sorted(set(v))
        c = 0
        for x in v:
            c ^= planted[x]
        rows.append((v, c))

    for h in hubs:
        for k in range(deg):
            eq([h] + r.sample(others, r.choice([1, 1, 2, 2, 3])))
    for _ in range(r.randrange(0, 20)):
        eq(r.sample(range(nv), r.choice([1, 2, 3])))
    r.shuffle(rows)
    ops = [{"op": "solve", "alg": a, "ctor": r.choice(["push", "parts"])} for a in ("lazy", "gauss")]
    return mk("hub", wt, nv, rows, ops)


def long_episodes(seed, count, huge=0):
    r = random.Random(seed ^ 0x256)
    return [long_equation_system(r) if k % 3 else hub_system(r) for k in range(count)] + \
        [long_equation_system(r, huge=True) for _ in range(huge)]


def ood_episodes(seed, count):
    """C12: equations with an empty variable list, variables at or beyond the
    declared number, repeated variables (sorted, not strictly), systems with
    zero variables, assignments of the wrong length. The unsafe constructors'
    only stated precondition (sorted lists) is respected."""
    r = random.Random(seed)
    out = []
    for _ in range(count):
        wt = r.choice(list(WT))
        w = WT[wt]
        nv = r.choice([0, 1, 2, 3, 5, 8])
        m = r.randrange(1, 7)
        rows = []
        for _ in range(m):
            k = r.randrange(6)
            if k == 0:
                v = []
            elif k == 1:
                v = sorted(r.choice([nv, nv + 1, 2 ** 31, 2 ** 32 - 1]) for _ in range(r.randrange(1, 3)))
            elif k == 2 and nv > 0:
                x = r.randrange(nv)
                v = sorted([x, x] + ([r.randrange(nv)] if r.random() < 0.5 else []))
            elif k == 3 and nv > 0:
                v = sorted(set(r.randrange(nv) for _ in range(3))) + [r.choice([nv, nv + 7])]
            elif nv > 0:
                v = sorted(set(r.randrange(nv) for _ in range(r.randrange(1, 4))))
            else:
                v = []
            rows.append((v, rword(r, w)))
        ops = [{"op": "solve", "alg": "gauss", "ctor": r.choice(["push", "parts"])},
               {"op": "solve", "alg": "lazy", "ctor": r.choice(["push", "parts"])},
               {"op": "check", "a": [bits(rword(r, w)) for _ in range(nv)]},
               {"op": "check", "a": [bits(rword(r, w)) for _ in range(r.choice([0, nv + 1, max(0, nv - 1)]))]},
               {"op": "dims", "ctor": "push"},
               {"op": "add", "i": r.randrange(m), "j": r.randrange(m)},
               {"op": "add", "i": m, "j": 0}]
        r.shuffle(ops)
        out.append(mk("ood", wt, nv, rows, ops))
    return out
