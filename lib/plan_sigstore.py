"""Family "sigstore": SigStore / ShardStore / ShardIterator (spec/SigStore.tla)."""
import gen_sigstore

FAMILY = "sigstore"
TRACE_SPEC = "Trace_SigStore"
# C11 / C15 do not apply: the stores implement neither MemSize nor (de)serialisation
# C16: "the shard index equals the signature's high bits used by the signature store" is decided on the store side here
PROPS = ["C18", "C12", "C16"]

ITER = ["MC_SigStore.MCPush", "MC_SigStore.MCInto", "MC_SigStore.MCIterBorrowed", "MC_SigStore.MCIterConsuming", "MC_SigStore.MCNextEqual",
        "MC_SigStore.MCNextAggregate", "MC_SigStore.MCNextSplit", "MC_SigStore.MCNextSplitCross"]


def mc(prop, tier):
    q = tier == "quick"
    if prop == "C16":
        return [("MC_SigStore", "MC_SigStore_cross.cfg", ["MC_SigStore.MCNextSplit", "MC_SigStore.MCNextSplitCross",
                                                          "MC_SigStore.MCNextAggregate"])]
    if prop == "C12":
        # the documented panic of into_shard_store and every bounds-checked access of the transcription
        return [("MC_SigStore", "MC_SigStore_c12.cfg" if q else "MC_SigStore_partial.cfg",
                 ITER + ["MC_SigStore.MCIterDrop"])]
    if q:
        return [("MC_SigStore", "MC_SigStore_partial.cfg", ITER + ["MC_SigStore.MCIterDrop"]),
                ("MC_SigStore", "MC_SigStore_cross.cfg", ["MC_SigStore.MCNextSplit", "MC_SigStore.MCNextSplitCross",
                                                          "MC_SigStore.MCNextAggregate"])]
    return [("MC_SigStore", "MC_SigStore_small.cfg", ITER),
            ("MC_SigStore", "MC_SigStore_partial3.cfg", ITER + ["MC_SigStore.MCIterDrop"]),
            ("MC_SigStore", "MC_SigStore_push4.cfg", ITER)]


def exports(prop, tier):
    q = tier == "quick"
    if prop == "C12":
        return []
    if prop == "C16":
        return [("tlc", "MC_SigStore", "MC_SigStore_export2.cfg")]
    if q:
        return [("tlc", "MC_SigStore", "MC_SigStore_export2.cfg"),
                ("tlc-partial", "MC_SigStore", "MC_SigStore_export_partial.cfg")]
    return [("tlc", "MC_SigStore", "MC_SigStore_export3.cfg"),
            ("tlc-partial", "MC_SigStore", "MC_SigStore_export_partial.cfg")]


def episodes(prop, tier, seed):
    q = tier == "quick"
    out = {}
    if prop == "C18":
        out["triples"] = (gen_sigstore.triple_episodes(seed, rounds=1 if q else 6)
                          + gen_sigstore.buffer_episodes(seed, 24 if q else 200), "verif")
        out["small"] = (gen_sigstore.small_random_episodes(seed, 800 if q else 10000)
                        + gen_sigstore.sigval_episodes(seed, 40 if q else 400), "verif")
        out["release"] = (gen_sigstore.triple_episodes(seed + 1, rounds=1 if q else 3, large_every=40 if q else 9)
                          + gen_sigstore.buffer_episodes(seed + 1, 8 if q else 60)
                          + gen_sigstore.small_random_episodes(seed + 1, 200 if q else 3000), "release")
    if prop == "C16":
        # every (bucket bits, shard bits, max shard bits) triple, in memory and on disk, skewed high bits (empty
        # buckets and shards): the k-th shard handed out holds exactly the signatures whose high bits are k
        out["triples"] = (gen_sigstore.triple_episodes(seed + 5, rounds=1 if q else 3), "verif")
        out["small"] = (gen_sigstore.small_random_episodes(seed + 5, 300 if q else 3000), "verif")
    if prop == "C12":
        out["ood"] = (gen_sigstore.ood_episodes(seed, 400 if q else 4000)
                      + gen_sigstore.sigval_episodes(seed + 2, 40 if q else 400), "verif")
        out["ood-release"] = (gen_sigstore.ood_episodes(seed + 3, 200 if q else 2000), "release")
    return out


def nontrivial(epi):
    ops = [o["op"] for o in epi["ops"]]
    return ("into_shard_store" in ops and ("iter" in ops or "into_iter" in ops)) or "high_bits" in ops


RULE = ("sigstore: episode = one store (kind, signature/value types, bucket bits, max shard bits) + pushes + "
        "into_shard_store + borrowed iterations + consuming iteration; non-trivial = reaches an iteration (or "
        "exercises Sig::high_bits / SigVal operators); distinct by operation list")
ASSUME = ["SigStore: bucket / shard bits <= 19 (the scripts use 0..9); values < 2^31 - 1; a returned pair is matched "
          "to a pushed one through a recorder-supplied index that the specification verifies",
          "SigStore: I/O errors of the temporary directory are tool errors, not outcomes"]
