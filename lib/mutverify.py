#!/usr/bin/env python3
"""mutverify.py <slot> <seed-dir> : independently confirms a seeded change (patch.diff + demo.rs + meta.json):
 - demo passes on the unchanged tree, - patch applies, - the whole existing suite passes with the change,
 - the demo fails with the change.  Writes <seed-dir>/verify.json. Uses scratch worktree /tmp/mr/<slot>."""
import json
import os
import subprocess
import sys
import time

slot, d = sys.argv[1], os.path.abspath(sys.argv[2])
wt = "/tmp/mr/%s" % slot
os.makedirs("/tmp/mr", exist_ok=True)
head = subprocess.check_output(["git", "-C", "/repo", "rev-parse", "HEAD"], text=True).strip()
if not os.path.isdir(wt):
    subprocess.check_call(["git", "-C", "/repo", "worktree", "add", "-q", "--detach", wt, "HEAD"])
subprocess.check_call(["git", "-C", wt, "checkout", "-q", "--detach", head])
subprocess.check_call(["git", "-C", wt, "checkout", "-q", "--", "."])
subprocess.call(["git", "-C", wt, "clean", "-fdq", "tests/"])
meta = json.load(open(os.path.join(d, "meta.json")))
demo = "demo_seed"
# a demonstration may need a non-default cargo feature (taken from the seed's own demo command)
feat = []
w = str(meta.get("demo_cmd", "")).split()
if "--features" in w and w.index("--features") + 1 < len(w):
    feat = ["--features", w[w.index("--features") + 1]]
env = dict(os.environ, CARGO_NET_OFFLINE="true")


def sh(cmd, timeout=3600):
    t0 = time.time()
    try:
        p = subprocess.run(cmd, cwd=wt, env=env, stdout=subprocess.PIPE, stderr=subprocess.STDOUT, text=True, timeout=timeout)
        return p.returncode, p.stdout, time.time() - t0
    except subprocess.TimeoutExpired as e:
        return 124, (e.stdout or b"").decode() if isinstance(e.stdout, bytes) else (e.stdout or ""), time.time() - t0


res = {"repo_head": head, "seed": d}
subprocess.check_call(["cp", os.path.join(d, "demo.rs"), os.path.join(wt, "tests", demo + ".rs")])
rc, out, t = sh(["cargo", "test", "--offline"] + feat + ["--test", demo], 1800)
res["demo_passes_without_change"] = rc == 0
r = subprocess.run(["git", "-C", wt, "apply", os.path.join(d, "patch.diff")])
res["patch_applies"] = r.returncode == 0
if r.returncode == 0:
    rc, out, t = sh(["cargo", "test", "--offline"] + feat + ["--test", demo], 1800)
    res["demo_fails_with_change"] = rc != 0
    res["demo_tail"] = out[-600:]
    os.remove(os.path.join(wt, "tests", demo + ".rs"))
    rc, out, t = sh(["cargo", "test", "--workspace", "--no-fail-fast", "--offline"], 3600)
    res["suite_passes_with_change"] = rc == 0
    res["suite_s"] = round(t)
    if rc != 0:
        res["suite_tail"] = "\n".join(l for l in out.splitlines() if "FAILED" in l or "failed" in l)[-1500:]
    rc2, out2, t2 = sh(["cargo", "build", "--release", "--offline"], 1800)
    res["release_builds"] = rc2 == 0
subprocess.call(["git", "-C", wt, "checkout", "-q", "--", "."])
subprocess.call(["git", "-C", wt, "clean", "-fdq", "tests/"])
res["confirmed"] = bool(res.get("demo_passes_without_change") and res.get("patch_applies") and
                        res.get("demo_fails_with_change") and res.get("suite_passes_with_change") and res.get("release_builds"))
json.dump(res, open(os.path.join(d, "verify.json"), "w"), indent=1)
print("CONFIRMED" if res["confirmed"] else "NOT-CONFIRMED", d, {k: v for k, v in res.items() if k not in ("demo_tail", "suite_tail")})
