"""Scripts for the "vbuild" family (inputs only: no expected results are
computed here; spec/Trace_VBuild.tla decides).

An episode names a key function (index -> key); a `build` names a key
sequence (n positions, substitutions), a value recipe and a builder
configuration; queries name key indices."""
import itertools
import random

# the builder instantiations compiled into the executor (harness/src/fam_vbuild.rs, do_build)
COMBOS = (
    [("shards", 2, "func", "box", w) for w in ("u8", "u16", "u32", "u64", "usize")]
    + [("shards", 2, "func", "bfv", w) for w in ("usize", "u8")]
    + [("shards", 2, "filter", "box", w) for w in ("u8", "u16", "u32", "u64")]
    + [("shards", 2, "filter", "bfv", w) for w in ("u64", "u8")]
    + [("noshards", 2, "func", "bfv", "usize"), ("noshards", 2, "filter", "box", "u8"),
       ("noshards", 1, "func", "bfv", "usize"), ("noshards", 1, "filter", "box", "u8"),
       ("fullsigs", 2, "func", "bfv", "usize"), ("fullsigs", 2, "filter", "box", "u8"),
       # MWHC logics: feature `mwhc` of sux, enabled in harness/Cargo.toml
       ("mwhc", 2, "func", "bfv", "usize"), ("mwhc", 2, "filter", "box", "u8"),
       ("mwhcnoshards", 2, "func", "bfv", "usize")]
)
FUNC_COMBOS = [c for c in COMBOS if c[2] == "func"]
FILTER_COMBOS = [c for c in COMBOS if c[2] == "filter"]
LOGICS = [("shards", 2), ("noshards", 2), ("noshards", 1), ("fullsigs", 2), ("mwhc", 2), ("mwhcnoshards", 2)]
WBITS = {"u8": 8, "u16": 16, "u32": 32, "u64": 64, "usize": 64}
MASK64 = (1 << 64) - 1


def limbs(x):
    v = []
    while x:
        v.append(x & 0x7fff)
        x >>= 15
    return v


# ------------------------------------------------------------------ key functions
def keyfn(r, kt):
    """(kt, keyfn): an injective index -> key function."""
    if kt == "str":
        return {"t": "str", "prefix": r.choice(["", "k", "key-", "http://example.org/a/very/long/prefix/of/more/than/64/bytes/"
                                                "so/that/the/long/input/hash/path/is/taken/"]),
                "pad": r.choice([0, 0, 1, 9, 17, 130, 250])}
    k = r.randrange(4)
    if k == 0:
        return {"t": "range", "start": 0}
    if k == 1:
        return {"t": "range", "start": r.choice([1, 7, 1 << 20, (1 << 30) - 5])}
    # a odd => injective modulo 2^64; keys spread over the whole word
    a = r.getrandbits(64) | 1
    c = r.getrandbits(64)
    return {"t": "affine", "a": limbs(a), "c": limbs(c)}


def episode(ops, kt="usize", kf=None, src="recipe", budget_ms=None):
    """budget_ms: watchdog per operation. Builds of fewer than 100 keys take
    milliseconds (up to ~150 attempts; a probe batch seconds): 2 min; up to 5000 keys hundreds of
    attempts are possible: 5 min; larger builds 15 min (shared machine)."""
    if budget_ms is None:
        n = max([o.get("n", 0) for o in ops if o.get("op") == "build"] or [0])
        budget_ms = 120000 if n < 100 else 300000 if n < 5000 else 900000
    return {"fam": "vbuild", "src": src, "kt": kt, "keyfn": kf or {"t": "range", "start": 0},
            "budget_ms": budget_ms, "ops": ops}


# ------------------------------------------------------------------ values
def vals(a=1, c=0, m=30, hi=None, vn=None):
    return {"a": a, "c": c, "m": m, "hi": [] if hi is None else [hi], "vn": [] if vn is None else [vn]}


def value_recipe(r, n, wbits, backend):
    """A value recipe that fits the value word; returns (vals, wide)."""
    k = r.randrange(6)
    cap = min(wbits, 30)
    if k == 0 and (n < (1 << cap)):                       # identity
        return vals(1, 0, cap), False
    if k == 1:                                            # constant (possibly 0: width 0)
        return vals(0, r.choice([0, 0, 1, (1 << cap) - 1, r.randrange(1 << cap)]), cap), False
    if k == 2:                                            # affine, wrapping modulo 2^m
        m = r.randrange(1, cap + 1)
        a = r.randrange(1, 1000)
        c = r.randrange(0, 1 << 20)
        if a * max(n, 1) + c >= (1 << 31):
            a, c = 1, 0
        return vals(a, c, m), False
    if k == 3 and wbits > 30:                             # top bit of the word set
        return vals(r.randrange(0, 50), r.randrange(0, 1000), 20, hi=wbits - 1), True
    if k == 4 and wbits > 30:
        return vals(1, 0, 30, hi=r.randrange(30, wbits)), True
    m = r.randrange(0, cap + 1)                           # all-ones of width m
    return vals(0, (1 << m) - 1, cap), False


# ------------------------------------------------------------------ build op
def build(n, combo=("shards", 2, "func", "bfv", "usize"), v=None, subst=None, check_dups=False, hint=None,
          faults=None, offline=None, low_mem=None, threads=None, eps=None, log2_buckets=None, seed=None, bits=None):
    logic, sig, kind, backend, wt = combo
    op = {"op": "build", "kind": kind, "backend": backend, "wt": wt, "logic": logic, "sig": sig,
          "n": n, "subst": subst or [], "vals": v or vals(), "check_dups": check_dups,
          "hint": [] if hint is None else [hint], "faults": faults or [],
          "log2_buckets": [] if log2_buckets is None else [log2_buckets],
          "bits": bits if bits is not None else WBITS[wt]}
    if offline is not None:
        op["offline"] = offline
    if low_mem is not None:
        op["low_mem"] = [low_mem]
    if threads is not None:
        op["threads"] = threads
    if eps is not None:
        op["eps"] = eps
    if seed is not None:
        op["seed"] = seed
    return op


def read_fault(src, p, i, ekind=None):
    f = {"src": src, "kind": "read", "pass": p, "idx": i}
    if ekind:
        f["ekind"] = ekind       # io::ErrorKind of the injected error (default Other)
    return f


def rewind_fault(src, k):
    return {"src": src, "kind": "rewind", "pass": k, "idx": 0}


def knobs(r, n):
    """Random performance knobs (they must never change the result). An offline
    store creates 2^log2_buckets files per attempt (0.25 ms each) and builds of
    100..1200 keys can need hundreds of attempts: few buckets there."""
    offline = r.choice([None, False, True]) if n <= 20000 else r.choice([None, False, False, True])
    if offline:
        lb = r.choice([0, 1, 2, 4]) if n < 5000 else r.choice([0, 4, 8, 10])
    else:
        lb = r.choice([None, None, 0, 4, 8, 10]) if n <= 20000 else r.choice([None, 0, 4, 8])
    return dict(offline=offline,
                low_mem=r.choice([None, False, True]),
                threads=r.choice([None, 1, 2, 4, 8]),
                eps=r.choice([None, None, "0.001", "0.01", "0.1"]),
                log2_buckets=lb,
                seed=r.choice([None, 0, 1, r.getrandbits(32), r.getrandbits(63)]))


def hint_for(r, n):
    return r.choice([None, n, n // 2, 2 * n, 400000, 10 ** 7, n + 1, max(0, n - 1)])


def sample_idx(r, n, cap=5000):
    if n <= cap:
        return list(range(n))
    s = set([0, 1, n - 1, n - 2, n // 2])
    while len(s) < cap:
        s.add(r.randrange(n))
    return sorted(s)


def func_queries(r, n, wide, extra_absent=True, reload=None, unaligned=False):
    idx = sample_idx(r, n)
    q = [{"op": "len"}, {"op": "is_empty"}, {"op": "get", "idx": idx, "wide": wide}]
    if extra_absent:
        q.append({"op": "get", "from": n, "count": 3, "wide": wide})      # never-inserted keys (C12)
    q.append({"op": "mem_size"})
    if unaligned:
        q.append({"op": "get_unaligned", "idx": idx[:2000], "wide": wide})
    for mode in reload or []:
        q += [{"op": "reload", "mode": mode}, {"op": "len"}, {"op": "get", "idx": idx, "wide": wide},
              {"op": "get", "from": n, "count": 2, "wide": wide}]
    return q


def filter_queries(r, n, hb, probe=True, reload=None, unaligned=False, max_probe_bits=12):
    idx = sample_idx(r, n)
    q = [{"op": "len"}, {"op": "is_empty"}, {"op": "hash_bits"}, {"op": "contains", "idx": idx},
         {"op": "index", "idx": idx[:2000]},
         {"op": "contains", "from": n, "count": 3}, {"op": "mem_size"}]
    if unaligned:
        q.append({"op": "contains_unaligned", "idx": idx[:2000]})
    if probe and (hb <= max_probe_bits or hb > 20):
        m = 64 * (1 << hb) if hb <= 20 else 1 << 20
        q.append({"op": "probe", "from": n + 1000, "m": m})
    for mode in reload or []:
        q += [{"op": "reload", "mode": mode}, {"op": "len"}, {"op": "hash_bits"}, {"op": "contains", "idx": idx}]
        if probe and hb <= 8:
            q.append({"op": "probe", "from": n + 1000, "m": 64 * (1 << hb)})
    return q


def unaligned_ok(width, wbits):
    return width <= wbits - 6 or width == wbits - 4 or width == wbits


# ------------------------------------------------------------------ C07: functions
def func_episode(r, n, combo=None, hint="rand", kt=None, with_knobs=True, reload=None, budget_ms=None, src="recipe"):
    combo = combo or r.choice(FUNC_COMBOS)
    wbits = WBITS[combo[4]]
    kt = kt or r.choice(["usize", "usize", "u64", "str"])
    kf = keyfn(r, kt)
    v, wide = value_recipe(r, n, wbits, combo[3])
    kn = knobs(r, n) if with_knobs else {}
    h = hint_for(r, n) if hint == "rand" else hint
    b = build(n, combo, v=v, hint=h, **kn)
    una = False
    if combo[3] == "bfv" and v["hi"] == [] and v["a"] == 1 and v["c"] == 0 and n > 0 and n - 1 < (1 << v["m"]):
        una = unaligned_ok((n - 1).bit_length(), wbits)
    return episode([b] + func_queries(r, n, wide, reload=reload, unaligned=una), kt=kt, kf=kf, src=src,
                   budget_ms=budget_ms)


def small_n_functions(seed, nmax, per_n=1):
    """every n in 0..nmax, rotating over logics / backends / key types / hints"""
    r = random.Random(seed)
    out = []
    for n in range(0, nmax + 1):
        for j in range(per_n):
            combo = FUNC_COMBOS[(n + 5 * j + seed) % len(FUNC_COMBOS)]
            out.append(func_episode(r, n, combo=combo, reload=[r.choice(["full", "eps", "mmap", "eps8"])] if n % 3 == 0 else None))
    return out


def every_combo(seed, sizes=(0, 1, 3, 64, 100, 101, 1000), kinds=("func", "filter")):
    """every compiled instantiation at a few sizes, all three reloads"""
    r = random.Random(seed)
    out = []
    for combo in COMBOS:
        if combo[2] not in kinds:
            continue
        for n in sizes:
            if combo[2] == "func":
                out.append(func_episode(r, n, combo=combo, reload=["full", "eps", "mmap", "eps8"]))
            else:
                out.append(filter_episode(r, n, combo=combo, reload=["full", "eps", "mmap", "eps8"]))
    return out


def regime_functions(seed, sizes, per_size=1, logics=None, budget_ms=None):
    """sizes around the regime switches: hints absent / exact / too small / too large"""
    r = random.Random(seed)
    out = []
    for n in sizes:
        for j in range(per_size):
            combo = r.choice([c for c in FUNC_COMBOS if (logics is None or (c[0], c[1]) in logics)])
            h = [None, n, n // 2, 2 * n, 400000, 10 ** 7, 1000][(j + n) % 7]
            e = func_episode(r, n, combo=combo, hint=h, budget_ms=budget_ms,
                             reload=[r.choice(["full", "eps", "mmap", "eps8"])] if j == 0 else None)
            out.append(e)
    return out


def regime_logics(seed, sizes=(150000, 800000), kind="func"):
    """every fuse logic (both signature widths of the unsharded one) at sizes inside and at the upper end of the
    range between the two regime switches (100000 keys for the unsharded logic, 800000 for the sharded ones): the
    sharding, the graph set-up and the expansion factor must agree on which regime a size belongs to"""
    r = random.Random(seed)
    out = []
    for n in sizes:
        for lg, sg in (("shards", 2), ("noshards", 2), ("noshards", 1), ("fullsigs", 2)):
            if kind == "func":
                v, wide = value_recipe(r, n, 64, "bfv")
                b = build(n, (lg, sg, "func", "bfv", "usize"), v=v)
                out.append(episode([b] + func_queries(r, n, wide)[:3], kt="usize", kf=keyfn(r, "usize"), src="regime-logics",
                                   budget_ms=180000))
            else:
                b = build(n, (lg, sg, "filter", "box", "u8"))
                out.append(episode([b] + filter_queries(r, n, 8, probe=False)[:4], kt="usize", kf=keyfn(r, "usize"),
                                   src="regime-logics", budget_ms=180000))
    return out


def peelers(seed, sizes=(800001,), budget_ms=None):
    """above 800000 keys the shards are peeled: the high-memory and the
    low-memory peeler, with one and with several threads, functions and filters"""
    r = random.Random(seed)
    out = []
    for n in sizes:
        for k, (low_mem, threads) in enumerate([(True, 1), (False, 4), (None, 8), (True, 8)]):
            combo = FUNC_COMBOS[(k + seed) % len(FUNC_COMBOS)] if k % 2 == 0 else FILTER_COMBOS[(k + seed) % len(FILTER_COMBOS)]
            kt = r.choice(["usize", "u64", "str"])
            kn = dict(low_mem=low_mem, threads=threads, offline=(k == 3), log2_buckets=4 if k == 3 else None)
            if combo[2] == "func":
                v, wide = value_recipe(r, n, WBITS[combo[4]], combo[3])
                b = build(n, combo, v=v, hint=r.choice([None, n]), **kn)
                out.append(episode([b] + func_queries(r, n, wide), kt=kt, kf=keyfn(r, kt), budget_ms=budget_ms))
            else:
                bits = r.randrange(1, WBITS[combo[4]] + 1) if combo[3] == "bfv" else WBITS[combo[4]]
                b = build(n, combo, bits=bits, hint=r.choice([None, n]), **kn)
                out.append(episode([b] + filter_queries(r, n, bits, max_probe_bits=10), kt=kt, kf=keyfn(r, kt),
                                   budget_ms=budget_ms))
    return out


def mwhc_shards(seed, sizes=(200000,), budget_ms=None):
    """Mwhc3Shards shards finely (eps = 0.1: four shards at 200000 keys, eight at
    10^6): several peeled shards per build, one to eight threads, both peelers,
    a duplicate found in one shard while the others are being solved"""
    r = random.Random(seed)
    out = []
    for n in sizes:
        for k, (threads, low_mem) in enumerate([(1, None), (8, None), (2, True), (4, False)]):
            eps = ["0.1", "0.01", "0.1", "0.1"][k]
            kt = r.choice(["usize", "str"])
            if k % 2 == 0:
                v, wide = value_recipe(r, n, 64, "bfv")
                b = build(n, ("mwhc", 2, "func", "bfv", "usize"), v=v, eps=eps, threads=threads, low_mem=low_mem,
                          offline=(k == 2), log2_buckets=2 if k == 2 else None)
                out.append(episode([b] + func_queries(r, n, wide), kt=kt, kf=keyfn(r, kt), budget_ms=budget_ms))
            else:
                b = build(n, ("mwhc", 2, "filter", "box", "u8"), eps=eps, threads=threads, low_mem=low_mem)
                out.append(episode([b] + filter_queries(r, n, 8, max_probe_bits=8), kt=kt, kf=keyfn(r, kt),
                                   budget_ms=budget_ms))
        # one duplicate: a worker reports it while other workers hold other shards
        at, of = r.randrange(n), r.randrange(n)
        if at != of:
            b = build(n, ("mwhc", 2, "func", "bfv", "usize"), subst=[[at, of]], check_dups=True, eps="0.1",
                      threads=r.choice([1, 4, 8]))
            out.append(episode([b, {"op": "len"}], src="dups", budget_ms=budget_ms))
    return out


def hint_matrix(seed, sizes=(1000, 5000), budget_ms=None):
    """the same key set under every hint and knob: the answers must not change"""
    r = random.Random(seed)
    out = []
    for n in sizes:
        for logic in LOGICS:
            combo = [c for c in FUNC_COMBOS if (c[0], c[1]) == logic][0]
            for h in (None, n, n // 2, 2 * n, 400000, 10 ** 7):
                out.append(func_episode(r, n, combo=combo, hint=h, budget_ms=budget_ms))
    return out


# ------------------------------------------------------------------ C08: filters
def filter_episode(r, n, combo=None, bits=None, hint="rand", kt=None, with_knobs=True, reload=None,
                   budget_ms=None, max_probe_bits=12, src="recipe"):
    combo = combo or r.choice(FILTER_COMBOS)
    wbits = WBITS[combo[4]]
    kt = kt or r.choice(["usize", "usize", "u64", "str"])
    kf = keyfn(r, kt)
    if combo[3] == "bfv":
        bits = bits if bits is not None else r.randrange(1, wbits + 1)
    else:
        bits = wbits
    kn = knobs(r, n) if with_knobs else {}
    h = hint_for(r, n) if hint == "rand" else hint
    b = build(n, combo, hint=h, bits=bits, **kn)
    una = combo[3] == "bfv" and unaligned_ok(bits, wbits)
    return episode([b] + filter_queries(r, n, bits, reload=reload, unaligned=una, max_probe_bits=max_probe_bits),
                   kt=kt, kf=kf, src=src, budget_ms=budget_ms)


def filter_widths(seed, sizes=(0, 1, 10, 1000), max_probe_bits=12, every_b=True):
    """b in 1..W::BITS for the bit-field backends, every slice word"""
    r = random.Random(seed)
    out = []
    for combo in FILTER_COMBOS:
        wbits = WBITS[combo[4]]
        bs = range(1, wbits + 1) if combo[3] == "bfv" else [wbits]
        for b in bs:
            for n in (sizes if every_b else [r.choice(sizes)]):
                out.append(filter_episode(r, n, combo=combo, bits=b, max_probe_bits=max_probe_bits))
    return out


def small_n_filters(seed, nmax):
    r = random.Random(seed)
    out = []
    for n in range(0, nmax + 1):
        combo = FILTER_COMBOS[(n + seed) % len(FILTER_COMBOS)]
        out.append(filter_episode(r, n, combo=combo, reload=[r.choice(["full", "eps", "mmap", "eps8"])] if n % 4 == 0 else None))
    return out


def regime_filters(seed, sizes, budget_ms=None, max_probe_bits=16):
    r = random.Random(seed)
    out = []
    for n in sizes:
        combo = r.choice(FILTER_COMBOS)
        out.append(filter_episode(r, n, combo=combo, budget_ms=budget_ms, max_probe_bits=max_probe_bits,
                                  hint=r.choice([None, n, n // 2, 2 * n, 400000])))
    return out


# ------------------------------------------------------------------ C17: faults and duplicates
def dup_placements():
    """every multiset over 3 keys of size <= 5 (as index sequences), duplicates or not"""
    out = []
    for size in range(0, 6):
        for ms in itertools.combinations_with_replacement(range(3), size):
            out.append(list(ms))
            if len(set(ms)) < len(ms):
                out.append(list(reversed(ms)))
    return out


def list_build(idx_list, combo, **kw):
    """a key sequence given explicitly by its indices"""
    return build(len(idx_list), combo, subst=[[p, i] for p, i in enumerate(idx_list) if p != i], **kw)


def c17_duplicates(seed, big=10000, thin=False):
    """every multiset over 3 keys of size <= 5 as key sequence, functions and
    filters, online and offline; one duplicate inside `big` keys. thin: each
    placement with one (rotating) logic instead of all six."""
    r = random.Random(seed)
    out = []
    combos = [("shards", 2, "func", "bfv", "usize"), ("shards", 2, "filter", "box", "u8"),
              ("noshards", 1, "func", "bfv", "usize"), ("fullsigs", 2, "filter", "box", "u8"),
              ("shards", 2, "func", "box", "u32"), ("noshards", 2, "filter", "box", "u8")]
    for k, ms in enumerate(dup_placements()):
        for combo in ([combos[(k + seed) % len(combos)], combos[(k + seed + 1) % 2]] if thin else combos):
            for offline in (False, True):
                dups = len(set(ms)) < len(ms)
                # without duplicates both settings of check_dups are in the domain
                for cd in ((True,) if dups else (True, False)):
                    b = list_build(ms, combo, check_dups=cd, offline=offline, hint=r.choice([None, len(ms)]),
                                   log2_buckets=r.choice([0, 1, 3]) if offline else None)
                    n = len(ms)
                    q = ([{"op": "len"}, {"op": "get", "from": 0, "count": 4, "wide": False}] if combo[2] == "func"
                         else [{"op": "len"}, {"op": "contains", "from": 0, "count": 4}])
                    kt = r.choice(["usize", "u64", "str"])
                    out.append(episode([b] + q, kt=kt, kf=keyfn(r, kt), src="dups"))
    # one duplicate inside many keys
    for combo in combos[:4]:
        for offline in (False, True):
            n = big
            at, of = r.randrange(n), r.randrange(n)
            while of == at:
                of = r.randrange(n)
            kt = r.choice(["usize", "str"])
            b = build(n, combo, subst=[[at, of]], check_dups=True, offline=offline, threads=r.choice([1, 4]),
                      log2_buckets=r.choice([0, 2, 4]) if offline else None)
            out.append(episode([b, {"op": "len"}], kt=kt, kf=keyfn(r, kt), src="dups"))
            # the same keys without the duplicate, with checking: must build
            b2 = build(n, combo, check_dups=True, offline=offline, log2_buckets=r.choice([0, 2, 4]) if offline else None)
            q = ([{"op": "len"}, {"op": "get", "idx": sample_idx(r, n, 500), "wide": False}] if combo[2] == "func"
                 else [{"op": "len"}, {"op": "contains", "idx": sample_idx(r, n, 500)}])
            out.append(episode([b2] + q, kt=kt, kf=keyfn(r, kt), src="dups"))
    return out


def c17_faults(seed, nmax=12, stride=1):
    """a fault at every (pass, index) of the key and of the value source and at
    every rewind, with duplicates + check_dups forcing four passes"""
    r = random.Random(seed)
    out = []
    combos = [("shards", 2, "func", "bfv", "usize"), ("shards", 2, "filter", "box", "u8"),
              ("noshards", 1, "func", "bfv", "usize"), ("fullsigs", 2, "func", "bfv", "usize")]
    for n in range(2, nmax + 1, stride):
        combo = combos[n % len(combos)]
        func = combo[2] == "func"
        subst = [[n - 1, r.randrange(n - 1)]]
        for offline in ((False, True) if n % 4 == 0 else (bool(n % 2),)):
            fl = []
            for p in range(0, 4):
                for i in range(0, n + 1):
                    fl.append([read_fault("key", p, i)])
                    if func and i < n:
                        fl.append([read_fault("val", p, i)])
            for k in range(1, 4):
                fl.append([rewind_fault("key", k)])
                if func:
                    fl.append([rewind_fault("val", k)])
                    fl.append([rewind_fault("val", k), rewind_fault("key", k)])
            # two faults: the first one reached wins
            for _ in range(6):
                a, b2 = r.choice(fl), r.choice(fl)
                fl.append(a + b2)
            for faults in fl:
                b = build(n, combo, subst=subst, check_dups=True, faults=faults, offline=offline,
                          log2_buckets=r.choice([0, 1, 2]) if offline else r.choice([None, 0, 4]))
                kt = r.choice(["usize", "str"])
                out.append(episode([b, {"op": "len"}], kt=kt, kf=keyfn(r, kt), src="faults"))
    # the same with error kinds that some readers retry on (Interrupted, WouldBlock): the builder must return them
    # like any other; and with a value source that holds exactly n values while the key source fails after its last
    # key (fault at index n): the key error is what must come back
    for n in range(0, nmax + 1, max(1, stride)):
        combo = combos[n % len(combos)]
        func = combo[2] == "func"
        for ek in ("interrupted", "wouldblock", "timeout"):
            for (src, p, i) in [("key", 0, r.randrange(n + 1)), ("val", 0, r.randrange(max(n, 1))), ("key", 1, 0)]:
                if src == "val" and (not func or n == 0):
                    continue
                dup = p > 0 and n >= 2
                b = build(n, combo, subst=[[n - 1, 0]] if dup else [], check_dups=dup,
                          faults=[read_fault(src, p, i, ek)], offline=bool(n % 2))
                out.append(episode([b, {"op": "len"}], kt="usize", kf=keyfn(r, "usize"), src="faults"))
        if func:
            for p in (0, 1):
                dup = p > 0 and n >= 2
                if p > 0 and not dup:
                    continue
                b = build(n, combo, v=vals(1, 0, 30, vn=n), subst=[[n - 1, 0]] if dup else [], check_dups=dup,
                          faults=[read_fault("key", p, n)])
                out.append(episode([b, {"op": "len"}], kt="usize", kf=keyfn(r, "usize"), src="faults"))
    # faults in builds that would succeed: first pass only is certain; later passes only if the build retries
    for n in range(0, nmax + 1, stride):
        combo = combos[(n + 1) % len(combos)]
        func = combo[2] == "func"
        for p in range(0, 3):
            for i in range(0, n + 1):
                for src in (("key", "val") if func and i < n else ("key",)):
                    b = build(n, combo, faults=[read_fault(src, p, i)], check_dups=bool(i % 2))
                    q = [{"op": "len"}, {"op": "get", "from": 0, "count": n + 1, "wide": False}] if func else \
                        [{"op": "len"}, {"op": "contains", "from": 0, "count": n + 1}]
                    out.append(episode([b] + q, src="faults"))
    # value source shorter than the key source (outside the properties: must fail, never Ok)
    for n in (1, 5, 12):
        for vn in (0, n - 1):
            v = vals(vn=vn)
            out.append(episode([build(n, combos[0], v=v), {"op": "len"}], src="faults"))
    return out


def c17_big_faults(seed, n=100000, budget_ms=None):
    """a fault late in a long first pass, and on the second pass of a retried build"""
    r = random.Random(seed)
    out = []
    for combo in [("shards", 2, "func", "bfv", "usize"), ("shards", 2, "filter", "box", "u8")]:
        func = combo[2] == "func"
        for (src, p, i) in [("key", 0, n - 1), ("key", 0, n), ("val", 0, n // 2), ("key", 1, 17), ("val", 1, n - 1)]:
            if src == "val" and not func:
                continue
            dup = p > 0
            b = build(n, combo, subst=[[n - 1, 5]] if dup else [], check_dups=dup, faults=[read_fault(src, p, i)])
            out.append(episode([b, {"op": "len"}], src="faults", budget_ms=budget_ms))
    return out


def c17_retry_faults(seed, thin=True):
    """builds whose first attempt ends in MaxShardTooBig (seeds found by search, MAX_SHARD_RETRY): the retry pass
    must really re-read both sources -- a clean build maps every key, a fault / a duplicate on the retry pass is
    reported, functions and filters, online and on disk"""
    r = random.Random(seed)
    out = []
    n = 200000
    for s in MAX_SHARD_RETRY[n][:1 if thin else 3]:
        for combo in [("shards", 2, "func", "bfv", "usize"), ("shards", 2, "filter", "box", "u8")]:
            func = combo[2] == "func"
            cases = [dict(), dict(faults=[read_fault("key", 1, 1234)]), dict(subst=[[n - 1, 5]], check_dups=True),
                     dict(faults=[read_fault("key", 1, n - 1)], offline=True)]
            if func:
                cases.append(dict(faults=[read_fault("val", 1, n // 2)]))
            if thin:
                cases = cases[:3] + cases[4:]
            for c in cases:
                b = build(n, combo, seed=s, **c)
                q = [{"op": "len"}]
                if not c:
                    q = func_queries(r, n, False)[:3] if func else filter_queries(r, n, 8, max_probe_bits=8)[:4]
                out.append(episode([b] + q, kt="usize", kf=RANGE0, src="retry-faults", budget_ms=120000))
    return out


# ------------------------------------------------------------------ C12: out-of-domain queries
def c12_episodes(seed):
    r = random.Random(seed)
    out = []
    for combo in COMBOS:
        for n in (0, 1, 2, 50):
            kt = r.choice(["usize", "u64", "str"])
            kf = keyfn(r, kt)
            far = [n, n + 1, 10 ** 6, (1 << 31) - 2]
            if combo[2] == "func":
                b = build(n, combo, v=vals(1, 0, min(8, WBITS[combo[4]])))
                q = [{"op": "len"}, {"op": "get", "idx": far, "wide": False},
                     {"op": "get", "from": 1000, "count": 3000, "wide": False},
                     {"op": "contains", "idx": [0]}, {"op": "hash_bits"}, {"op": "probe", "from": n, "m": 64},
                     {"op": "reload", "mode": r.choice(["eps", "mmap", "full", "eps8"])},
                     {"op": "get", "from": 1000, "count": 3000, "wide": False}]
            else:
                bits = r.randrange(1, WBITS[combo[4]] + 1) if combo[3] == "bfv" else None
                b = build(n, combo, bits=bits)
                q = [{"op": "len"}, {"op": "contains", "idx": far}, {"op": "index", "idx": far},
                     {"op": "contains", "from": 1000, "count": 3000},
                     {"op": "get", "from": 1000, "count": 100, "wide": True},
                     {"op": "reload", "mode": r.choice(["eps", "mmap", "full", "eps8"])},
                     {"op": "contains", "from": 1000, "count": 3000}]
            out.append(episode([b] + q, kt=kt, kf=kf, src="ood"))
    # queries before any build / after a failed build
    out.append(episode([{"op": "len"}, {"op": "get", "idx": [0], "wide": False}, {"op": "mem_size"},
                        {"op": "reload", "mode": "full"}], src="ood"))
    out.append(episode([build(3, COMBOS[0], faults=[read_fault("key", 0, 1)]), {"op": "len"},
                        {"op": "get", "idx": [0], "wide": False}], src="ood"))
    return out


# ------------------------------------------------------------------ C11: space
def c11_episodes(seed, thorough=False):
    r = random.Random(seed)
    out = []
    sizes = list(range(0, 140)) + [255, 256, 257, 358, 359, 1000, 1162, 1163, 3771, 3772, 5000, 12231, 12232,
                                   39669, 39670, 65536, 99999, 100000, 100001]
    if thorough:
        sizes = list(range(0, 1300)) + [s for s in sizes if s >= 1300]
        sizes += [150000, 199000, 200001, 399000, 400001, 500000, 737000, 799000, 800000, 800001, 1000000, 1500000]
    for n in sizes:
        for logic in LOGICS:
            fc = [c for c in COMBOS if (c[0], c[1]) == logic]
            combo = r.choice(fc)
            big = n > 20000
            if combo[2] == "func":
                wb = WBITS[combo[4]]
                # widths from 0 to the word size
                m = r.randrange(0, min(wb, 30) + 1)
                v = vals(0, (1 << m) - 1, 30) if r.random() < 0.5 else vals(1, 0, min(wb, 30))
                if n >= (1 << min(wb, 30)):
                    v = vals(0, (1 << m) - 1, 30)
                b = build(n, combo, v=v, hint=r.choice([None, n, 2 * n]))
            else:
                bits = r.randrange(1, WBITS[combo[4]] + 1) if combo[3] == "bfv" else None
                b = build(n, combo, bits=bits, hint=r.choice([None, n, 2 * n]))
            q = [{"op": "len"}, {"op": "mem_size"}, {"op": "reload", "mode": "full"}, {"op": "mem_size"}]
            out.append(episode([b] + q, src="space", budget_ms=None))
    # value widths just below the word size on the bit-field backend, from 100000 keys upward (the 1.135 regime):
    # a cell width rounded up to a "convenient" one (W - 4, W) costs 2-8 % there
    for n in ([100000] if not thorough else [100000, 250000, 1000000]):
        for logic in (("shards", 2), ("fullsigs", 2)):
            for w in ((59, 61, 62, 63) if thorough else r.sample([59, 61, 62, 63], 2)):
                b = build(n, (logic[0], logic[1], "func", "bfv", "usize"), v=vals(1, 0, 30, hi=w - 1))
                out.append(episode([b, {"op": "len"}, {"op": "mem_size"}], kt="usize", kf=RANGE0, src="space", budget_ms=None))
            w = r.choice([59, 61, 62, 63])
            b = build(n, ("shards", 2, "filter", "bfv", "u64"), bits=w)
            out.append(episode([b, {"op": "len"}, {"op": "mem_size"}], kt="usize", kf=RANGE0, src="space", budget_ms=None))
    return out


# ------------------------------------------------------------------ C15: reload
def c15_episodes(seed, thorough=False):
    r = random.Random(seed)
    out = every_combo(seed, sizes=(0, 1, 7, 100, 101, 1000) if not thorough else (0, 1, 2, 7, 64, 100, 101, 1000, 20000))
    for n in ([100000] if not thorough else [100000, 200000, 800000, 1000000]):
        for logic in LOGICS:
            fc = [c for c in COMBOS if (c[0], c[1]) == logic]
            for combo in fc[:2] if not thorough else fc:
                if combo[2] == "func":
                    out.append(func_episode(r, n, combo=combo, reload=["full", "eps", "mmap", "eps8"], budget_ms=None))
                else:
                    out.append(filter_episode(r, n, combo=combo, reload=["full", "eps", "mmap", "eps8"], budget_ms=None))
    return out


def without_known_space(eps):
    """The space finding F-noshards-space (FuseLge3NoShards between 100001 and
    737700 keys) is reported by the C11 check; the other properties' batches
    do not ask for mem_size on that input class again."""
    for e in eps:
        b = e["ops"][0] if e["ops"] and e["ops"][0].get("op") == "build" else None
        if b and b.get("logic") == "noshards" and 100000 < b.get("n", 0) < 737700:
            e["ops"] = [o for o in e["ops"] if o.get("op") != "mem_size"]
    return eps


def known_hang(b):
    """F-mwhc-tiny-loop: with a segment of one cell every edge of an MWHC graph is
    the same edge (2 keys), and Mwhc3NoShards derives the third vertex from the
    XOR of the two signature words, which for a power-of-two segment size is
    the XOR of the first two vertices: 4 keys can never be peeled, 9 keys
    practically never. These builds loop forever."""
    return (b.get("logic") == "mwhcnoshards" and b.get("n") in (2, 4, 9)) or \
           (b.get("logic") == "mwhc" and b.get("n") == 2)


def without_known_hangs(eps):
    """Every hang costs its whole watchdog budget: the input class of the known
    finding is exercised by `mwhc_tiny` only (thorough tier)."""
    return [e for e in eps if not any(o.get("op") == "build" and known_hang(o) for o in e["ops"])]


def mwhc_tiny():
    out = []
    for logic, n in (("mwhcnoshards", 2), ("mwhc", 2), ("mwhcnoshards", 4)):
        out.append(episode([build(n, (logic, 2, "func", "bfv", "usize")), {"op": "len"}], src="known", budget_ms=8000))
    return out


# ------------------------------------------------------------------ additions after the seeded-change round
# builder seeds whose FIRST attempt fails with MaxShardTooBig for the keys 0..n (usize, range key function):
# found by search with the executor (work/seedsearch), they make the rarely taken retry path deterministic
MAX_SHARD_RETRY = {200000: [66, 75, 87], 400000: [5, 13, 22]}
RANGE0 = {"t": "range", "start": 0}


def retry_recipes(seed, kind, sizes=(200000,), per_size=2):
    """builds whose first attempt is rejected because the largest shard is more than 1% above the average: the
    build loop must rewind both lenders and build the whole function / filter on a later attempt"""
    r = random.Random(seed)
    out = []
    for n in sizes:
        for s in MAX_SHARD_RETRY[n][:per_size]:
            if kind == "func":
                combo = ("shards", 2, "func", "bfv", "usize")
                v, wide = value_recipe(r, n, 64, "bfv")
                b = build(n, combo, v=v, seed=s, hint=r.choice([None, n]), offline=r.random() < 0.3)
                out.append(episode([b] + func_queries(r, n, wide), kt="usize", kf=RANGE0, src="retry", budget_ms=120000))
            else:
                combo = ("shards", 2, "filter", "box", "u8")
                b = build(n, combo, seed=s, hint=r.choice([None, n]))
                out.append(episode([b] + filter_queries(r, n, 8, max_probe_bits=8), kt="usize", kf=RANGE0, src="retry",
                                   budget_ms=120000))
    return out


def threshold_hints(seed, thin=True):
    """expected_num_keys on the other side of a sharding threshold than the actual number of keys: the signature
    store must be split with the shard bits of the keys actually read, as the graphs and the queries are"""
    r = random.Random(seed)
    out = []
    pairs = [(99990, 100000), (199000, 200000), (150000, 400000), (100000, 99990), (100000, 800001), (200000, 10 ** 7)]
    if thin:
        pairs = pairs[:2] + pairs[3:4]
    for j, (n, h) in enumerate(pairs):
        for lg in (("shards",) if thin else ("shards", "fullsigs")):
            offline = (j % 2 == 1)
            una = not offline
            v, wide = (vals(1, 0, 30), False) if una else value_recipe(r, n, 64, "bfv")
            b = build(n, (lg, 2, "func", "bfv", "usize"), v=v, hint=h, offline=offline)
            out.append(episode([b] + func_queries(r, n, wide, unaligned=una), kt="usize", kf=keyfn(r, "usize"),
                               src="threshold-hints", budget_ms=120000))
    return out


def sharded_logics(seed, kind, sizes=(100000, 120000), budget_ms=120000):
    """every sharding logic on key sets that are actually sharded (two shards at 100000..199999 keys), online and
    on disk with fewer buckets than shards (too-small hint / few buckets: the split branch of the on-disk store),
    one thread (more shards than workers) and several"""
    r = random.Random(seed)
    out = []
    logics = [("shards", 2), ("fullsigs", 2), ("mwhc", 2)]
    for k, n in enumerate(sizes):
        for j, (lg, sg) in enumerate(logics):
            for offline, hint, lb, threads in [(False, None, None, 1), (True, 1000, None, None), (True, None, 0, 4)]:
                if lg == "mwhc" and offline:
                    continue
                kt = r.choice(["usize", "u64", "str"])
                eps = "0.1" if lg == "mwhc" else None
                if kind == "func":
                    combo = (lg, sg, "func", "bfv", "usize")
                    # the first configuration stores identity values and is also read through the unaligned getters
                    # (a separate query path: VFunc::get_by_sig_unaligned), over every shard
                    una = not offline and threads == 1
                    v, wide = (vals(1, 0, 30), False) if una else value_recipe(r, n, 64, "bfv")
                    b = build(n, combo, v=v, hint=hint, offline=offline, log2_buckets=lb, threads=threads, eps=eps)
                    out.append(episode([b] + func_queries(r, n, wide, unaligned=una), kt=kt, kf=keyfn(r, kt), src="sharded",
                                       budget_ms=budget_ms))
                else:
                    una = lg == "shards" and not offline and threads == 1
                    combo = (lg, sg, "filter", "bfv", "u64") if una else (lg, sg, "filter", "box", "u8")
                    b = build(n, combo, hint=hint, offline=offline, log2_buckets=lb, threads=threads, eps=eps,
                              bits=8 if una else None)
                    out.append(episode([b] + filter_queries(r, n, 8, max_probe_bits=8, unaligned=una), kt=kt, kf=keyfn(r, kt),
                                       src="sharded", budget_ms=budget_ms))
    return out


def c17_sharded_dups(seed, sizes=(100000,), big=(800000,)):
    """one duplicate in a sharded key set with fewer workers than shards (the other shards are still waiting to be
    handed over when the failure is reported), functions and filters, online and on disk"""
    r = random.Random(seed)
    out = []
    for n in sizes:
        for combo, offline, threads in [(("shards", 2, "func", "bfv", "usize"), False, 1),
                                        (("shards", 2, "filter", "box", "u8"), True, 1),
                                        (("fullsigs", 2, "func", "bfv", "usize"), False, 2)]:
            at, of = n - 1 - r.randrange(100), r.randrange(n // 2)
            b = build(n, combo, subst=[[at, of]], check_dups=True, offline=offline, threads=threads,
                      log2_buckets=4 if offline else None)
            out.append(episode([b, {"op": "len"}], kt="usize", kf=keyfn(r, "usize"), src="dups", budget_ms=120000))
    for n in big:
        at, of = r.randrange(n), r.randrange(n)
        if at != of:
            b = build(n, ("shards", 2, "func", "bfv", "usize"), subst=[[at, of]], check_dups=True)
            out.append(episode([b, {"op": "len"}], kt="usize", kf=keyfn(r, "usize"), src="dups", budget_ms=120000))
    return out


def c17_dup_ranks(seed, n=10000, ranks=(0, 1, 2047, 2048, 4094, 4095, 4096, 8190, 8191, 8192, 9999), thin=False):
    """a key occurring exactly twice whose signature has a chosen rank in the sorted shard of the first attempt
    (`dup_rank`: the executor picks the key; powers of two are where a parallel scan is cut into blocks)"""
    r = random.Random(seed)
    out = []
    combos = [("shards", 2, "func", "bfv", "usize"), ("shards", 2, "filter", "box", "u8"),
              ("noshards", 1, "func", "bfv", "usize")]
    for k, rank in enumerate(ranks):
        for combo in (combos[k % 3:k % 3 + 1] if thin else combos):
            for offline in ((False,) if thin else (False, True)):
                b = build(n, combo, check_dups=True, offline=offline, seed=r.choice([0, 1, 3]),
                          v=vals(a=0, c=7, m=8))          # equal values: the redundant equation is solvable
                b["dup_rank"] = rank
                out.append(episode([b, {"op": "len"}], kt="usize", kf=RANGE0, src="dups"))
    return out


def c17_line_faults(seed, nmax=9, thin=False):
    """the keys come from sux's own LineLender over a reader that fails at a chosen line of a chosen pass with a
    chosen io::ErrorKind (UnexpectedEof = a truncated file, InvalidData, ...), or whose seek fails at a chosen
    rewind: the error must come back from the build, in the first pass and in retry passes (forced by a duplicate)"""
    r = random.Random(seed)
    out = []
    kinds = ["eof", "data", "other", "denied", "broken", "timeout"]
    combos = [("shards", 2, "func", "bfv", "usize"), ("shards", 2, "filter", "box", "u8")]
    for n in ([3, 8] if thin else range(2, nmax + 1)):
        for combo in combos:
            subst = [[n - 1, r.randrange(n - 1)]]
            for p in range(0, 4):
                for i in (sorted({0, n // 2, n - 1, n}) if thin else range(0, n + 1)):
                    ek = kinds[(p + i + n) % len(kinds)] if not thin else ("eof" if (p + i) % 2 == 0 else r.choice(kinds))
                    f = read_fault("key", p, i)
                    f["ekind"] = ek
                    if i < n and (p + i) % 3 != 0:
                        f["mid"] = True          # the reader fails after part of the line has been delivered
                    b = build(n, combo, subst=subst, check_dups=True, faults=[f])
                    b["ksrc"] = "lines"
                    out.append(episode([b, {"op": "len"}], kt="str", kf=keyfn(r, "str"), src="faults"))
            for k in range(1, 4):
                b = build(n, combo, subst=subst, check_dups=True, faults=[rewind_fault("key", k)])
                b["ksrc"] = "lines"
                out.append(episode([b, {"op": "len"}], kt="str", kf=keyfn(r, "str"), src="faults"))
        # no fault, no duplicate: the same source must build, and every key must be found
        b = build(n, combos[0], check_dups=True)
        b["ksrc"] = "lines"
        out.append(episode([b, {"op": "len"}, {"op": "get", "from": 0, "count": n + 1, "wide": False}], kt="str",
                           kf=keyfn(r, "str"), src="faults"))
    # a long text: failure late in the first pass and in a retry pass
    for (n, p, i, ek) in [(20000, 0, 19999, "eof"), (20000, 1, 10000, "eof"), (20000, 0, 20000, "data")]:
        f = read_fault("key", p, i)
        f["ekind"] = ek
        b = build(n, combos[0], subst=[[n - 1, 7]] if p > 0 else [], check_dups=p > 0, faults=[f])
        b["ksrc"] = "lines"
        out.append(episode([b, {"op": "len"}], kt="str", kf=keyfn(r, "str"), src="faults", budget_ms=60000))
    return out


def c17_heavy_dups(seed, sizes=(100000,), copies=(2000,)):
    """one key repeated so often that its shard is more than 1% above the average with every seed: the build must
    still end with DuplicateKey after a bounded number of attempts (it used to retry MaxShardTooBig forever)"""
    r = random.Random(seed)
    out = []
    for n in sizes:
        for c in copies:
            for combo, offline in [(("shards", 2, "func", "bfv", "usize"), False), (("shards", 2, "filter", "box", "u8"), True),
                                   (("fullsigs", 2, "func", "bfv", "usize"), False)]:
                start = r.randrange(n - c - 1)
                subst = [[p, 7] for p in range(start, start + c) if p != 7]
                b = build(n, combo, subst=subst, check_dups=True, offline=offline, log2_buckets=4 if offline else None,
                          threads=r.choice([None, 1, 4]))
                out.append(episode([b, {"op": "len"}], kt="usize", kf=RANGE0, src="dups", budget_ms=120000))
    return out


def c17_coarse_sig_dups(seed):
    """a user-defined signature function whose second word takes seven values only (signatures are still distinct):
    a duplicated key whose two copies are far apart in the input, with keys of the same coarse class in between,
    single store bucket (exact hint), logics whose local signature is the full signature; duplicate detection
    must not depend on equal signatures being adjacent for any particular word order"""
    r = random.Random(seed)
    out = []
    for combo in [("noshards", 2, "func", "bfv", "usize"), ("fullsigs", 2, "func", "bfv", "usize"),
                  ("noshards", 2, "filter", "box", "u8"), ("fullsigs", 2, "filter", "box", "u8")]:
        for n in (50, 1000, 20000):
            at = n - 1 - r.randrange(n // 10)
            of = r.randrange(n // 10)
            b = build(n, combo, subst=[[at, of]], check_dups=True, hint=n, offline=r.random() < 0.3, v=vals(a=0, c=3, m=8))
            out.append(episode([b, {"op": "len"}], kt="coarse", kf=RANGE0, src="dups", budget_ms=60000))
    return out


def wide_int_keys(seed, kind):
    """u128 keys that are pairwise distinct but all congruent modulo 2^64 (e.g. addresses sharing a lower half):
    the signature must depend on the whole key"""
    r = random.Random(seed)
    out = []
    for n in (2, 10, 1000, 30000):
        if kind == "func":
            combo = r.choice([("shards", 2, "func", "bfv", "usize"), ("noshards", 1, "func", "bfv", "usize")])
            v, wide = value_recipe(r, n, 64, "bfv")
            b = build(n, combo, v=v, check_dups=r.random() < 0.5)
            out.append(episode([b] + func_queries(r, n, wide), kt="u128", kf=RANGE0, src="recipe", budget_ms=60000))
        else:
            b = build(n, ("shards", 2, "filter", "box", "u8"), check_dups=r.random() < 0.5)
            out.append(episode([b] + filter_queries(r, n, 8, max_probe_bits=8), kt="u128", kf=RANGE0, src="recipe", budget_ms=60000))
    return out
