#!/bin/sh
# runsome.sh <tier> <Cnn>... : the given checks, sequentially, on /repo; one summary line per property
tier=$1; shift
cd "$(dirname "$0")/.."
for p in "$@"; do
  t0=$(date +%s)
  out=$(./check $p --tier $tier 2>&1); rc=$?
  echo "$p rc=$rc $(( $(date +%s) - t0 ))s seed=${VERIF_SEED:-default} $(echo "$out" | grep -E "tier=" | tail -1 | cut -c1-150)"
  if [ $rc -ne 0 ]; then echo "$out" | grep -E "VIOLATION|TOOL-ERROR|rejected:" | head -8 | cut -c1-500; fi
done
