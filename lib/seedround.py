#!/usr/bin/env python3
"""seedround.py <workdir e.g. C06b> <slot> <Cnn> [<Cnn>...] : for every /tmp/m/<workdir>/out/K confirm the seeded change
(mutverify) and run the given quick checks against it (mutrun); prints one summary line per seed and writes
/tmp/m/<workdir>/results.json"""
import json
import os
import subprocess
import sys

wd, slot, props = sys.argv[1], sys.argv[2], sys.argv[3:]
base = "/tmp/m/%s/out" % wd
res = {}
for k in sorted(os.listdir(base)):
    d = os.path.join(base, k)
    if not os.path.isfile(os.path.join(d, "patch.diff")):
        continue
    v = subprocess.run(["python3", "/verif/lib/mutverify.py", "v" + slot, d], stdout=subprocess.PIPE, stderr=subprocess.STDOUT, text=True)
    ok = v.stdout.startswith("CONFIRMED")
    r = {"confirmed": ok, "checks": {}}
    if ok:
        m = subprocess.run(["python3", "/verif/lib/mutrun.py", "s" + slot, os.path.join(d, "patch.diff")] + props,
                           stdout=subprocess.PIPE, stderr=subprocess.STDOUT, text=True)
        for ln in m.stdout.splitlines():
            w = ln.split()
            if w and w[0] in ("CAUGHT", "MISSED", "TOOLERR", "PATCH-DOES-NOT-APPLY"):
                r["checks"][w[1] if len(w) > 1 else "?"] = w[0]
    else:
        r["verify"] = v.stdout[-600:]
    res[k] = r
    print(wd, k, json.dumps(r)[:300], flush=True)
json.dump(res, open("/tmp/m/%s/results.json" % wd, "w"), indent=1)
