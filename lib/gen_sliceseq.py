"""Scripts for the "sliceseq" family (SliceSeq over a slice of usize): inputs only, Trace_SliceSeq decides."""
import random

HUGE = [2 ** 31 - 1, 2 ** 32, 2 ** 63, 2 ** 64 - 1]


def episodes(seed, count):
    r = random.Random(seed ^ 0x5E9)
    eps = []
    for t in range(count):
        backend = ("vec", "boxed", "ref", "from", "array")[t % 5]
        n = 4 if backend == "array" else r.choice([0, 0, 1, 2, 3, 8, 64, 65, 300])
        xs = [r.choice([0, 1, 7, 2 ** 31 - 2, r.randrange(2 ** 31 - 1)]) for _ in range(n)]
        ops = [{"op": "len"}, {"op": "is_empty"}]
        for i in sorted(set([0, 1, n - 1, n, n + 1, 2 * n + 7] + [r.randrange(n + 3) for _ in range(4)])):
            if i >= 0:
                ops.append({"op": "get", "i": i})
                if i < n:
                    ops.append({"op": "get_unchecked", "i": i})
                ops.append({"op": "into_iter_from", "k": i})
        for h in r.sample(HUGE, 2):
            ops += [{"op": "get", "i": h}, {"op": "into_iter_from", "k": h}]
        ops += [{"op": "iter"}, {"op": "into_iter"}, {"op": "eq", "other": list(xs)},
                {"op": "eq", "other": xs[:-1]}, {"op": "eq", "other": xs + [0]}]
        if n:
            y = list(xs)
            j = r.randrange(n)
            y[j] = (y[j] + 1) % (2 ** 31 - 1)
            ops.append({"op": "eq", "other": y})
        r.shuffle(ops)
        eps.append({"fam": "sliceseq", "src": "rand", "xs": xs, "backend": backend, "ops": ops})
    return eps
