"""Family "atomic": concurrent writers on AtomicBitFieldVec / AtomicBitVec under a
deterministic scheduler (spec/Atomic.tla, property C13)."""
import core
import gen_atomic

FAMILY = "atomic"
TRACE_SPEC = "Trace_Atomic"
PROPS = ["C13"]

FIELD_ACTIONS = ["MC_Atomic.MLoad1", "MC_Atomic.MCas1Ok", "MC_Atomic.MCas1Fail", "MC_Atomic.MLoad2",
                 "MC_Atomic.MCas2Ok", "MC_Atomic.MCas2Fail"]
ALL_ACTIONS = FIELD_ACTIONS + ["MC_Atomic.MRmw", "MC_Atomic.MBLoad"]


def mc(prop, tier):
    """Every interleaving (CAS retries included) of every instance of the menus:
    TypeOK NoOOB Frame NoInterference SwapLinearizable EqualsSequential; the
    *_live configurations check Termination under weak fairness."""
    if tier == "quick":
        return [("MC_Atomic", "MC_Atomic_w64_q.cfg", ALL_ACTIONS),
                ("MC_Atomic", "MC_Atomic_w8_q.cfg", FIELD_ACTIONS + ["MC_Atomic.MRmw"]),
                ("MC_Atomic", "MC_Atomic_live.cfg", ALL_ACTIONS)]
    return [("MC_Atomic", "MC_Atomic_w64.cfg", ALL_ACTIONS),
            ("MC_Atomic", "MC_Atomic_w64_4t.cfg", FIELD_ACTIONS),
            ("MC_Atomic", "MC_Atomic_w8.cfg", FIELD_ACTIONS + ["MC_Atomic.MRmw"]),
            ("MC_Atomic", "MC_Atomic_w8_4t.cfg", FIELD_ACTIONS + ["MC_Atomic.MRmw"]),
            ("MC_Atomic", "MC_Atomic_ef64.cfg", FIELD_ACTIONS + ["MC_Atomic.MRmw"]),
            ("MC_Atomic", "MC_Atomic_live_t.cfg", ALL_ACTIONS),
            ("MC_Atomic", "MC_Atomic_live8.cfg", FIELD_ACTIONS + ["MC_Atomic.MRmw"])]


def exports(prop, tier):
    """Complete schedules exported by TLC, replayed step by step on the real
    code (W = 64 on usize, W = 8 on u8) and validated by Trace_Atomic."""
    if tier == "quick":
        return [("tlc2", "MC_Atomic", "MC_Atomic_export_q.cfg"),
                ("tlc3", "MC_Atomic", "MC_Atomic_export_q3.cfg"),
                ("tlc-w8", "MC_Atomic", "MC_Atomic_export_w8_q.cfg")]
    return [("tlc", "MC_Atomic", "MC_Atomic_export_t.cfg"),
            ("tlc-boundary2", "MC_Atomic", "MC_Atomic_export_t_b2.cfg"),
            ("tlc2-allvalues", "MC_Atomic", "MC_Atomic_export_t2.cfg"),
            ("tlc-w8", "MC_Atomic", "MC_Atomic_export_w8_t.cfg"),
            ("tlc3-w8", "MC_Atomic", "MC_Atomic_export_w8_t3.cfg"),
            ("tlc-ef", "MC_Atomic", "MC_Atomic_export_ef.cfg")]


def _full_width(tier):
    """Field width = word size. Debug builds of the pinned tree assert
    bit_width != W::BITS in set_atomic_unchecked (a debug-only defect owned by
    the bitfield family), so these schedules run under the release profile."""
    eps = []
    for cfg in ["MC_Atomic_export_full_w64.cfg"] + ([] if tier == "quick" else ["MC_Atomic_export_full_w8.cfg"]):
        eps += core.tlc_export("MC_Atomic", cfg, workers=4)["episodes"]
    return eps


def episodes(prop, tier, seed):
    q = tier == "quick"
    out = {}
    out["rand"] = (gen_atomic.random_episodes(seed, 70 if q else 1500), "verif")
    out["rand-release"] = (gen_atomic.random_episodes(seed + 1, 20 if q else 500, full=True), "release")
    out["tlc-fullwidth-release"] = (_full_width(tier), "release")
    # unscheduled threads (real races): instructions that no hook announces
    out["free-release"] = (gen_atomic.free_episodes(seed + 2, 60 if q else 300, 600 if q else 1500, full=True), "release")
    out["free"] = (gen_atomic.free_episodes(seed + 3, 30 if q else 150, 300 if q else 800), "verif")
    return out


def _touched(epi):
    """(vector, word) pairs touched by the in-range jobs of each thread."""
    w, width = epi["w"], epi["width"]
    res = []
    for p in epi["prog"]:
        s = set()
        for j in p:
            if j["kind"] in ("setfield", "efset") and j["idx"] < epi["flen"]:
                lo = j["idx"] * width
                s.add(("f", lo // w))
                if width:
                    s.add(("f", (lo + width - 1) // w))
            if j["kind"] == "efset":
                s.add(("b", j["hi"] // 64))
            elif j["kind"] not in ("setfield", "efset") and j["idx"] < epi["blen"]:
                s.add(("b", j["idx"] // 64))
        res.append(s)
    return res


def nontrivial(epi):
    t = _touched(epi)
    return any(t[a] & t[b] for a in range(len(t)) for b in range(a + 1, len(t)))


RULE = ("atomic: episode = instance (widths, initial memory, per-thread jobs) + schedule; every scheduler step is one "
        "validated event; non-trivial = two threads operate on the same backing word; distinct by instance + schedule")
ASSUME = ["Atomic: memory is sequentially consistent per word (every step is one atomic operation on one word, "
          "coherent under any ordering); effects that need reordering between different words are outside the model",
          "Atomic: the scheduler serialises the worker threads at the sux_verif hook placed immediately before every "
          "atomic load / compare_exchange / fetch_or / fetch_and; get_atomic and the conversions are observed after join",
          "Atomic: batches free*: the threads run unscheduled behind a spin barrier (hundreds of repetitions per "
          "episode); each distinct outcome must satisfy what every interleaving of Atomic guarantees (NoInterference, "
          "frame, a linearization of the calls on every bit); detection of a race there is probabilistic, acceptance of "
          "correct code is not",
          "Atomic: field width = word size only under the release profile (debug_assert in the pinned tree)"]
