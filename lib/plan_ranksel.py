"""Family "ranksel": rank / select structures (spec/RankSel.tla; design models RankDesign.tla,
SelectDesign.tla, Select9Design.tla, SelectSmallDesign.tla)."""
import random

import gen_ranksel as g

FAMILY = "ranksel"
TRACE_SPEC = "Trace_RankSel"
PROPS = ["C01", "C02", "C11", "C12", "C15"]


def mc(prop, tier):
    q = tier == "quick"
    small = ("MC_RankSel", "MC_RankSel_small.cfg", ["MC_RankSel.Build", "MC_RankSel.Reload", "MC_RankSel.Query"])
    rank = [("MC_RankDesign", "MC_RankDesign_q.cfg", ["MC_RankDesign.Build"])] if q else \
        [("MC_RankDesign", "MC_RankDesign_t.cfg", ["MC_RankDesign.Build"]),
         ("MC_RankDesign", "MC_RankDesign_t2.cfg", ["MC_RankDesign.Build"]),
         ("MC_RankDesign", "MC_RankDesign_t3.cfg", ["MC_RankDesign.Build"])]
    if prop == "C01":
        return [small] + rank
    if prop == "C02":
        return [small,
                ("MC_SelectDesign", "MC_SelectDesign_q.cfg" if q else "MC_SelectDesign_t.cfg",
                 ["MC_SelectDesign.BuildAdapt"]),
                ("MC_Select9Design", "MC_Select9Design_q.cfg" if q else "MC_Select9Design_t.cfg",
                 ["MC_Select9Design.BuildSelect9"]),
                ("MC_SelectSmallDesign", "MC_SelectSmallDesign_q.cfg" if q else "MC_SelectSmallDesign_t.cfg",
                 ["MC_SelectSmallDesign.Pick", "MC_SelectSmallDesign.BuildSmall"])] + \
            ([] if q else [("MC_SelectDesign", "MC_SelectDesign_t2.cfg", ["MC_SelectDesign.BuildAdapt"])])
    if prop == "C11":
        return [small, ("MC_RankDesign", "MC_RankDesign_q.cfg", ["MC_RankDesign.Build"])] + \
            ([] if q else [("MC_Select9Design", "MC_Select9Design_q.cfg", ["MC_Select9Design.BuildSelect9"])])
    return [small]


def exports(prop, tier):
    q = tier == "quick"
    w = {"C01": "rank", "C02": "select"}.get(prop)
    if not w:
        return []
    if q:
        return [("tlc", "MC_RankSel", "MC_RankSel_exp_%s_q.cfg" % w)]
    return [("tlc", "MC_RankSel", "MC_RankSel_exp_%s_t.cfg" % w), ("tlc4", "MC_RankSel", "MC_RankSel_exp_%s_t4.cfg" % w)]


def episodes(prop, tier, seed):
    q = tier == "quick"
    scale = 2 if q else 8
    out = {}
    if prop == "C01":
        out["recipes"] = (g.main_episodes(seed, {"rank"}, None, scale), "verif")
        if not q:
            out["recipes-release"] = (g.main_episodes(seed + 1, {"rank"}, None, 2), "release")
    if prop == "C02":
        out["recipes"] = (g.main_episodes(seed + 2, {"select"}, g.has_select, scale), "verif")
        if not q:
            out["recipes-release"] = (g.main_episodes(seed + 3, {"select"}, g.has_select, 2), "release")
    if prop == "C11":
        out["mem"] = (g.c11_episodes(seed, scale), "verif")
    if prop == "C12":
        out["ood"] = (g.c12_episodes(seed, 1 if q else 3), "verif")
        out["ood-small"] = (g.main_episodes(seed + 12, {"rank", "select"}, None, 1)[:60], "verif")
        # in-domain calls must not read outside either: every span class of Select9 (sentinels of the subinventories)
        out["ood-s9"] = (g.s9_boundary_episodes(random.Random(seed + 13), {"select"}), "verif")
        if not q:
            out["ood-release"] = (g.c12_episodes(seed + 1, 1), "release")
    if prop == "C15":
        out["reload"] = (g.c15_episodes(seed, 1 if q else 2), "verif")
        if not q:
            out["reload-release"] = (g.c15_episodes(seed + 1, 1), "release")
    return out


def nontrivial(epi):
    """an episode counts when its vector has a dirty tail, or is not a single run, and a structure is built"""
    ops = epi["ops"]
    v = ops[0]
    return any(o["op"] == "build" for o in ops) and (v["tail"]["t"] != "clean" or len(v["s"]) > 1)


RULE = ("ranksel: episode = bit vector (runs of ones + tail treatment) + stacks of structures built over it + query "
        "battery on each; non-trivial = dirty tail (pop / truncate / raw garbage / spare words) or more than one run; "
        "distinct by operation list")
ASSUME = ["ranksel: bit vectors shorter than 2^31 bits (positions are plain integers); arguments >= 2^31 are the "
          "three values usize::MAX, 2^63 and 2^32",
          "ranksel: *_unchecked and hinted operations are called inside their documented preconditions only "
          "(the trace specification re-checks every precondition and every hint)"]
