#!/usr/bin/env python3
"""remap_fixes.py <branch>: after cherry-picking fix commits of a family branch into /repo main, rewrite the commit
hashes in known_findings.json (entries recorded with the worktree hash) to the hashes on main (matched by subject)."""
import json
import subprocess
import sys

br = sys.argv[1]
def log(rng):
    out = subprocess.check_output(["git", "-C", "/repo", "log", "--format=%h\t%s", rng], text=True)
    return [l.split("\t", 1) for l in out.splitlines() if l]
main = {s: h for h, s in log("main")}
fam = {h: s for h, s in log("main.." + br)}
# also hashes of already-picked commits: look at the branch's full history beyond the base
fam.update({h: s for h, s in log(br)})
d = json.load(open("/verif/known_findings.json"))
for f in d["findings"]:
    c = f.get("commit")
    if not c:
        continue
    subj = None
    for h, s in fam.items():
        if h.startswith(c) or c.startswith(h):
            subj = s
    if subj and subj in main and not main[subj].startswith(c):
        new = main[subj]
        f["commit"] = new
        if "fixed" in f:
            f["fixed"] = f["fixed"].replace(c, new)
        print("remapped", f["id"], c, "->", new)
json.dump(d, open("/verif/known_findings.json", "w"), indent=1)
