"""Scripts for the "chunks" family (FairChunks over an Elias-Fano cumulative weight function)."""
import random


def episodes(seed, count):
    r = random.Random(seed ^ 0xC4)
    eps = []
    for k in range(count):
        n = r.choice([0, 1, 2, 3, 5, 17, 64, 65, 130, 300])
        mode = r.randrange(5)
        if mode == 0:
            w = [r.randrange(0, 4) for _ in range(n)]            # many zero weights: repeated cwf values
        elif mode == 1:
            w = [r.randrange(1, 100) for _ in range(n)]
        elif mode == 2:
            w = [0] * n
        elif mode == 3:
            w = [r.choice([0, 0, 0, 1000]) for _ in range(n)]
        else:
            w = [1] * n
        tot = sum(w)
        t = r.choice([0, 1, 2, 3, max(1, tot // 7), max(1, tot // 2), tot, tot + 1, 50, 10 ** 6])
        eps.append({"fam": "chunks", "src": "rand", "wts": w, "target": t, "kind": r.choice(["new", "new_with"]),
                    "ops": [{"op": "next"}] * (min(n, tot // max(1, t) + 2) + 3)})
    return eps
