"""Per-property check plans. A plan names the bounded design models TLC
explores, the scripts that are executed on the real code and the trace
specification that decides them."""
import json

import core
import driver
import gen_bitvec

TRACE_SPEC = {"bitvec": "Trace_BitVec"}

ASSUME_COMMON = [
    "TLC (explicit-state model checker) and the TLA+ specifications under /verif/spec are the oracle",
    "the executor (harness/) reports what the real code returned; it contains no expected values",
    "integers >= 2^31-1 are logged as the sentinel 2147483647 (indices) or as base-2^15 limbs (values)",
]


def _nontrivial_bitvec(epi):
    ops = [o["op"] for o in epi["ops"]]
    shrink = any(o in ("pop", "resize") for o in ops)
    return shrink or ops[0] == "raw" or "into" in ops


def c06(run):
    q = run.tier == "quick"
    run.mc_run("MC_BitVec", "MC_BitVec_small2.cfg" if q else "MC_BitVec_small.cfg", workers=6,
               must_cover=["MC_BitVec.Construct", "MC_BitVec.Mutate"])
    eps = run.export("MC_BitVec", "MC_BitVec_w64_d2.cfg" if q else "MC_BitVec_w64_d3.cfg", workers=6)
    run.batch("tlc", "Trace_BitVec", eps, nontrivial=_nontrivial_bitvec)
    n = 1500 if q else 20000
    eps = gen_bitvec.random_episodes(run.seed, n) + gen_bitvec.atomic_ctor_episodes()
    run.batch("rand", "Trace_BitVec", eps, nontrivial=_nontrivial_bitvec)
    if not q:
        run.batch("rand-release", "Trace_BitVec", gen_bitvec.random_episodes(run.seed + 1, 5000), profile="release",
                  nontrivial=_nontrivial_bitvec)
    return run.finish(ASSUME_COMMON + ["W = 64 backends only (BitVec is implemented for usize words)"],
                      "episode = constructor + operation history + observer battery; non-trivial = contains a "
                      "shrink (pop/resize), a dirty raw start or a form conversion; distinct by operation list")


PLANS = {"C06": c06}


def run(prop, tier, seed):
    if prop not in PLANS:
        raise core.ToolError("no check for %s" % prop)
    return PLANS[prop](driver.Run(prop, tier, seed))


def replay(prop, path, seed):
    epi = json.loads(open(path).read().splitlines()[0])
    r = driver.Run(prop, "quick", seed)
    r.batch("replay", TRACE_SPEC[epi["fam"]], [epi], profile=epi.get("profile", "verif"), shards=1)
    # a replay never rewrites the evidence file
    for (e, ev, why, name, profile) in r.violations:
        print("VIOLATION property=%s replay=%s" % (prop, path))
        core.log("  rejected: reason=%s event=%s" % (why, json.dumps(ev)[:700]))
        return core.EXIT_VIOLATION
    for fid in r.known:
        print("KNOWN-FINDING: property=%s %s" % (prop, fid))
    print("replay accepted by %s" % TRACE_SPEC[epi["fam"]])
    return core.EXIT_OK
