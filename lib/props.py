"""Property plans, assembled from the family modules lib/plan_*.py.

Every family module declares which properties it contributes to (PROPS) and
provides: mc(prop, tier) -> bounded design models to check exhaustively,
exports(prop, tier) -> bounded models whose behaviours TLC exports as scripts,
episodes(prop, tier, seed) -> generated scripts. All scripts are executed on
the real code and judged by the family's trace specification."""
import glob
import importlib
import json
import os

import core
import driver

ASSUME_COMMON = [
    "TLC (explicit-state model checker) and the TLA+ specifications under /verif/spec are the oracle",
    "the executor (harness/) reports what the real code returned; it contains no expected values",
    "integers >= 2^31-1 are logged as the sentinel 2147483647 (indices) or as base-2^15 limbs (values)",
]


def families():
    here = os.path.dirname(os.path.abspath(__file__))
    mods = []
    for p in sorted(glob.glob(os.path.join(here, "plan_*.py"))):
        mods.append(importlib.import_module(os.path.basename(p)[:-3]))
    return mods


def by_family():
    return {m.FAMILY: m for m in families()}


def run(prop, tier, seed):
    fams = [m for m in families() if prop in m.PROPS]
    if not fams:
        raise core.ToolError("no check for %s" % prop)
    r = driver.Run(prop, tier, seed)
    rules, assume = [], list(ASSUME_COMMON)
    only = os.environ.get("VERIF_ONLY")     # development aid: only the batches whose name contains this
    for m in fams:
        for (module, cfg, must) in ([] if only else m.mc(prop, tier)):
            r.mc_run(module, cfg, must_cover=must)
        for (name, module, cfg) in ([] if only else m.exports(prop, tier)):
            eps = r.export(module, cfg)
            r.batch("%s-%s" % (m.FAMILY, name), m.TRACE_SPEC, eps, nontrivial=m.nontrivial)
        for name, spec in m.episodes(prop, tier, seed).items():
            if only and only not in "%s-%s" % (m.FAMILY, name):
                continue
            eps, profile = spec[0], spec[1]
            jobs = spec[2] if len(spec) > 2 else 1      # executor processes for slow episodes
            r.batch("%s-%s" % (m.FAMILY, name), m.TRACE_SPEC, eps, profile=profile, nontrivial=m.nontrivial, jobs=jobs)
            if prop == "C12" and tier == "thorough" and profile == "verif" and os.environ.get("VERIF_NO_ASAN") is None:
                # the same out-of-domain scripts under AddressSanitizer: memory errors that ub_checks cannot see
                # (raw-pointer reads) also end the process, i.e. become `abort` events
                r.batch("%s-%s-asan" % (m.FAMILY, name), m.TRACE_SPEC, eps[:4000], profile="asan", nontrivial=m.nontrivial,
                        jobs=jobs)
        rules.append(m.RULE)
        assume += m.ASSUME
    return r.finish(assume, " | ".join(rules))


def replay(prop, path, seed):
    epi = json.loads(open(path).read().splitlines()[0])
    fam = by_family()[epi["fam"]]
    r = driver.Run(prop, "replay", seed)
    r.batch("replay", fam.TRACE_SPEC, [epi], profile=epi.get("profile", "verif"), shards=1)
    # a replay never rewrites the evidence file
    for (e, ev, why, name, profile) in r.violations:
        print("VIOLATION property=%s replay=%s" % (prop, path))
        core.log("  rejected: reason=%s event=%s" % (why, json.dumps(ev)[:700]))
        return core.EXIT_VIOLATION
    for fid in r.known:
        print("KNOWN-FINDING: property=%s %s" % (prop, fid))
    print("replay accepted by %s" % fam.TRACE_SPEC)
    return core.EXIT_OK
