#!/usr/bin/env python3
"""merge_findings.py <git-rev>: resolves a merge conflict in known_findings.json by keeping ours and appending the
entries of <git-rev>:known_findings.json whose id we do not have."""
import json
import subprocess
import sys
ours = json.loads(subprocess.check_output(["git", "-C", "/verif", "show", "HEAD:known_findings.json"], text=True))
theirs = json.loads(subprocess.check_output(["git", "-C", "/verif", "show", sys.argv[1] + ":known_findings.json"], text=True))
have = {f["id"] for f in ours["findings"]}
for f in theirs["findings"]:
    if f["id"] not in have:
        ours["findings"].append(f)
        print("added", f["id"])
json.dump(ours, open("/verif/known_findings.json", "w"), indent=1)
