"""Scripts for the "ef" family (Elias-Fano). Inputs only: sequences, builders,
selection back-ends, queries. No expected result is computed here; every
event is judged by TLC against spec/EliasFano.tla (Trace_EliasFano).

Values, bounds and queries are base-2^15 limb lists; indices are plain."""
import random

M = 2 ** 64 - 1

SEQ_KINDS = ["seq", "seq_c", "seq_c0", "seq_adapt", "seq_inv", "seq_sel9", "seq_small", "seq_small3"]
DICT_KINDS = ["dict", "dict_c", "dict_adapt", "dict_small"]
SEQDICT_KINDS = ["seqdict", "seqdict_c", "seqdict_adapt", "seqdict_inv", "seqdict_sel9", "seqdict_small", "seqdict_map",
                 "seqdict_map2"]
ALL_KINDS = ["plain"] + SEQ_KINDS + DICT_KINDS + SEQDICT_KINDS
FULL_ONLY = {"seq_small", "seq_small3", "dict_small", "seqdict_small"}


def L(x):
    assert 0 <= x <= M, x
    v = []
    while x:
        v.append(x & 0x7FFF)
        x >>= 15
    return v


def has_seq(k):
    return k in SEQ_KINDS or k in SEQDICT_KINDS


def has_dict(k):
    return k in DICT_KINDS or k in SEQDICT_KINDS


def lbits(n, u):
    """the code's number of lower bits (used only to AIM inputs at bucket
    boundaries; nothing depends on it being right)"""
    q = u // max(n, 1)
    return q.bit_length() - 1 if q > 0 else 0


# --------------------------------------------------------------------------
# sequences: (xs, u) with xs non-decreasing and <= u
# --------------------------------------------------------------------------
def seq_uniform(r, n, u):
    return sorted(r.randrange(u + 1) for _ in range(n))


def seq_runs(r, n, u):
    """few distinct values, long duplicate runs (cross word boundaries when l = 0)"""
    out = []
    x = r.randrange(min(u, 3) + 1)
    while len(out) < n:
        run = r.choice([1, 2, 3, 63, 64, 65, 130])
        out += [x] * min(run, n - len(out))
        x = min(u, x + r.choice([0, 1, 1, 2, 5]))
    return out


def seq_clusters(r, n, u):
    """values packed at a few places: many consecutive empty buckets between them"""
    k = r.choice([1, 2, 3])
    centers = sorted(r.choice([0, u, u // 2, r.randrange(u + 1)]) for _ in range(k))
    w = max(1, min(u, r.choice([1, 4, n, 4 * n])))
    return sorted(min(u, max(0, r.choice(centers) + r.randrange(-w, w + 1))) for _ in range(n))


def seq_bucket_edges(r, n, u):
    """values at multiples of 2^l and one off them (gaps straddling a bucket boundary)"""
    l = lbits(n, u)
    b = 1 << l
    nb = u // b + 1
    out = []
    for _ in range(n):
        k = r.randrange(nb)
        out.append(min(u, max(0, k * b + r.choice([-1, 0, 0, 1, b - 1]))))
    return sorted(out)


def seq_ends(r, n, u):
    """several first elements equal to 0, several last elements equal to u"""
    out = sorted(r.randrange(u + 1) for _ in range(n))
    z = r.randrange(0, max(1, n // 3) + 1)
    t = r.randrange(0, max(1, n // 3) + 1)
    for j in range(min(z, n)):
        out[j] = 0
    for j in range(min(t, n)):
        out[n - 1 - j] = u
    return sorted(out)


SHAPES = [seq_uniform, seq_runs, seq_clusters, seq_bucket_edges, seq_ends]

BIG_U = [2 ** 32 - 1, 2 ** 32, 2 ** 32 + 1, 2 ** 63 - 1, 2 ** 63, 2 ** 63 + 1, M - 1, M]


def pick_nu(r, maxn):
    """(n, u): tiny cases, dense (u < n), l = 0 (u < 2n), u/n around powers of two, huge u"""
    k = r.randrange(10)
    n = r.choice([0, 1, 1, 2, 3, 5, 8, 63, 64, 65, 100, 129, 200, 257, 500, 1000])
    n = min(n, maxn)
    if k == 0:
        return n, r.choice([0, 1, 2, 3])
    if k == 1:
        return n, r.randrange(0, max(1, n))                 # u < n
    if k == 2:
        return n, r.randrange(n, 2 * n + 1)                 # l = 0
    if k in (3, 4):
        e = r.randrange(0, 40)
        return n, min(M, max(0, max(n, 1) * (1 << e) + r.choice([-2, -1, 0, 1, 2])))
    if k == 5:
        return n, r.choice(BIG_U)
    if k == 6:
        return n, r.randrange(M + 1)
    return n, r.randrange(0, max(2, 50 * max(n, 1)))


def make_seq(r, n, u):
    return r.choice(SHAPES)(r, n, u) if n > 0 else []


# --------------------------------------------------------------------------
# queries
# --------------------------------------------------------------------------
def queries(r, xs, u, cap):
    """each element, +-1, 0, u, u+1, 2^64-1, midpoints, a few random ones"""
    qs = {0, 1, u, min(M, u + 1), max(0, u - 1), M, M - 1, 2 ** 63, min(M, u + 2 ** 32)}
    base = xs if len(xs) <= cap else [xs[0], xs[-1]] + r.sample(xs, cap)
    prev = None
    for x in base:
        qs.update([x, min(M, x + 1), max(0, x - 1)])
        if prev is not None and x - prev > 1:
            qs.add((x + prev) // 2)
        prev = x
    l = lbits(len(xs), u)
    for x in base[:8]:
        b = (x >> l) << l
        qs.update([b, max(0, b - 1), min(M, b + (1 << l) - 1), min(M, b + (1 << l))])
    for _ in range(4):
        qs.add(r.randrange(min(M, u + 3) + 1))
    # the widest gap of the sequence: right after its left end, its middle, right before its right end
    wide = set()
    if len(xs) >= 2:
        j = max(range(1, len(xs)), key=lambda t: xs[t] - xs[t - 1])
        if xs[j] - xs[j - 1] > 2:
            wide = {xs[j - 1] + 1, (xs[j] + xs[j - 1]) // 2, xs[j] - 1, xs[j - 1], xs[j]}
    qs |= wide
    qs = sorted(q for q in qs if 0 <= q <= M)
    if len(qs) > 3 * cap + 12:
        keep = {0, u, min(M, u + 1), M} | wide
        qs = sorted(set(r.sample(qs, 3 * cap)) | keep)
    return qs


def succ_exists(xs, q, strict):     # precondition of succ_unchecked (input selection only)
    return bool(xs) and (xs[-1] > q if strict else xs[-1] >= q)


def pred_exists(xs, q, strict):
    return bool(xs) and (xs[0] < q if strict else xs[0] <= q)


def battery(r, xs, u, kind, cap=12, ood=True, hints=True):
    """observer operations for a built structure of the given kind"""
    n = len(xs)
    ops = [{"op": "len"}, {"op": r.choice(["iter", "into_iter"]), "hints": hints}]
    if has_seq(kind):
        idx = set([0, n - 1, n // 2, 63, 64, 65] + [r.randrange(max(1, n)) for _ in range(cap)]
                  + [k * n // 16 for k in range(16)])
        idx = sorted(i for i in idx if 0 <= i < n)
        if n <= cap:
            idx = list(range(n))
        if ood:
            idx += [n, n + 1, 2 ** 31 + 5, M]
        ops += [{"op": "get", "i": i} for i in idx]
        ks = sorted(set([0, n, max(0, n - 1), n // 2, min(n, 64), min(n, 65)]))
        if n <= 4:
            ks = list(range(n + 1))
        if ood:
            ks += [n + 1, n + 2, M]
        big = n > 400
        for k in ks:
            if big and k < n - 200 and k != 0:
                continue
            ops.append({"op": "iter_from", "k": k, "via": r.choice(["method", "trait"]),
                        "hints": hints and not (big and k == 0)})
    if has_dict(kind):
        for q in queries(r, xs, u, cap):
            ops.append({"op": r.choice(["index_of", "index_of", "contains"]), "q": L(q)})
            if kind in SEQDICT_KINDS:
                for o in r.sample(["succ", "succ_strict", "pred", "pred_strict"], 3):
                    ops.append({"op": o, "q": L(q)})
            else:
                strict = r.random() < 0.5
                if succ_exists(xs, q, strict):
                    ops.append({"op": "succ_unchecked", "q": L(q), "strict": strict})
                strict = r.random() < 0.5
                if pred_exists(xs, q, strict):
                    ops.append({"op": "pred_unchecked", "q": L(q), "strict": strict})
    if kind == "plain":
        ops.append({"op": "mem_size"})
    return ops


# --------------------------------------------------------------------------
# builders
# --------------------------------------------------------------------------
def bad_pushes(r, xs_so_far, n, u):
    """values a builder must reject now: below the last one, above u (or
    anything when the builder is full)"""
    out = []
    if len(xs_so_far) >= n:
        out.append(r.choice([u, xs_so_far[-1] if xs_so_far else 0, 0, M]))
    else:
        if xs_so_far and xs_so_far[-1] > 0:
            out.append(r.choice([xs_so_far[-1] - 1, 0, xs_so_far[-1] // 2]))
        if u < M:
            out.append(r.choice([u + 1, M, min(M, u + 2 ** 32)]))
    return [{"op": "push", "x": L(x)} for x in out]


def build_ops(r, xs, u, kind, how=None, reject=0.0):
    """operations that build xs (declared bound u) into a structure of `kind`"""
    n = len(xs)
    how = how or r.choice(["push", "push", "extend", "chunks", "mixed", "from", "cset", "cfill"])
    if how == "from":
        # From<slice> declares u = max: the abstract sequence is the same
        return [{"op": "from", "xs": [L(x) for x in xs], "kind": kind, "via": r.choice(["vec", "slice", "boxed"])}]
    if how == "cset":
        order = list(range(n))
        r.shuffle(order)
        return ([{"op": "cnew", "n": n, "u": L(u)}] + [{"op": "cset", "i": i, "x": L(xs[i])} for i in order]
                + [{"op": "build", "kind": kind}])
    if how == "cfill":
        return [{"op": "cnew", "n": n, "u": L(u)}, cfill_op(r, xs), {"op": "build", "kind": kind}]
    ops = [{"op": "new", "n": n, "u": L(u)}]
    if how == "extend":
        ops.append({"op": "extend", "xs": [L(x) for x in xs]})
    else:
        i = 0
        while i < n:
            if r.random() < reject:
                ops += bad_pushes(r, xs[:i], n, u)
            if how == "push" or (how == "mixed" and r.random() < 0.5):
                # the next value of a monotone sequence <= u satisfies the precondition of push_unchecked
                ops.append({"op": "push_unchecked" if r.random() < 0.3 else "push", "x": L(xs[i])})
                i += 1
            else:
                c = r.choice([1, 2, 3, 64, 100])
                ops.append({"op": "extend", "xs": [L(x) for x in xs[i:i + c]]})
                i += min(c, n - i)
        if r.random() < reject or (reject > 0 and n == 0):
            ops += bad_pushes(r, xs, n, u)
    ops.append({"op": "build", "kind": kind})
    return ops


def cfill_op(r, xs, threads=None, mode=None):
    """a partition of the indices over threads, each with its own order"""
    n = len(xs)
    t = threads or r.choice([1, 2, 2, 3, 4])
    style = r.randrange(4)
    idx = list(range(n))
    if style == 0:      # interleaved: neighbours (sharing words) on different threads
        parts = [idx[k::t] for k in range(t)]
    elif style == 1:    # blocks
        c = (n + t - 1) // t if n else 0
        parts = [idx[k * c:(k + 1) * c] for k in range(t)] if c else [[] for _ in range(t)]
    elif style == 2:    # random assignment
        parts = [[] for _ in range(t)]
        for i in idx:
            parts[r.randrange(t)].append(i)
    else:               # interleaved, every thread walking backwards
        parts = [list(reversed(idx[k::t])) for k in range(t)]
    if r.random() < 0.3:
        for p in parts:
            r.shuffle(p)
    return {"op": "cfill", "xs": [L(x) for x in xs], "parts": parts,
            "mode": mode or r.choice(["threads", "threads", "rayon"])}


def episode(src, ops, **kw):
    e = {"fam": "ef", "src": src, "ops": ops}
    e.update(kw)
    return e


# --------------------------------------------------------------------------
# recipes named by the properties
# --------------------------------------------------------------------------
def recipe_cases(r):
    """(xs, u) for the corner cases named in C03/C04"""
    cases = []
    for u in [0, 1, 5, 63, 64, 2 ** 32, 2 ** 63, M]:
        cases.append(([], u))                                   # empty, u > 0
    for u in [0, 1, 7, 2 ** 32 - 1, 2 ** 32 + 1, 2 ** 63, M - 1, M]:
        for x in {0, u, u // 2}:
            cases.append(([x], u))                              # n = 1
    for u in BIG_U:                                             # universe close to 2^32, 2^63, 2^64
        cases.append(([0, u // 2, u], u))
        cases.append(([u - 2, u - 1, u, u], u))
        cases.append(([u] * 5, u))
        cases.append((sorted(r.randrange(u + 1) for _ in range(40)), u))
        n = 70
        cases.append((sorted(u - r.randrange(0, 200) for _ in range(n)), u))
    # l = 0, duplicate runs crossing word boundaries of the upper bits
    for n, u in [(200, 3), (300, 100), (130, 129), (64, 0), (65, 0), (129, 1), (1000, 10), (256, 255), (500, 700)]:
        cases.append((seq_runs(r, n, u), u))
        cases.append(([0] * (n // 2) + [u] * (n - n // 2), u))
    # many consecutive empty buckets (several all-zero words of upper bits between ones)
    for n, u in [(300, 300 * 1024), (200, 10 ** 9), (130, 2 ** 40), (513, 513 * 8)]:
        h = n // 2
        cases.append(([1] * h + [u - 1] * (n - h), u))
        cases.append(([0] * (n - 1) + [u], u))
        cases.append(([0] + [u] * (n - 1), u))
        cases.append((seq_clusters(r, n, u), u))
    # gaps straddling 2^l
    for n, u in [(10, 10 * 16), (100, 100 * 8 + 3), (33, 33 * 1024 - 1), (64, 64 * 2 ** 20), (7, 7 * 2 ** 50)]:
        cases.append((seq_bucket_edges(r, n, u), u))
    # last element = u, first element = 0
    for n, u in [(2, 1), (3, 2), (5, 100), (64, 4096), (100, 99)]:
        xs = sorted(r.randrange(u + 1) for _ in range(n - 2))
        cases.append(([0] + xs + [u], u))
    return cases


def recipe_episodes(seed, kinds, per_case=1, cap=10, reject=0.3, reload_modes=(), ood=True):
    r = random.Random(seed ^ 0xEF01)
    eps = []
    for xs, u in recipe_cases(r):
        for _ in range(per_case):
            kind = r.choice(kinds)
            ops = build_ops(r, xs, u, kind, reject=reject)
            ops += battery(r, xs, u, kind, cap=cap, ood=ood)
            for m in reload_modes:
                if m != "full" and kind in FULL_ONLY:
                    continue
                ops.append({"op": "reload", "mode": m})
                ops += battery(r, xs, u, kind, cap=max(3, cap // 2), ood=ood)
            eps.append(episode("recipe", ops))
    # two densities in one sequence (upper bits with one 1 per 5..9 bits in one region, nearly all ones in the
    # other): the selection structures on the upper bits leave their usual span classes; every sequential back-end
    for dense, sparse, gap in ((5000, 1000, 48), (3000, 1500, 30), (200, 3000, 7)):
        xs = list(range(dense)) + [dense + gap * j for j in range(1, sparse + 1)]
        u = xs[-1] + r.choice([0, 1, 100])
        for kind in SEQ_KINDS + SEQDICT_KINDS[:2]:
            if kind not in kinds:
                continue
            ops = build_ops(r, xs, u, kind, how=r.choice(["extend", "from", "cfill"]))
            ops += battery(r, xs, u, kind, cap=cap, ood=False, hints=False)
            eps.append(episode("recipe", ops))
    return eps


def random_episodes(seed, count, kinds, maxn=300, cap=8, reject=0.2, reload_modes=(), ood=True):
    r = random.Random(seed ^ 0xEF02)
    eps = []
    for _ in range(count):
        n, u = pick_nu(r, maxn)
        xs = make_seq(r, n, u)
        kind = r.choice(kinds)
        ops = build_ops(r, xs, u, kind, reject=reject)
        ops += battery(r, xs, u, kind, cap=cap, ood=ood)
        for m in reload_modes:
            if r.random() < 0.5 or (m != "full" and kind in FULL_ONLY):
                continue
            ops.append({"op": "reload", "mode": m})
            ops += battery(r, xs, u, kind, cap=max(3, cap // 2), ood=ood)
        eps.append(episode("rand", ops))
    return eps


def large_episodes(seed, sizes, kinds, cap=40):
    """sequences long enough for several inventory entries / superblocks of
    the default selection structures (4096 ones per inventory entry)"""
    r = random.Random(seed ^ 0xEF03)
    eps = []
    for n in sizes:
        for shape in (seq_uniform, seq_runs, seq_clusters):
            u = r.choice([n // 2, 3 * n, n * 1000 + 7, 2 ** 40 + n, M])
            xs = shape(r, n, u)
            kind = r.choice(kinds)
            how = r.choice(["extend", "from", "cfill"])
            ops = build_ops(r, xs, u, kind, how=how) + battery(r, xs, u, kind, cap=cap, hints=True)
            eps.append(episode("large", ops, budget_ms=120000))
    return eps


# --------------------------------------------------------------------------
# rejected pushes / builder misuse (C03, second sentence)
# --------------------------------------------------------------------------
def reject_episodes(seed, count):
    r = random.Random(seed ^ 0xEF04)
    eps = []
    for _ in range(count):
        n = r.choice([0, 1, 2, 3, 5, 64, 65])
        u = r.choice([0, 1, 2, 10, 1000, 2 ** 32, M - 1, M])
        xs = make_seq(r, n, u)
        kind = r.choice(SEQ_KINDS + SEQDICT_KINDS)
        ops = build_ops(r, xs, u, kind, how=r.choice(["push", "mixed"]), reject=0.8)
        ops += battery(r, xs, u, kind, cap=6)
        eps.append(episode("reject", ops))
        # a batch containing an inadmissible value is rejected as a whole call
        if n >= 2:
            bad = list(xs)
            j = r.randrange(n)
            mode = r.randrange(3)
            if mode == 0 and u < M:
                bad[j] = min(M, u + 1 + r.randrange(3))
            elif mode == 1:
                bad = bad + [xs[-1]]                                 # one too many
            else:
                bad[j] = bad[j - 1] - 1 if j > 0 and bad[j - 1] > 0 else bad[j]
                if bad == xs:
                    bad = bad + [0]
            eps.append(episode("reject", [{"op": "new", "n": n, "u": L(u)},
                                          {"op": "extend", "xs": [L(x) for x in bad]},
                                          {"op": "push", "x": L(0)}, {"op": "build", "kind": "seq"}]))
        # an internally monotone batch that starts below the last value already accepted
        # (by push or by an earlier extend) must be rejected as well
        if n >= 2 and xs[n // 2] > 0:
            k = r.randrange(1, n)
            while k < n and xs[k - 1] == 0:
                k += 1
            if k < n and xs[k - 1] > 0:
                low = r.randrange(0, xs[k - 1])
                batch = sorted([low] + [r.randrange(low, u + 1) if u < 2 ** 40 else min(M, low + r.randrange(1000))
                                        for _ in range(r.randrange(0, n - k))])
                pre = ([{"op": "push", "x": L(x)} for x in xs[:k]] if r.random() < 0.5
                       else [{"op": "extend", "xs": [L(x) for x in xs[:k]]}])
                eps.append(episode("reject", [{"op": "new", "n": n, "u": L(u)}] + pre +
                                   [{"op": "extend", "xs": [L(x) for x in batch]},
                                    {"op": "push", "x": L(xs[k - 1])}, {"op": "build", "kind": "seq"}]))
        # From<slice> on a non-monotone slice
        if n >= 2 and xs[0] != xs[-1]:
            bad = list(xs)
            i = r.randrange(n - 1)
            j = r.randrange(i + 1, n)
            bad[i], bad[j] = bad[j], bad[i]
            eps.append(episode("reject", [{"op": "from", "xs": [L(x) for x in bad], "kind": "seq",
                                           "via": r.choice(["vec", "slice", "boxed"])}, {"op": "len"}]))
    return eps


def short_build_episodes(seed, count):
    """a sequential builder finished before all n declared values arrived"""
    r = random.Random(seed ^ 0xEF05)
    eps = []
    for _ in range(count):
        n = r.choice([1, 2, 3, 5, 64, 65, 200])
        u = r.choice([0, 1, 10, 1000, 2 ** 32, M])
        xs = make_seq(r, n, u)
        k = r.choice([0, 0, n - 1, n // 2, r.randrange(n)])
        kind = r.choice(ALL_KINDS)
        ops = [{"op": "new", "n": n, "u": L(u)}]
        ops += [{"op": "push", "x": L(x)} for x in xs[:k]] if r.random() < 0.5 else [{"op": "extend", "xs": [L(x) for x in xs[:k]]}]
        ops.append({"op": "build", "kind": kind})
        ops += battery(r, xs[:k], u, kind, cap=4)
        ops += [{"op": "get", "i": i} for i in (k, n - 1, n)] + [{"op": "iter_from", "k": k}, {"op": "iter_from", "k": n}]
        eps.append(episode("short", ops))
    return eps


# --------------------------------------------------------------------------
# C11: space
# --------------------------------------------------------------------------
def space_episodes(seed, count):
    """(n, u) with u/n just below / at / just above powers of two, tiny inputs
    where rounding dominates, dense inputs, huge u; base structure only"""
    r = random.Random(seed ^ 0xEF11)
    eps = []
    pairs = []
    for n in [0, 1, 2, 3, 5, 7, 63, 64, 65, 100, 127, 128, 1000, 1023, 1024, 4000]:
        for e in [0, 1, 2, 3, 7, 8, 15, 16, 31, 32, 33, 50]:
            for d in [-1, 0, 1]:
                u = max(n, 1) * (1 << e) + d
                if 0 <= u <= M:
                    pairs.append((n, u))
        pairs += [(n, 0), (n, max(0, n - 1)), (n, n), (n, 2 * n - 1 if n else 0), (n, 2 * n), (n, 3 * n + 1), (n, M), (n, 2 ** 63)]
    r.shuffle(pairs)
    pairs = pairs[:count] + [(r.choice([1, 3, 10, 100, 777]), r.randrange(M + 1)) for _ in range(count // 4)]
    while len(pairs) < count + count // 4:
        # further ratios around powers of two for arbitrary n
        n = r.choice([r.randrange(1, 70), r.randrange(1, 3000)])
        e = r.randrange(0, 64)
        u = n * (1 << e) + r.choice([-1, 0, 1, r.randrange(-n, n + 1)])
        if 0 <= u <= M:
            pairs.append((n, u))
    for n, u in pairs:
        xs = make_seq(r, n, u)
        how = r.choice(["extend", "push", "from", "cfill"]) if n <= 200 else r.choice(["extend", "from", "cfill"])
        if how == "from" and n:
            # From declares u = max(xs): make that the u under test
            xs = sorted(xs[:-1] + [u])
        ops = build_ops(r, xs, u, "plain", how=how)
        ops += [{"op": "mem_size"}, {"op": "len"}, {"op": "estimate_size", "n": n, "u": L(u)}]
        if r.random() < 0.3:
            ops += [{"op": "reload", "mode": "full"}, {"op": "mem_size"}]
        eps.append(episode("space", ops))
    return eps


# --------------------------------------------------------------------------
# C12: out-of-domain arguments on empty / minimal / ordinary structures
# --------------------------------------------------------------------------
def ood_episodes(seed, count):
    r = random.Random(seed ^ 0xEF12)
    eps = []
    shapes = [([], 0), ([], 5), ([], M), ([0], 0), ([7], 7), ([M], M), ([0, M], M), ([1, 5, 10], 10),
              ([3, 3, 3], 3), ([0] * 70, 0), ([5] * 64 + [9], 9), ([2 ** 63], 2 ** 63 + 1), ([10], 1000)]
    while len(shapes) < count:
        n, u = pick_nu(r, 130)
        shapes.append((make_seq(r, n, u), u))
    big = [2 ** 31 - 2, 2 ** 31 - 1, 2 ** 31, 2 ** 32, 2 ** 63, M - 1, M]
    for xs, u in shapes:
        n = len(xs)
        kind = r.choice(SEQ_KINDS + DICT_KINDS + SEQDICT_KINDS + SEQDICT_KINDS)
        ops = build_ops(r, xs, u, kind, reject=0.5)
        if has_seq(kind):
            for i in [n, n + 1, n + 63, n + 64] + big:
                ops.append({"op": "get", "i": i})
            for k in [n, n + 1, n + 2, n + 64] + big:
                ops.append({"op": "iter_from", "k": k, "via": r.choice(["method", "trait"])})
        if has_dict(kind):
            l = lbits(n, u)
            qs = {min(M, u + 1), min(M, u + 2), min(M, u + (1 << l)), min(M, (u | ((1 << l) - 1)) + 1),
                  min(M, u + 64 * (1 << l)), min(M, 2 * u + 1), 2 ** 32, 2 ** 63, M - 1, M, 0, u}
            for q in sorted(qs):
                for o in (["index_of", "contains"] + (["succ", "succ_strict", "pred", "pred_strict"]
                                                      if kind in SEQDICT_KINDS else [])):
                    ops.append({"op": o, "q": L(q)})
                if kind in DICT_KINDS:
                    for strict in (False, True):
                        if pred_exists(xs, q, strict):
                            ops.append({"op": "pred_unchecked", "q": L(q), "strict": strict})
                        if succ_exists(xs, q, strict):
                            ops.append({"op": "succ_unchecked", "q": L(q), "strict": strict})
        ops += [{"op": "len"}, {"op": "iter"}]
        eps.append(episode("ood", ops))
    return eps


# --------------------------------------------------------------------------
# C13: concurrent builder == sequential builder
# --------------------------------------------------------------------------
def conc_episodes(seed, count, maxn=1500):
    r = random.Random(seed ^ 0xEF13)
    eps = []
    for c in range(count):
        n = r.choice([0, 1, 2, 3, 7, 64, 65, 129, 300, 1000, 1000, maxn, maxn])
        n = min(n, maxn)
        # lower-bit widths whose fields share words and straddle word boundaries
        l = r.choice([0, 1, 1, 2, 3, 3, 5, 7, 13, 21, 31, 33, 47, 57])
        u = min(M, max(n, 1) * (1 << l) + r.choice([0, 1, (1 << l) - 1]))
        xs = make_seq(r, n, u)
        kind = r.choice(["plain", "seq", "seqdict", "seqdict_c", "seq_adapt"])
        if c % 5 == 4:
            # arbitrary index order through single calls of set
            ops = build_ops(r, xs, u, kind, how="cset") if n <= 300 else build_ops(r, xs, u, kind, how="cfill")
        else:
            ops = [{"op": "cnew", "n": n, "u": L(u)},
                   cfill_op(r, xs, threads=r.choice([2, 3, 4, 8]), mode=r.choice(["threads", "threads", "rayon"])),
                   {"op": "build", "kind": kind}]
        ops += [{"op": "len"}, {"op": "iter", "hints": False}]
        if has_seq(kind):
            ops += [{"op": "get", "i": i} for i in sorted(set([0, n - 1, n // 2] + [r.randrange(max(n, 1)) for _ in range(6)])) if 0 <= i < n]
        if kind in SEQDICT_KINDS:
            for q in queries(r, xs, u, 3)[:10]:
                ops.append({"op": r.choice(["succ", "pred", "index_of"]), "q": L(q)})
        if kind == "plain":
            ops.append({"op": "mem_size"})
        eps.append(episode("conc", ops, budget_ms=60000, jitter=(c % 4 != 3)))
    return eps


# --------------------------------------------------------------------------
# C15: reload
# --------------------------------------------------------------------------
def reload_episodes(seed, count):
    r = random.Random(seed ^ 0xEF15)
    eps = []
    modes = ["full", "eps", "mmap", "eps8"]
    cases = [([], 0), ([], 9), ([4], 4), ([M], M), ([0, 0, 0], 0), ([1, 5, 10], 10)]
    # dense clusters separated by hundreds of empty buckets (several all-zero words of upper bits between them)
    for (a0, cnt, gap, cnt2) in ((0, 100, 99800, 100), (5, 64, 1 << 20, 3), (1000, 300, 700000, 300), (0, 129, 1 << 33, 65)):
        xs = list(range(a0, a0 + cnt)) + list(range(a0 + cnt + gap, a0 + cnt + gap + cnt2))
        cases.append((xs, xs[-1] + 1))
        cases.append((xs, xs[-1] + 12345))
    k = 0
    while len(cases) < count:
        n, u = pick_nu(r, 600)
        cases.append((make_seq(r, n, u), u))
    for xs, u in cases:
        kind = ALL_KINDS[k % len(ALL_KINDS)]
        k += 1
        ops = build_ops(r, xs, u, kind)
        ops += battery(r, xs, u, kind, cap=5, ood=False)
        ms = list(modes)
        r.shuffle(ms)
        for m in ms:
            if m != "full" and kind in FULL_ONLY:
                continue
            ops.append({"op": "reload", "mode": m})
            ops += battery(r, xs, u, kind, cap=8, ood=True)
        eps.append(episode("reload", ops))
    return eps
