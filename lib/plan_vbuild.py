"""Family "vbuild": VBuilder / VFunc / VFilter (spec/VBuild.tla, spec/ParSolve.tla).

C07  functions: every small n, every compiled builder instantiation, sizes at the
     regime switches, hints absent / exact / too small / too large, knobs
C08  filters: no false negatives, len, hash_bits, false-positive acceptance rule
C17  duplicates and injected I/O / rewind faults (TLC-enumerated scenarios + recipes)
C16  build-time and query-time edges agree: sharded functions / filters answered through every
     query path (aligned and unaligned getters), hints across a sharding threshold
C20  the builder rewinds both sources after every failed attempt (retry recipes)
C11  mem_size against the documented bound, C12 never-inserted keys and empty
     structures, C15 the three reload paths."""
import gen_vbuild as g

FAMILY = "vbuild"
TRACE_SPEC = "Trace_VBuild"
PROPS = ["C07", "C08", "C17", "C11", "C12", "C15", "C16", "C20"]

LOOP_ACTIONS = ["MC_VBuild." + a for a in (
    "ApplyHint", "BeginAttempt", "ReadKeyOk", "ReadKeyIoError", "ReadValOk", "ReadValIoError", "EndOfKeys",
    "SetUpShards", "IntoShardStore", "CheckMaxShard", "SetUpGraphs", "SolveOk", "SolveDuplicateSignature",
    "SolveUnsolvable", "Classify", "RewindOk", "RewindError", "ReturnOk", "ReturnErr")]
PAR_ACTIONS = ["ParSolve." + a for a in ("FeederSend", "FeederSendFails", "FeederDrop", "MainError", "MainOk")]
PEEL_ACTIONS = ["Peel." + a for a in ("PeelStep", "PeelEnd", "AssignStep", "AssignEnd")]

REGIME_Q = [99, 100, 101, 99999, 100000, 100001, 199999, 799999, 800000, 800001]
REGIME_T = [98, 99, 100, 101, 102, 49999, 50000, 99999, 100000, 100001, 149999, 199999, 200000, 200001, 399999,
            400000, 400001, 799999, 800000, 800001, 1000000]


def mc(prop, tier):
    q = tier == "quick"
    if prop == "C07":
        return [("MC_VBuild", "MC_VBuild_small.cfg" if q else "MC_VBuild_full.cfg", LOOP_ACTIONS),
                ("MC_ParSolve", "MC_ParSolve_q.cfg" if q else "MC_ParSolve.cfg", PAR_ACTIONS),
                ("MC_ParSolve", "MC_ParSolve_one.cfg", ["ParSolve.MainOk"]),
                ("MC_Peel", "MC_Peel_q.cfg" if q else "MC_Peel.cfg", PEEL_ACTIONS)]
    if prop == "C17":
        return [("MC_VBuild", "MC_VBuild_small.cfg" if q else "MC_VBuild_full.cfg", LOOP_ACTIONS),
                ("MC_VBuild", "MC_VBuild_live_q.cfg" if q else "MC_VBuild_live.cfg", LOOP_ACTIONS)]
    if prop == "C08":
        return [("MC_VBuild", "MC_VBuild_small.cfg", LOOP_ACTIONS)] if not q else []
    return []


def exports(prop, tier):
    q = tier == "quick"
    if prop == "C17":
        return [("tlc", "MC_VBuild", "MC_VBuild_export_q.cfg" if q else "MC_VBuild_export.cfg")]
    return []


def episodes(prop, tier, seed):
    q = tier == "quick"
    out = {}
    if prop == "C07":
        out["small"] = (g.small_n_functions(seed, 130 if q else 1000, per_n=1 if q else 2), "verif")
        out["combos"] = (g.every_combo(seed + 1, sizes=(0, 1, 3, 100, 101, 1000), kinds=("func",)), "verif")
        out["hints"] = (g.hint_matrix(seed + 2, sizes=(1000,) if q else (1000, 5000, 30000)), "verif")
        out["regimes"] = (g.regime_functions(seed + 3, REGIME_Q if q else REGIME_T, per_size=1 if q else 7), "verif")
        out["peelers"] = (g.peelers(seed + 7, sizes=(800001,) if q else (800001, 1000000, 2000000, 20000001)), "verif")
        out["regime-logics"] = (g.regime_logics(seed + 15, sizes=(150000, 800000) if q else (100001, 150000, 500000, 800000)), "verif")
        out["mwhc-shards"] = (g.mwhc_shards(seed + 9, sizes=(200000,) if q else (200000, 1000000, 3000000)), "verif")
        out["sharded"] = (g.sharded_logics(seed + 11, "func", sizes=(100000,) if q else (100000, 120000, 199999)), "verif")
        out["wide-keys"] = (g.wide_int_keys(seed + 14, "func"), "verif")
        out["retry"] = (g.retry_recipes(seed + 12, "func", sizes=(200000,) if q else (200000, 400000), per_size=1 if q else 3), "verif")
        if not q:
            out["small-release"] = (g.small_n_functions(seed + 4, 300), "release")
            out["regimes-release"] = (g.regime_functions(seed + 5, REGIME_T, per_size=3), "release")
            out["hints-release"] = (g.hint_matrix(seed + 6, sizes=(1000, 100000, 200000)), "release")
            out["peelers-release"] = (g.peelers(seed + 8, sizes=(800001, 1000000, 20000001)), "release")
            out["mwhc-shards-release"] = (g.mwhc_shards(seed + 10, sizes=(200000, 1000000)), "release")
    if prop == "C08":
        out["widths"] = (g.filter_widths(seed, sizes=(0, 1, 10, 1000), max_probe_bits=10 if q else 20,
                                         every_b=not q), "verif")
        out["small"] = (g.small_n_filters(seed + 1, 130 if q else 1000), "verif")
        out["combos"] = (g.every_combo(seed + 2, sizes=(0, 1, 3, 100, 101, 1000), kinds=("filter",)), "verif")
        out["regimes"] = (g.regime_filters(seed + 3, REGIME_Q if q else REGIME_T), "verif")
        out["peelers"] = (g.peelers(seed + 6, sizes=(800001,) if q else (800001, 1000000, 20000001)), "verif")
        out["regime-logics"] = (g.regime_logics(seed + 15, sizes=(800000,) if q else (150000, 800000), kind="filter"), "verif")
        out["sharded"] = (g.sharded_logics(seed + 11, "filter", sizes=(100000,) if q else (100000, 120000, 199999)), "verif")
        out["wide-keys"] = (g.wide_int_keys(seed + 14, "filter"), "verif")
        out["retry"] = (g.retry_recipes(seed + 12, "filter", sizes=(200000,) if q else (200000, 400000), per_size=2 if q else 3), "verif")
        # a filter over a key source that fails must not come back as Ok over the keys read so far (len, members)
        out["line-faults"] = ([e for e in g.c17_line_faults(seed + 13, thin=q) if e["ops"][0]["kind"] == "filter"], "verif")
        if not q:
            out["widths-release"] = (g.filter_widths(seed + 4, sizes=(3, 1000, 100000), max_probe_bits=16), "release")
            out["regimes-release"] = (g.regime_filters(seed + 5, REGIME_T), "release")
    if prop == "C17":
        out["faults"] = (g.c17_faults(seed, nmax=12, stride=3 if q else 1), "verif")
        out["dups"] = (g.c17_duplicates(seed + 1, big=10000, thin=q), "verif")
        out["big-faults"] = (g.c17_big_faults(seed + 2, n=100000 if q else 200000), "verif")
        out["sharded-dups"] = (g.c17_sharded_dups(seed + 5, big=() if q else (800000,)), "verif")
        out["dup-ranks"] = (g.c17_dup_ranks(seed + 6, thin=q), "verif")
        out["coarse-sig-dups"] = (g.c17_coarse_sig_dups(seed + 9), "verif")
        out["heavy-dups"] = (g.c17_heavy_dups(seed + 8, copies=(2000,) if q else (600, 2000, 30000)), "verif")
        out["line-faults"] = (g.c17_line_faults(seed + 7, thin=q), "verif")
        out["retry-faults"] = (g.c17_retry_faults(seed + 10, thin=q), "verif")
        if not q:
            out["faults-release"] = (g.c17_faults(seed + 3, nmax=12, stride=2), "release")
            out["dups-release"] = (g.c17_duplicates(seed + 4, big=10000, thin=True), "release")
    if prop == "C16":
        # the same edge at build and at query time, in every shard and through every getter
        out["sharded"] = (g.sharded_logics(seed + 11, "func", sizes=(100000,) if q else (100000, 199999, 400000)), "verif")
        out["sharded-filters"] = (g.sharded_logics(seed + 12, "filter", sizes=(100000,) if q else (100000, 400000)), "verif")
        out["threshold-hints"] = (g.threshold_hints(seed + 13, thin=q), "verif")
    if prop == "C20":
        # "builders only rewind after a failed attempt": attempts that fail for every reason the loop knows
        out["retry"] = (g.retry_recipes(seed + 12, "func", sizes=(200000,), per_size=1 if q else 3)
                        + g.retry_recipes(seed + 13, "filter", sizes=(200000,), per_size=1 if q else 3)
                        + g.small_n_functions(seed + 14, 40 if q else 300), "verif")
    if prop == "C11":
        out["space"] = (g.c11_episodes(seed, thorough=not q), "verif")
    if prop == "C12":
        out["ood"] = (sum([g.c12_episodes(seed + k) for k in range(1 if q else 8)], []), "verif")
        if not q:
            out["ood-release"] = (sum([g.c12_episodes(seed + 100 + k) for k in range(8)], []), "release")
    if prop == "C15":
        out["reload"] = (g.c15_episodes(seed, thorough=not q), "verif")
        if not q:
            out["reload-release"] = (g.c15_episodes(seed + 1), "release")
    if prop != "C11":
        out = {k: (g.without_known_space(eps), prof) for k, (eps, prof) in out.items()}
    out = {k: (g.without_known_hangs(eps), prof) for k, (eps, prof) in out.items()}
    if prop == "C07" and not q:
        out["mwhc-tiny"] = (g.mwhc_tiny(), "verif")
    return out


def nontrivial(epi):
    """An episode counts when its build is not the plain configuration of the
    crate's own tests (exact hint, default knobs, identity values, no fault)."""
    b = next((o for o in epi["ops"] if o["op"] == "build"), None)
    if b is None:
        return False
    plain = (b.get("hint") == [b["n"]] and not b.get("faults") and not b.get("subst")
             and all(k not in b for k in ("threads", "eps", "seed", "low_mem"))
             and b.get("vals", {}).get("a") == 1 and b.get("vals", {}).get("c") == 0
             and not any(o["op"] in ("reload", "probe") for o in epi["ops"]))
    return not plain


RULE = ("vbuild: episode = one build (key recipe, value recipe, builder configuration, fault placement) + query "
        "battery; non-trivial = anything but an exact hint with default knobs, identity values and no fault; "
        "distinct by operation list")
ASSUME = ["vbuild: keys are usize / u64 / str values produced by an injective recipe and handed to the builder "
          "through one delegating key type (VFunc depends on its key type only through ToSig); 19 of the "
          "logic x word x backend instantiations (22 with the MWHC logics) are compiled into the executor "
          "(lib/gen_vbuild.COMBOS)",
          "vbuild C08: the false-positive rule is the six-sigma interval (pos - e)^2 <= 36 e + 36 with e = m / 2^b "
          "(m = 64 * 2^b probes up to b = 20, 2^20 probes above): a statistical acceptance rule, not a proof",
          "vbuild C11: additive constant = 14 words + one segment per shard (documented segment sizes tabulated "
          "in VBuild!SegCap), never less than three segments"]
