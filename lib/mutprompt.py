#!/usr/bin/env python3
"""mutprompt.py <Cnn> [count] : prompt for an independent agent that seeds property-breaking changes.
The agent gets the property text and its own scratch worktree only (nothing from /verif)."""
import json
import sys

pid = sys.argv[1]
count = int(sys.argv[2]) if len(sys.argv) > 2 else 3
for l in open('/verif/properties.jsonl'):
    d = json.loads(l)
    if d['id'] == pid:
        break
files = ", ".join(d['anchors'].get('files', []))
print(f"""You are helping to evaluate a verification effort for the Rust crate vigna/sux-rs (succinct data structures: bit vectors, bit-field vectors, rank/select, Elias-Fano, rear-coded lists, static functions/filters). Your job is to act as a realistic source of subtle regressions.

You have your own scratch git worktree of the crate at /tmp/m/{pid}/repo (work ONLY there; write your results to /tmp/m/{pid}/out/; never touch /repo, /verif or any other directory; there is no network; `cargo ... --offline`). The crate builds and its test suite passes there: `cd /tmp/m/{pid}/repo && cargo test --workspace --no-fail-fast --offline` (about 1-2 minutes once built; the machine is shared, so avoid needless full rebuilds).

The property (of the crate's observable behaviour) that your changes must break:

  {d['id']}: {d['title']}
  Statement: {d['statement']}
  Quantified over: {d['quantifier']['text']}
  Code it is anchored in: {files}

Produce {count} DIFFERENT changes (each independent of the others, each a small plausible edit such as a maintainer could make by mistake during a refactoring or optimisation, in different functions/mechanisms where possible) to the crate's source under src/ such that for EACH change:
  1. the crate still compiles and the ENTIRE existing test suite still passes (`cargo test --workspace --no-fail-fast --offline`, no test edited, no test removed) — you must actually run it with the change applied and confirm;
  2. the change violates the property above on some input/history/configuration/schedule;
  3. the violation needs something specific to manifest — a particular alignment or length, a multi-step sequence of operations, an unusual input or parameter, a particular interleaving, a fault at a particular point, or two cooperating sites that each look fine alone — NOT something ordinary use would expose at once;
  4. you provide a demonstration: a self-contained Rust test file (to be dropped into the crate's tests/ directory, e.g. tests/demo_{pid.lower()}_K.rs, using only the crate's public API and its existing dev-dependencies) that FAILS (assertion failure, wrong answer, panic where none is allowed, crash, or hang with a timeout) with the change applied and PASSES on the unchanged tree. Run it both ways and confirm.
Do not break the build with debug assertions either (the change must compile in both debug and release). Prefer changes whose effect is silent wrong answers or silent corruption over ones that merely panic. Do not touch code under `#[cfg(sux_verif)]` or src/verif.rs (instrumentation that is compiled out by default).

Output, for K = 1..{count}, in /tmp/m/{pid}/out/K/ :
  patch.diff   produced with `git diff` in the worktree (source change only, NOT including the demo test), applying cleanly with `git apply` to the unchanged tree
  demo.rs      the demonstration test file
  meta.json    {{"property": "{pid}", "summary": "...what was changed...", "needs": "...what is needed for the violation to manifest...", "demo_cmd": "cargo test --offline --test demo_{pid.lower()}_K", "suite_passes_with_change": true, "demo_fails_with_change": true, "demo_passes_without_change": true, "files": ["src/..."]}}
After producing each patch, restore the worktree (`git checkout -- . && git clean -fd tests/`) so that it is unchanged at the end. Your final message: a short table of the {count} changes (file/function, what is needed to manifest, what you ran and observed).""")
