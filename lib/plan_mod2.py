"""Family "mod2": GF(2) solvers (spec/Mod2.tla, spec/Mod2Design.tla)."""
import gen_mod2

FAMILY = "mod2"
TRACE_SPEC = "Trace_Mod2"
PROPS = ["C19", "C12"]


def mc(prop, tier):
    if prop != "C19":
        return []
    must = ["MC_Mod2.Push"]
    if tier == "quick":
        return [("MC_Mod2", "MC_Mod2_small.cfg", must), ("MC_Mod2", "MC_Mod2_planes.cfg", must)]
    return [("MC_Mod2", "MC_Mod2_4x4.cfg", must), ("MC_Mod2", "MC_Mod2_planes3.cfg", must)]


def exports(prop, tier):
    if prop != "C19":
        return []
    if tier == "quick":
        return [("tlc", "MC_Mod2", "MC_Mod2_export.cfg")]
    return [("tlc", "MC_Mod2", "MC_Mod2_export.cfg")] + [("tlc4p%d" % k, "MC_Mod2", "MC_Mod2_export4_p%d.cfg" % k) for k in range(4)]


def episodes(prop, tier, seed):
    q = tier == "quick"
    out = {}
    if prop == "C19":
        out["rand"] = (gen_mod2.random_episodes(seed, 2500 if q else 40000), "verif")
        out["sparse"] = (gen_mod2.sparse_episodes(seed + 1, 120 if q else 1500, 120 if q else 400), "verif")
        out["long"] = (gen_mod2.long_episodes(seed + 4, 40 if q else 400), "verif")
        out["rand-release"] = (gen_mod2.random_episodes(seed + 2, 800 if q else 15000)
                               + gen_mod2.sparse_episodes(seed + 3, 40 if q else 500, 120 if q else 400), "release")
    if prop == "C12":
        out["ood"] = (gen_mod2.ood_episodes(seed, 600 if q else 6000), "verif")
        if not q:
            out["ood-release"] = (gen_mod2.ood_episodes(seed + 1, 3000), "release")
    return out


def nontrivial(epi):
    return len(epi.get("eqs", [])) >= 2 and any(o["op"] == "solve" for o in epi["ops"])


RULE = ("mod2: episode = one system (variables, equations with word constants) solved by both algorithms through "
        "both constructors, plus check/dims/add; non-trivial = at least two equations and a solver call; distinct "
        "by system and operation list")
ASSUME = ["Mod2: solvability is decided by the set-based elimination of Mod2.tla (proved equal to brute force on "
          "all systems up to 4 variables x 4 equations); words of 8..128 bits"]
