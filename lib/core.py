"""Shared machinery: harness build, script execution with crash isolation,
TLC wrappers (model checking, behaviour export, trace validation), known
findings, replay files and evidence.

No property semantics live here or anywhere else in Python: scripts are
inputs, traces are observations, and every judgement is made by TLC on a
.tla file under spec/.
"""
import concurrent.futures as cf
import hashlib
import json
import os
import re
import shutil
import signal
import subprocess
import sys
import time
from pathlib import Path

VERIF = Path(__file__).resolve().parent.parent
SPEC = VERIF / "spec"
WORK = VERIF / "work"
HARNESS = VERIF / "harness"
REPLAYS = VERIF / "replays"
EVIDENCE = VERIF / "evidence"
TLA_CP = "/opt/veriftools/tla/tla2tools.jar:/opt/veriftools/tla/CommunityModules-deps.jar"

EXIT_OK, EXIT_VIOLATION, EXIT_TOOL = 0, 1, 2


class ToolError(Exception):
    pass


def log(*a):
    print(*a, file=sys.stderr, flush=True)


# --------------------------------------------------------------------------
# harness
# --------------------------------------------------------------------------
_built = {}
REPO = os.environ.get("VERIF_REPO", "/repo")


def _harness_dir():
    """The harness crate has a path dependency on /repo. With VERIF_REPO set to
    another checkout (scratch worktrees used when testing the checks against
    seeded changes) a shadow crate directory with its own target dir is used,
    so that registered checks always build /repo's working tree."""
    if os.path.realpath(REPO) == "/repo":
        return HARNESS
    h = hashlib.sha1(os.path.realpath(REPO).encode()).hexdigest()[:10]
    d = WORK / ("harness-" + h)
    (d / ".cargo").mkdir(parents=True, exist_ok=True)
    toml = open(HARNESS / "Cargo.toml").read().replace('path = "/repo"', 'path = "%s"' % os.path.realpath(REPO))
    if not (d / "Cargo.toml").exists() or open(d / "Cargo.toml").read() != toml:
        open(d / "Cargo.toml", "w").write(toml)
    shutil.copy(HARNESS / "Cargo.lock", d / "Cargo.lock")
    shutil.copy(HARNESS / ".cargo" / "config.toml", d / ".cargo" / "config.toml")
    if not (d / "src").exists():
        os.symlink(HARNESS / "src", d / "src")
    return d


def build_harness(profile="verif"):
    """Builds harness/ (path dependency on /repo's working tree) and returns
    the executor path. A compile error is a tool error, not a violation."""
    if profile in _built:
        return _built[profile]
    t0 = time.time()
    env = dict(os.environ, CARGO_NET_OFFLINE="true")
    hd = _harness_dir()
    if profile == "asan":
        # AddressSanitizer build (nightly toolchain, release profile): out-of-bounds reads through raw pointers,
        # which ub_checks do not see, abort the process like any other memory error
        env["RUSTFLAGS"] = "-C target-cpu=native --cfg sux_verif --check-cfg cfg(sux_verif) -Zsanitizer=address"
        cmd = ["cargo", "+nightly", "build", "--offline", "--release", "--target", "x86_64-unknown-linux-gnu",
               "--target-dir", "target-asan", "--bin", "exec"]
        exe = hd / "target-asan" / "x86_64-unknown-linux-gnu" / "release" / "exec"
    else:
        cmd = ["cargo", "build", "--offline", "--profile", profile, "--bin", "exec"]
        exe = hd / "target" / profile / "exec"
    p = subprocess.run(cmd, cwd=hd, env=env, stdout=subprocess.PIPE, stderr=subprocess.STDOUT, text=True)
    if p.returncode != 0:
        log(p.stdout[-6000:])
        raise ToolError("harness build failed (profile %s)" % profile)
    log("[build] profile=%s repo=%s %.1fs" % (profile, REPO, time.time() - t0))
    _built[profile] = exe
    return exe


def write_script(path, episodes):
    with open(path, "w") as f:
        for ep in episodes:
            f.write(json.dumps(ep, separators=(",", ":")) + "\n")


HUGE = 2147483647


def _clamp(v):
    if isinstance(v, bool):
        return v
    if isinstance(v, int):
        return HUGE if v >= HUGE else v
    if isinstance(v, list):
        return [_clamp(x) for x in v]
    if isinstance(v, dict):
        return {k: _clamp(x) for k, x in v.items()}
    return v


def _last_line(path):
    try:
        with open(path, "rb") as f:
            f.seek(0, 2)
            size = f.tell()
            back = min(size, 1 << 20)
            f.seek(size - back)
            data = f.read().splitlines()
            for ln in reversed(data):
                if ln.strip():
                    return json.loads(ln)
    except FileNotFoundError:
        pass
    return None


def run_script(exe, script_path, trace_path, episodes, wall_timeout=3600, jobs=1):
    """Runs the executor over a script (with `jobs` > 1: contiguous chunks of episodes in parallel processes, the
    traces concatenated in episode order)."""
    n = len(episodes)
    jobs = max(1, min(jobs, n))
    if jobs == 1:
        return _run_chunk(exe, script_path, trace_path, episodes, wall_timeout, 0, n)
    cuts = [n * k // jobs for k in range(jobs + 1)]
    parts = [str(trace_path) + ".part%d" % k for k in range(jobs)]
    with cf.ThreadPoolExecutor(max_workers=jobs) as ex:
        futs = [ex.submit(_run_chunk, exe, script_path, parts[k], episodes, wall_timeout, cuts[k], cuts[k + 1])
                for k in range(jobs)]
        res = [f.result() for f in futs]
    with open(trace_path, "wb") as out:
        for p in parts:
            if os.path.exists(p):
                with open(p, "rb") as f:
                    shutil.copyfileobj(f, out)
                os.remove(p)
    return {"restarts": sum(r["restarts"] for r in res)}


def _run_chunk(exe, script_path, trace_path, episodes, wall_timeout, lo, hi):
    """Runs the executor over episodes lo..hi-1, restarting it after a process death.
    A death by signal becomes an `abort` event for the operation in flight; a
    watchdog exit (status 3) has already written its `hang` event."""
    if os.path.exists(trace_path):
        os.remove(trace_path)
    start = lo
    restarts = 0
    t_end = time.time() + wall_timeout
    n = hi
    while start < n:
        try:
            p = subprocess.run([str(exe), str(script_path), str(trace_path), "--from", str(start), "--to", str(hi)],
                               env=dict(os.environ, ASAN_OPTIONS="abort_on_error=1:detect_leaks=0:allocator_may_return_null=1"),
                               stdout=subprocess.PIPE, stderr=subprocess.PIPE, text=True,
                               timeout=max(1, t_end - time.time()))
        except subprocess.TimeoutExpired:
            raise ToolError("executor exceeded wall timeout on %s" % script_path)
        if p.returncode == 0:
            break
        last = _last_line(trace_path)
        if p.returncode == 3:  # watchdog: hang event already written
            start = (last["ep"] if last else start) + 1
            restarts += 1
            continue
        if p.returncode in (-9, 137):
            # SIGKILL never comes from the code under test (a Rust abort is SIGABRT, a wild access SIGSEGV/SIGBUS):
            # the kernel's out-of-memory killer or an operator ended the executor. Not an observation of sux.
            raise ToolError("executor was killed by SIGKILL (out of memory on this machine?) in episode %s of %s"
                            % ((last or {}).get("ep", start), script_path))
        if p.returncode < 0 or p.returncode in (134, 139):
            sig = -p.returncode if p.returncode < 0 else p.returncode - 128
            # Rust aborts when the allocator returns null. A request the machine could be expected to serve
            # (up to 64 GiB) that fails says something about the machine, not about sux; an absurd request
            # (a length computed by an overflow, say) stays an `abort` event.
            m = re.search(r"memory allocation of (\d+) bytes failed", p.stderr or "")
            if m and int(m.group(1)) <= (1 << 36):
                raise ToolError("executor ran out of memory (allocation of %s bytes failed) in episode %s of %s"
                                % (m.group(1), (last or {}).get("ep", start), script_path))
            if last is None or last["ep"] < start:
                raise ToolError("executor died before its first event: %s" % p.stderr[-2000:])
            e, s = last["ep"], last["seq"]
            ops = episodes[e]["ops"]
            op = dict(ops[s]) if s < len(ops) else {"op": "drop"}
            ev = {"ep": e, "seq": s + 1}
            ev.update(_clamp(op))
            ev.update({"out": "abort", "sig": sig})
            with open(trace_path, "a") as f:
                f.write(json.dumps(ev, separators=(",", ":")) + "\n")
            start = e + 1
            restarts += 1
            continue
        raise ToolError("executor failed rc=%s: %s" % (p.returncode, p.stderr[-3000:]))
    return {"restarts": restarts}


# --------------------------------------------------------------------------
# TLC
# --------------------------------------------------------------------------
def _java(extra_props=(), xmx="2g", xss=None):
    cmd = ["java", "-XX:+UseParallelGC", "-Xmx" + xmx]
    if xss:
        cmd.append("-Xss" + xss)
    cmd += list(extra_props)
    cmd += ["-cp", TLA_CP, "tlc2.TLC"]
    return cmd


_STATS = re.compile(r"(\d+) states generated, (\d+) distinct states found, (\d+) states left on queue")


def tlc_run(module, cfg, workers=4, env=None, timeout=1800, xmx="4g", extra=(), dfs=False, tag=None,
            coverage=False):
    """Runs TLC on spec/<module>.tla with spec/<cfg>. Returns dict with
    stdout lines, states generated/distinct and the raw return code."""
    tag = tag or ("%s-%d-%d" % (module, os.getpid(), int(time.time() * 1000) % 100000000))
    meta = WORK / "tlc" / tag
    if meta.exists():
        shutil.rmtree(meta)
    meta.mkdir(parents=True)
    props = []
    if dfs:
        props.append("-Dtlc2.tool.queue.IStateQueue=StateDeque")
    props.append("-Djava.io.tmpdir=%s" % meta)
    cmd = _java(props, xmx=xmx, xss="1g") + [
        "-workers", str(workers), "-metadir", str(meta), "-cleanup", "-noGenerateSpecTE",
        "-config", str(cfg)] + (["-coverage", "1"] if coverage else []) + list(extra) + [str(module) + ".tla"]
    e = dict(os.environ)
    e.pop("JAVA_TOOL_OPTIONS", None)
    if env:
        e.update(env)
    t0 = time.time()
    try:
        p = subprocess.run(cmd, cwd=SPEC, env=e, stdout=subprocess.PIPE, stderr=subprocess.STDOUT,
                           text=True, timeout=timeout)
    except subprocess.TimeoutExpired:
        shutil.rmtree(meta, ignore_errors=True)
        raise ToolError("TLC timeout on %s/%s" % (module, cfg))
    shutil.rmtree(meta, ignore_errors=True)
    out = p.stdout
    gen = dist = 0
    for m in _STATS.finditer(out):
        gen, dist = int(m.group(1)), int(m.group(2))
    return {"rc": p.returncode, "out": out, "generated": gen, "distinct": dist,
            "wall": time.time() - t0, "module": str(module), "cfg": str(cfg)}


def tlc_mc(module, cfg, workers=4, timeout=1800, xmx="6g", extra=(), allow_violation=False):
    """Exhaustive model checking of a bounded design model. Any invariant
    violation / error is returned to the caller (rc != 0)."""
    r = tlc_run(module, cfg, workers=workers, timeout=timeout, xmx=xmx, extra=extra, coverage=True)
    if r["rc"] != 0 and not allow_violation:
        log(r["out"][-5000:])
    r["coverage"] = parse_coverage(r["out"])
    return r


_COV = re.compile(r"^<(\w+) line (\d+), col (\d+) to line (\d+), col (\d+) of module (\w+)>: (\d+):(\d+)", re.M)


def parse_coverage(out):
    """action name -> (distinct states found, states generated) from -coverage 1"""
    cov = {}
    for m in _COV.finditer(out):
        cov["%s.%s" % (m.group(6), m.group(1))] = [int(m.group(7)), int(m.group(8))]
    return cov


_MIS = re.compile(r'<<"MISMATCH", (\d+), (\d+), "([^"]*)", "([^"]*)"(?:, (.*))?>>')
_END = re.compile(r'<<"TRACE-END", (\d+)>>')


def _validate_shard(args):
    spec, cfg, shard_path, idx, env = args
    e = {"TRACE": str(shard_path)}
    if env:
        e.update(env)
    # a runaway result in the code under test can make single events tens of MB long: give TLC the heap to read them
    big = os.path.getsize(shard_path) > 60 * 1024 * 1024
    r = tlc_run(spec, cfg, workers=1, env=e, timeout=3600 if not big else 7200, xmx="3g" if not big else "20g", dfs=True,
                tag="%s-s%d-%d" % (spec, idx, os.getpid()))
    out = r["out"]
    end = _END.search(out)
    ok = r["rc"] == 0 and end is not None
    mism = [(int(m.group(1)), int(m.group(2)), m.group(3), m.group(4), m.group(5) or "")
            for m in _MIS.finditer(out)]
    if len(mism) != out.count('<<"MISMATCH"'):
        # a rejection the runner cannot attribute to an episode must never be lost
        ok = False
        out += "\n[runner] unparseable MISMATCH line(s) in TLC output\n"
    return {"ok": ok, "mismatches": mism, "out": out, "generated": r["generated"],
            "distinct": r["distinct"], "events": int(end.group(1)) if end else 0, "wall": r["wall"]}


def validate_trace(spec, trace_path, shards=8, cfg=None, env=None, min_shard_events=2000):
    """Splits a trace at episode boundaries, lets TLC decide each shard
    against spec/<spec>.tla, returns mismatches [(ep, seq, op, why, extra)]."""
    cfg = cfg or (spec + ".cfg")
    lines = open(trace_path).read().splitlines()
    lines = [ln for ln in lines if ln.strip()]
    if not lines:
        return {"mismatches": [], "events": 0, "generated": 0, "distinct": 0, "shards": 0}
    # episode start offsets
    starts = [k for k, ln in enumerate(lines) if '"op":"BEGIN"' in ln]
    if not starts or starts[0] != 0:
        raise ToolError("trace does not start with a BEGIN event: %s" % trace_path)
    nsh = max(1, min(shards, len(lines) // min_shard_events + 1, len(starts)))
    target = len(lines) / nsh
    cuts = [0]
    for s in starts[1:]:
        if s - cuts[-1] >= target and len(cuts) < nsh:
            cuts.append(s)
    cuts.append(len(lines))
    jobs = []
    base = Path(trace_path)
    for k in range(len(cuts) - 1):
        sp = base.with_suffix(".s%d.ndjson" % k)
        with open(sp, "w") as f:
            f.write("\n".join(lines[cuts[k]:cuts[k + 1]]) + "\n")
        jobs.append((spec, cfg, sp, k, env))
    res = []
    nbig = sum(1 for j in jobs if os.path.getsize(j[2]) > 60 * 1024 * 1024)
    with cf.ThreadPoolExecutor(max_workers=len(jobs) if nbig == 0 else 2) as ex:
        res = list(ex.map(_validate_shard, jobs))
    mism = []
    tot = {"events": 0, "generated": 0, "distinct": 0}
    for j, r in zip(jobs, res):
        if not r["ok"]:
            log(r["out"][-4000:])
            raise ToolError("TLC did not accept/consume trace shard %s (spec %s)" % (j[2], spec))
        mism += r["mismatches"]
        for k in tot:
            tot[k] += r[k]
        os.remove(j[2])
    if tot["events"] != len(lines):
        raise ToolError("TLC consumed %d of %d events" % (tot["events"], len(lines)))
    tot["mismatches"] = sorted(set(mism))
    tot["shards"] = len(jobs)
    return tot


# --------------------------------------------------------------------------
# behaviour export: TLC prints <<"SCRIPT", json-string>> lines
# --------------------------------------------------------------------------
_SCRIPT = re.compile(r'^<<"SCRIPT", "(.*)">>$', re.M)


def tlc_export(module, cfg, workers=4, timeout=1800, xmx="6g", extra=()):
    r = tlc_run(module, cfg, workers=workers, timeout=timeout, xmx=xmx, extra=extra, coverage=True)
    if r["rc"] != 0:
        log(r["out"][-5000:])
        raise ToolError("TLC export run failed: %s %s" % (module, cfg))
    eps = []
    seen = set()
    for m in _SCRIPT.finditer(r["out"]):
        s = m.group(1).encode().decode("unicode_escape") if "\\" in m.group(1) else m.group(1)
        if s in seen:
            continue
        seen.add(s)
        eps.append(json.loads(s))
    r["episodes"] = eps
    r["coverage"] = parse_coverage(r["out"])
    return r


# --------------------------------------------------------------------------
# known findings, replays, evidence
# --------------------------------------------------------------------------
def load_findings():
    p = VERIF / "known_findings.json"
    if not p.exists():
        return []
    return json.load(open(p))["findings"]


def match_finding(findings, prop, episode, ev, why):
    """A finding matches when its python predicate `when` holds on the failing
    event `ev`, the episode `epi` and the rejection reason `why`."""
    for f in findings:
        if f.get("status") != "known":
            continue
        if prop not in f.get("properties", [f.get("property")]):
            continue
        try:
            if eval(f["when"], {"__builtins__": {"len": len, "any": any, "all": all, "min": min, "max": max,
                                                  "isinstance": isinstance, "list": list, "int": int,
                                                  "str": str, "set": set, "sum": sum, "range": range}},
                    {"ev": ev, "epi": episode, "why": why,
                     "ops": [o.get("op") for o in episode.get("ops", [])]}):
                return f
        except Exception as ex:  # a predicate that does not apply does not match
            continue
    return None


def save_replay(prop, episode, write=True):
    """Path of the replay file of an episode (named by its content); written unless write is False."""
    REPLAYS.mkdir(exist_ok=True)
    s = json.dumps(episode, separators=(",", ":"), sort_keys=True)
    h = hashlib.sha1(s.encode()).hexdigest()[:12]
    p = REPLAYS / ("%s-%s.json" % (prop, h))
    if write:
        with open(p, "w") as f:
            f.write(s + "\n")
    return p


def write_evidence(prop, tier, seed, coverage, wall, violations, assumptions, level="model_checking"):
    # evidence is only ever written for /repo itself; runs against a scratch checkout
    # (VERIF_REPO, used to try the checks on seeded changes) write next to their work files
    # (and so do partial runs, VERIF_ONLY=<batch name substring>, a development aid)
    evdir = EVIDENCE if os.path.realpath(REPO) == "/repo" and not os.environ.get("VERIF_ONLY") else WORK / "evidence-scratch"
    evdir.mkdir(parents=True, exist_ok=True)
    ev = {"property_id": prop, "tier": tier, "seed": seed, "level": level, "coverage": coverage,
          "assumptions": assumptions, "wall_s": round(wall, 2), "violations": violations}
    with open(evdir / (prop + ".json"), "w") as f:
        json.dump(ev, f, indent=1)
        f.write("\n")
