#!/usr/bin/env python3-vt
import json, jsonschema, glob, sys
jsonschema.validate(json.load(open('/verif/MANIFEST.json')), json.load(open('/root/.vp/MANIFEST.schema.json')))
s = json.load(open('/root/.vp/EVIDENCE.schema.json'))
for f in glob.glob('/verif/evidence/*.json'):
    jsonschema.validate(json.load(open(f)), s)
    print('ok', f)
print('manifest ok')
