"""Check driver: one Run per (property, tier). A Run collects exhaustive TLC
runs of the bounded design models, scripts (TLC-exported, generated, replay),
executes them on the real code and lets TLC validate the traces."""
import hashlib
import json
import os
import sys
import time
from pathlib import Path

import core
from core import log, ToolError


class Run:
    def __init__(self, prop, tier, seed):
        self.prop, self.tier, self.seed = prop, tier, seed
        self.t0 = time.time()
        self.states = 0
        self.transitions = 0
        self.mc = []            # per MC run: module,cfg,generated,distinct,coverage
        self.batches = []       # per batch stats
        self.episodes_ok = 0
        self.episodes_total = 0
        self.events = 0
        self.samples = []
        self.by_src = {}
        self.nontrivial = set()
        self.violations = []    # (episode, ev, why)
        self.known = {}         # finding id -> count
        self.findings = core.load_findings()
        self.assumptions = []
        self.notes = {}
        self.selftested = {}    # trace spec -> {"corrupted": n, "rejected": n}
        sfx = "" if os.path.realpath(core.REPO) == "/repo" else "-" + os.path.basename(os.path.realpath(core.REPO))
        self.work = core.WORK / ("%s-%s%s" % (prop, tier, sfx))
        self.work.mkdir(parents=True, exist_ok=True)

    # ------------------------------------------------------------- TLC on the design
    def mc_run(self, module, cfg, workers=6, timeout=3000, xmx="8g", must_cover=()):
        workers = int(os.environ.get("VERIF_TLC_WORKERS", workers))
        r = core.tlc_mc(module, cfg, workers=workers, timeout=timeout, xmx=xmx)
        if r["rc"] != 0:
            raise ToolError("design model %s/%s: TLC reported an error (the bounded model no longer "
                            "satisfies its invariants: the model is ours, this is not a finding)" % (module, cfg))
        for a in must_cover:
            c = r["coverage"].get(a)
            if not c or c[1] == 0:
                raise ToolError("vacuity: action %s never taken in %s/%s" % (a, module, cfg))
        self.states += r["distinct"]
        self.transitions += r["generated"]
        self.mc.append({"module": module, "cfg": cfg, "states_generated": r["generated"],
                        "distinct_states": r["distinct"], "wall_s": round(r["wall"], 1),
                        "actions": r["coverage"]})
        log("[mc] %s %s: %d generated, %d distinct, %.1fs" % (module, cfg, r["generated"], r["distinct"], r["wall"]))
        return r

    def export(self, module, cfg, workers=6, timeout=3000, xmx="8g"):
        workers = int(os.environ.get("VERIF_TLC_WORKERS", workers))
        r = core.tlc_export(module, cfg, workers=workers, timeout=timeout, xmx=xmx)
        self.states += r["distinct"]
        self.transitions += r["generated"]
        self.mc.append({"module": module, "cfg": cfg, "states_generated": r["generated"],
                        "distinct_states": r["distinct"], "wall_s": round(r["wall"], 1),
                        "exported_scripts": len(r["episodes"]), "actions": r["coverage"]})
        log("[export] %s %s: %d scripts (%d states) %.1fs" % (module, cfg, len(r["episodes"]), r["distinct"], r["wall"]))
        if not r["episodes"]:
            raise ToolError("vacuity: %s/%s exported no behaviour" % (module, cfg))
        return r["episodes"]

    # ------------------------------------------------------------- scripts on the real code
    def batch(self, name, trace_spec, episodes, profile="verif", shards=12, nontrivial=None, env=None,
              wall_timeout=7200, cfg=None, jobs=1):
        """Executes the episodes on the real code and validates the trace."""
        if not episodes:
            return
        CH = 60000      # bounded memory: very large batches (TLC exports of the thorough tier) go in chunks
        if len(episodes) > CH:
            for k in range(0, len(episodes), CH):
                self.batch("%s.%d" % (name, k // CH), trace_spec, episodes[k:k + CH], profile=profile, shards=shards,
                           nontrivial=nontrivial, env=env, wall_timeout=wall_timeout, cfg=cfg, jobs=jobs)
            return
        shards = int(os.environ.get("VERIF_SHARDS", shards))
        exe = core.build_harness(profile)
        sp = self.work / (name + ".script.ndjson")
        tp = self.work / (name + ".trace.ndjson")
        core.write_script(sp, episodes)
        t0 = time.time()
        st = core.run_script(exe, sp, tp, episodes, wall_timeout=wall_timeout, jobs=jobs)
        t1 = time.time()
        v = core.validate_trace(trace_spec, tp, shards=shards, env=env, cfg=cfg)
        t2 = time.time()
        bad_eps = {}
        for (e, s, op, why, extra) in v["mismatches"]:
            bad_eps.setdefault(e, (s, op, why, extra))
        if trace_spec not in self.selftested and len(bad_eps) < len(episodes):
            self._binding_selftest(trace_spec, tp, env, cfg, episodes, set(bad_eps))
        # fetch the failing events
        evs = {}
        if bad_eps:
            with open(tp) as f:
                for ln in f:
                    if '"ep":' not in ln:
                        continue
                    d = json.loads(ln)
                    k = d["ep"]
                    if k in bad_eps and d["seq"] == bad_eps[k][0]:
                        evs[k] = d
        for e, (s, op, why, extra) in sorted(bad_eps.items()):
            epi = episodes[e]
            ev = evs.get(e, {"op": op, "seq": s})
            f = core.match_finding(self.findings, self.prop, epi, ev, why)
            if f:
                self.known[f["id"]] = self.known.get(f["id"], 0) + 1
            else:
                self.violations.append((epi, ev, why, name, profile))
        ok = len(episodes) - len(bad_eps)
        self.episodes_ok += ok
        self.episodes_total += len(episodes)
        self.events += v["events"]
        self.states += v["distinct"]
        self.transitions += v["generated"]
        for epi in episodes:
            self.by_src[epi.get("src", "?")] = self.by_src.get(epi.get("src", "?"), 0) + 1
            if nontrivial is None or nontrivial(epi):
                self.nontrivial.add(hashlib.sha1(json.dumps(epi.get("ops", epi), sort_keys=True).encode()).digest()[:10])
        if len(self.samples) < 3:
            small = sorted(episodes, key=lambda x: len(json.dumps(x)))
            pick = small[len(small) // 2]
            if len(json.dumps(pick)) < 6000:
                self.samples.append({"batch": name, "episode": pick})
        self.batches.append({"batch": name, "trace_spec": trace_spec, "profile": profile, "episodes": len(episodes),
                             "events": v["events"], "rejected_episodes": len(bad_eps), "restarts": st["restarts"],
                             "exec_s": round(t1 - t0, 1), "tlc_s": round(t2 - t1, 1)})
        log("[batch] %s: %d episodes, %d events, %d rejected, exec %.1fs tlc %.1fs" %
            (name, len(episodes), v["events"], len(bad_eps), t1 - t0, t2 - t1))
        if not self.violations or os.environ.get("VERIF_KEEP"):
            pass
        try:
            if not bad_eps and not os.environ.get("VERIF_KEEP"):
                os.remove(tp)
                os.remove(sp)
        except OSError:
            pass

    def _binding_selftest(self, trace_spec, tp, env, cfg, episodes, already_bad=frozenset(), want=40):
        """Binding / vacuity control (DESIGN 7): in a copy of an accepted trace one call per episode (up to `want`
        episodes) is replaced by the event the runner synthesises when the executor dies in that call (script
        fields only, out = "abort" -- admissible nowhere), the rest of the episode is dropped as after a real
        death, and TLC must reject exactly those episodes. A trace specification that does not look at the
        events, or that cannot digest an abort event, fails here (tool error)."""
        lines = open(tp).read().splitlines()
        per_ep = {}
        for k, ln in enumerate(lines):
            try:
                d = json.loads(ln)
            except Exception:
                continue
            per_ep.setdefault(d["ep"], []).append((k, d))
        picks = {}
        drop = set()
        rnd = 0
        for e in sorted(per_ep):
            evs = per_ep[e]
            if len(picks) >= want or len(evs) < 2 or e in already_bad:
                continue
            # alternate between the first, a middle and the last call of the episode
            j = [1, len(evs) // 2 or 1, len(evs) - 1][rnd % 3]
            rnd += 1
            k, d = evs[j]
            ops = episodes[e].get("ops", [])
            if d["seq"] - 1 >= len(ops) or d["seq"] < 1:
                continue
            ev = {"ep": e, "seq": d["seq"]}
            ev.update(core._clamp(dict(ops[d["seq"] - 1])))
            ev.update({"out": "abort", "sig": 6})
            lines[k] = json.dumps(ev, separators=(",", ":"))
            for (k2, _) in evs[j + 1:]:
                drop.add(k2)
            picks[e] = k
        cp = Path(str(tp) + ".selftest")
        cp.write_text("\n".join(ln for k, ln in enumerate(lines) if k not in drop) + "\n")
        v = core.validate_trace(trace_spec, cp, shards=2, env=env, cfg=cfg)
        rejected = {m[0] for m in v["mismatches"]}
        cp.unlink(missing_ok=True)
        self.selftested[trace_spec] = {"corrupted": len(picks), "rejected": len(rejected & set(picks))}
        if set(picks) - rejected or (rejected - set(picks)) - set(already_bad):
            raise ToolError("binding self-test: %s did not reject exactly the episodes whose call was replaced by an "
                            "abort event (missed %s, extra %s)" % (trace_spec, sorted(set(picks) - rejected)[:5],
                                                                   sorted(rejected - set(picks))[:5]))
        log("[selftest] %s: %d episodes with a synthesised abort event, all rejected" % (trace_spec, len(picks)))

    # ------------------------------------------------------------- wrap-up
    def finish(self, level_assumptions, rule, exhaustive=False):
        wall = time.time() - self.t0
        lines = []
        for fid, cnt in sorted(self.known.items()):
            f = [x for x in self.findings if x["id"] == fid][0]
            lines.append("KNOWN-FINDING: property=%s %s [%s, %d episode(s)]" % (self.prop, f["description"], fid, cnt))
        seen = set()
        nviol = 0
        for (epi, ev, why, name, profile) in self.violations:
            # every listed violation has its replay file; beyond 40 they are only counted
            p = core.save_replay(self.prop, epi, write=nviol < 40)
            if p in seen:
                continue
            seen.add(p)
            nviol += 1
            if nviol <= 8:
                lines.append("VIOLATION property=%s replay=%s" % (self.prop, p))
                log("  rejected: batch=%s profile=%s reason=%s event=%s" % (name, profile, why, json.dumps(ev)[:300]))
        if nviol > 8:
            log("  ... %d further violating episodes not listed" % (nviol - 8))
        cov = {
            "states": max(1, self.states),
            "transitions": max(1, self.transitions),
            "traces_validated_against_impl": self.episodes_ok,
            "samples": self.samples or [{"note": "no implementation episode in this run"}],
            "evaluations": self.episodes_total,
            "distinct_nontrivial": len(self.nontrivial),
            "rule": rule,
            "exhaustive": exhaustive,
            "events_validated": self.events,
            "episodes_by_source": self.by_src,
            "model_checking_runs": self.mc,
            "batches": self.batches,
            "known_findings_hit": self.known,
            "notes": self.notes,
            "binding_selftest": self.selftested,
        }
        core.write_evidence(self.prop, self.tier, self.seed, cov, wall, nviol, level_assumptions)
        for ln in lines:
            print(ln, flush=True)
        print("%s tier=%s: %d design states, %d impl episodes validated (%d rejected: %d known, %d new), %.0fs" %
              (self.prop, self.tier, self.states, self.episodes_total, self.episodes_total - self.episodes_ok,
               sum(self.known.values()), nviol, wall), flush=True)
        return core.EXIT_VIOLATION if nviol else core.EXIT_OK
