"""Family "rcl": RearCodedListBuilder / RearCodedList (spec/RearCoded.tla,
spec/RCLDesign.tla)."""
import gen_rcl

FAMILY = "rcl"
TRACE_SPEC = "Trace_RearCoded"
PROPS = ["C09", "C12", "C15"]

ACTIONS = ["MC_RCLDesign.New", "MC_RCLDesign.Push"]


def mc(prop, tier):
    q = tier == "quick"
    if prop == "C09":
        runs = [("MC_RCLDesign", "MC_RCLDesign_small.cfg" if q else "MC_RCLDesign_small5.cfg", ACTIONS),
                ("MC_RCLDesign", "MC_RCLDesign_long.cfg", ACTIONS),
                ("MC_RCLDesign", "MC_RCLDesign_code8.cfg", ACTIONS)]
        if not q:
            runs.append(("MC_RCLDesign", "MC_RCLDesign_abc.cfg", ACTIONS))
        return runs
    if prop == "C12":
        # GetOK / IterOK with Over: every index and start position up to 4 (6) past the end
        return [("MC_RCLDesign", "MC_RCLDesign_small3.cfg" if q else "MC_RCLDesign_small.cfg", ACTIONS)]
    return []


def exports(prop, tier):
    q = tier == "quick"
    if prop == "C09":
        ex = [("tlc", "MC_RCLDesign", "MC_RCLDesign_export4.cfg")]
        if not q:
            ex.append(("tlc-abc", "MC_RCLDesign", "MC_RCLDesign_export_abc.cfg"))
        return ex
    return []


def episodes(prop, tier, seed):
    q = tier == "quick"
    out = {}
    if prop == "C09":
        out["recipes"] = (gen_rcl.recipe_episodes(seed, thorough=not q), "verif")
        out["rand"] = (gen_rcl.random_episodes(seed, 500 if q else 12000), "verif")
        if not q:
            out["rand-release"] = (gen_rcl.random_episodes(seed + 1, 5000) + gen_rcl.recipe_episodes(seed + 1), "release")
            out["huge-rear"] = (gen_rcl.huge_rear_episodes(seed), "release")
        else:
            # one 2 MB string in the quick tier too: the only way into the 4-byte rear-length code
            out["huge-rear"] = (gen_rcl.huge_rear_episodes(seed)[-1:], "verif")
    if prop == "C12":
        out["ood"] = (gen_rcl.ood_episodes(seed, 400 if q else 15000), "verif")
        if not q:
            out["ood-release"] = (gen_rcl.ood_episodes(seed + 1, 7500), "release")
    if prop == "C15":
        out["reload"] = (gen_rcl.reload_episodes(seed, 240 if q else 9000), "verif")
        if not q:
            out["reload-release"] = (gen_rcl.reload_episodes(seed + 1, 3600), "release")
    return out


def nontrivial(epi):
    ops = epi["ops"]
    names = [o["op"] for o in ops]
    pushed = sum(1 for o in ops if o["op"] == "push") + sum(len(o["strs"]) for o in ops if o["op"] == "extend")
    return pushed >= 2 and ("index_of" in names or "iter_from" in names or "reload" in names)


RULE = ("rcl: episode = builder history (new k, push/extend, build) + query battery (len, get, get_in_place, all "
        "iterations from sampled/all start positions, index_of/contains probes, out-of-domain positions); "
        "non-trivial = at least two strings and a search, a positioned iteration or a reload; distinct by operation list")
ASSUME = ["RearCodedList: strings are valid UTF-8 without NUL (the API takes &str); bytes 0xF5..0xFF therefore never occur",
          "RearCodedList: rear lengths beyond 2113665 (4-byte codes and longer) are not executed",
          "RearCodedList: the design model (RCLDesign.tla) is a scaled transcription (2-bit bytes) checked against the abstract "
          "list; with 8-bit bytes only the integer code is checked at the real boundaries"]
