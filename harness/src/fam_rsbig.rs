//! Family "rsbig": rank/select structures over bit vectors longer than 2^32
//! bits (C01/C02 beyond the reach of the "ranksel" family, whose positions are
//! plain TLC integers). The vector is given by its length and a few runs of ones
//! [s, e), all as base-2^15 limb lists; positions in queries and
//! answers are limb lists too (spec/RankSelBig.tla, Wide.tla).
//!
//! Episode: {"len": limbs, "runs": [[limbs, limbs]...], "key": stack key of fam_ranksel,
//! "layers": [...], "ops": [{"op": "rank", "p": limbs}, {"op": "select", "r": n}, ...]}
//! The stack is built with fam_ranksel::build, so every stack of that family
//! can be used. The 512 MiB backend is allocated lazily by the OS.

use crate::fam_ranksel::{build, Dyn};
use crate::util::*;
use crate::{guard, Ctx};
use serde_json::{json, Value};
use sux::bits::BitVec;

fn w(v: &Value) -> usize {
    let x = of_limbs(v);
    assert!(x <= u64::MAX as u128);
    x as usize
}
fn l(x: usize) -> Value {
    json!(limbs(x as u128))
}
fn ol(x: Option<usize>) -> Value {
    match x {
        None => json!([]),
        Some(v) => json!([l(v)]),
    }
}

pub fn run(ep: &Value, ctx: &mut Ctx) {
    let hdr = json!({"op": "BEGIN", "fam": "rsbig", "src": ep.get("src").cloned().unwrap_or(json!("?")),
                     "len": ep["len"].clone(), "runs": ep["runs"].clone(),
                     "key": ep["key"].clone(), "layers": ep.get("layers").cloned().unwrap_or(json!([]))});
    ctx.begin(&hdr);
    ctx.emit(&hdr, "ret", json!({}));
    let len = w(&ep["len"]);
    let runs: Vec<(usize, usize)> = ep["runs"].as_array().unwrap().iter().map(|r| (w(&r[0]), w(&r[1]))).collect();
    let key = ep["key"].as_str().unwrap().to_string();
    let layers: Vec<Value> = ep.get("layers").and_then(|v| v.as_array()).cloned().unwrap_or_default();
    let mut st: Option<Box<dyn Dyn>> = None;
    for op in ep["ops"].as_array().unwrap() {
        ctx.begin(op);
        let name = op["op"].as_str().unwrap();
        if name == "build" {
            // the first op of every episode: a constructor that dies is attributed to it
            match guard(|| {
                let mut bv = BitVec::new(len);
                {
                    // runs of ones [s, e), word by word (a run can be billions of bits long)
                    let words: &mut [usize] = bv.as_mut();
                    for &(s, e) in &runs {
                        let mut p = s;
                        while p < e {
                            let (wi, b) = (p / 64, p % 64);
                            let n = (64 - b).min(e - p);
                            words[wi] |= if n == 64 { usize::MAX } else { ((1usize << n) - 1) << b };
                            p += n;
                        }
                    }
                }
                build(&key, &layers, bv)
            }) {
                Ok(x) => {
                    st = Some(x);
                    ctx.emit(op, "ret", json!({}));
                }
                Err(m) => ctx.emit(op, "panic", json!({"msg": m.chars().take(160).collect::<String>()})),
            }
            continue;
        }
        let st = match &st {
            Some(x) => x,
            None => {
                ctx.emit(op, "na", json!({}));
                continue;
            }
        };
        // None = the stack does not offer the operation
        let r: Result<Option<Value>, String> = match name {
            "len" => guard(|| st.len().map(l)),
            "num_ones" => guard(|| st.num_ones().map(l)),
            "num_zeros" => guard(|| st.num_zeros().map(l)),
            "count_ones" => guard(|| st.count_ones().map(l)),
            "index" => guard(|| st.index(w(&op["p"])).map(|b| json!(b))),
            "rank" => guard(|| st.rank(w(&op["p"])).map(l)),
            "rank_zero" => guard(|| st.rank_zero(w(&op["p"])).map(l)),
            "select" => guard(|| st.select(w(&op["r"])).map(ol)),
            "select_zero" => guard(|| st.select_zero(w(&op["r"])).map(ol)),
            "mem_size" => guard(|| st.mem_size().map(l)),
            _ => {
                eprintln!("rsbig: unknown op {name}");
                std::process::exit(2);
            }
        };
        match r {
            Ok(Some(v)) => ctx.emit(op, "ret", json!({"res": v})),
            Ok(None) => ctx.emit(op, "na", json!({})),
            Err(m) => ctx.emit(op, "panic", json!({"msg": m.chars().take(160).collect::<String>()})),
        }
    }
}
