//! Family "bitvec": BitVec<Vec<usize>>, BitVec<Box<[usize]>>, AtomicBitVec
//! driven by an operation script (properties C06, C14, parts of C10/C12).
//!
//! After every operation the event carries `len`, `nw` (backend words) and
//! `store` (positions of all set bits of the backend, including those beyond
//! `len`), obtained through the public `as_ref()`.

use crate::util::*;
use crate::{guard, Ctx};
use serde_json::{json, Value};
use std::sync::atomic::{AtomicUsize, Ordering};
use epserde::deser::{Deserialize, Flags, MemCase};
use epserde::ser::Serialize;
use epserde::utils::AlignedCursor;
use mem_dbg::{MemSize, SizeFlags};
use sux::bits::{AtomicBitVec, BitVec};
use sux::traits::{BitCount, RankHinted, SelectHinted, SelectZeroHinted};

enum BV {
    None,
    Vec(BitVec<Vec<usize>>),
    Boxed(BitVec<Box<[usize]>>),
    Atomic(AtomicBitVec<Vec<AtomicUsize>>),
    AtomicBoxed(AtomicBitVec<Box<[AtomicUsize]>>),
    /// read-only instance over a leaked aligned buffer (deserialize_eps)
    RoEps(BitVec<&'static [usize]>),
    /// read-only instance over a memory-mapped file
    RoMmap(MemCase<BitVec<&'static [usize]>>),
}

fn atomic_words(a: &[AtomicUsize]) -> Vec<usize> {
    a.iter().map(|x| x.load(Ordering::SeqCst)).collect()
}

impl BV {
    fn proj(&self) -> Value {
        let (form, len, words): (&str, usize, Vec<usize>) = match self {
            BV::None => ("none", 0, vec![]),
            BV::Vec(b) => ("vec", b.len(), AsRef::<[usize]>::as_ref(b).to_vec()),
            BV::Boxed(b) => ("boxed", b.len(), AsRef::<[usize]>::as_ref(b).to_vec()),
            BV::Atomic(b) => (
                "atomic",
                b.len(),
                atomic_words(AsRef::<[AtomicUsize]>::as_ref(b)),
            ),
            BV::AtomicBoxed(b) => (
                "atomic_boxed",
                b.len(),
                atomic_words(AsRef::<[AtomicUsize]>::as_ref(b)),
            ),
            BV::RoEps(b) => ("ro", b.len(), AsRef::<[usize]>::as_ref(b).to_vec()),
            BV::RoMmap(b) => ("ro", b.len(), AsRef::<[usize]>::as_ref(&**b).to_vec()),
        };
        json!({"form": form, "len": len, "nw": words.len(), "store": positions(&words)})
    }
}

fn merge(mut a: Value, b: Value) -> Value {
    if let (Value::Object(x), Value::Object(y)) = (&mut a, b) {
        for (k, v) in y {
            x.insert(k, v);
        }
    }
    a
}

fn bools(v: impl Iterator<Item = bool>) -> Value {
    Value::Array(v.map(|b| json!(b)).collect())
}

macro_rules! reader {
    // an operation available on every non-atomic form through `&BitVec<B>`
    ($bv:expr, |$b:ident| $body:expr) => {
        match $bv {
            BV::Vec($b) => guard(|| $body),
            BV::Boxed($b) => guard(|| $body),
            BV::RoEps($b) => guard(|| $body),
            BV::RoMmap(m) => {
                let $b = &**m;
                guard(|| $body)
            }
            _ => Err("na".to_string()),
        }
    };
}

/// Serialises `b` and loads it back in the way `mode` says (C15). The loaded
/// instance replaces the structure under test.
macro_rules! reload {
    ($b:expr, $mode:expr, $ty:ty, $wrap:expr) => {{
        let b = $b;
        match $mode {
            "full" => {
                let mut cur = <AlignedCursor>::new();
                b.serialize(&mut cur).unwrap();
                cur.set_position(0);
                $wrap(<$ty>::deserialize_full(&mut cur).unwrap())
            }
            "eps" | "eps8" => {
                let mut bytes: Vec<u8> = Vec::new();
                b.serialize(&mut bytes).unwrap();
                BV::RoEps(<$ty>::deserialize_eps(leak_aligned(&bytes, $mode == "eps8")).unwrap())
            }
            _ => {
                let dir = std::env::temp_dir();
                let path = dir.join(format!("sux-verif-bitvec-{}.bin", std::process::id()));
                {
                    let mut f = std::io::BufWriter::new(std::fs::File::create(&path).unwrap());
                    b.serialize(&mut f).unwrap();
                }
                let m = <$ty>::mmap(&path, Flags::empty()).unwrap();
                let _ = std::fs::remove_file(&path);
                BV::RoMmap(m)
            }
        }
    }};
}

/// positions of the ones, obtained bit by bit through `get` (used only to
/// call the unsafe hinted methods inside their preconditions; the
/// specification re-derives both the precondition and the hint)
/// An iterator over `bits` whose size hint is loose: (0, Some(len + slack)).
/// `extend` and `collect` may use hints only as hints (C11: no surplus words).
fn loose(bits: Vec<bool>, slack: usize) -> impl Iterator<Item = bool> {
    bits.into_iter()
        .map(|b| (b, true))
        .chain(std::iter::repeat((false, false)).take(slack))
        .filter(|x| x.1)
        .map(|x| x.0)
}

fn naive_ones<B: AsRef<[usize]>>(b: &BitVec<B>) -> Vec<usize> {
    (0..b.len()).filter(|&i| b.get(i)).collect()
}

macro_rules! writer {
    ($bv:expr, |$b:ident| $body:expr) => {
        match $bv {
            BV::Vec($b) => guard(|| $body),
            BV::Boxed($b) => guard(|| $body),
            _ => Err("na".to_string()),
        }
    };
}

macro_rules! atomic {
    ($bv:expr, |$b:ident| $body:expr) => {
        match $bv {
            BV::Atomic($b) => guard(|| $body),
            BV::AtomicBoxed($b) => guard(|| $body),
            _ => Err("na".to_string()),
        }
    };
}

pub fn run(ep: &Value, ctx: &mut Ctx) {
    let mut bv = BV::None;
    // header event: one per episode, carries episode-level fields
    let hdr = json!({"op": "BEGIN", "fam": "bitvec", "src": ep.get("src").cloned().unwrap_or(json!("?"))});
    ctx.begin(&hdr);
    ctx.emit(&hdr, "ret", bv.proj());
    for op in ep["ops"].as_array().unwrap() {
        ctx.begin(op);
        let name = op["op"].as_str().unwrap();
        let r: Result<Value, String> = match name {
            // ---------------- constructors
            "new" => guard(|| BitVec::new(get_usize(op, "n"))).map(|b| {
                bv = BV::Vec(b);
                json!({})
            }),
            "with_value" => {
                guard(|| BitVec::with_value(get_usize(op, "n"), get_bool(op, "v"))).map(|b| {
                    bv = BV::Vec(b);
                    json!({})
                })
            }
            "with_capacity" => guard(|| BitVec::with_capacity(get_usize(op, "c"))).map(|b| {
                bv = BV::Vec(b);
                json!({})
            }),
            "macro_empty" => guard(|| sux::bit_vec![]).map(|b| {
                bv = BV::Vec(b);
                json!({})
            }),
            "macro_rep" => guard(|| {
                let n = get_usize(op, "n");
                // the four repetition forms of bit_vec!
                match (get_bool(op, "v"), get_bool(op, "num")) {
                    (true, false) => sux::bit_vec![true; n],
                    (false, false) => sux::bit_vec![false; n],
                    (true, true) => sux::bit_vec![1; n],
                    (false, true) => sux::bit_vec![0; n],
                }
            })
            .map(|b| {
                bv = BV::Vec(b);
                json!({})
            }),
            "macro_list" | "collect" => guard(|| {
                let bits = get_bools(op, "bits");
                if name == "collect" {
                    match op.get("slack").and_then(|v| v.as_u64()) {
                        Some(k) => loose(bits, k as usize).collect::<BitVec>(),
                        None => bits.into_iter().collect::<BitVec>(),
                    }
                } else {
                    // bit_vec![a, b, c] expands to with_capacity + push
                    let mut b = BitVec::with_capacity(bits.len());
                    for x in bits {
                        b.push(x);
                    }
                    b
                }
            })
            .map(|b| {
                bv = BV::Vec(b);
                json!({})
            }),
            "raw" => guard(|| {
                let nw = get_usize(op, "rnw");
                let words = words_from_positions(&op["rstore"], nw);
                let len = get_usize(op, "rlen");
                assert!(len <= nw * 64);
                unsafe { BitVec::from_raw_parts(words, len) }
            })
            .map(|b| {
                bv = BV::Vec(b);
                json!({})
            }),
            // ---------------- growable
            "push" => match &mut bv {
                BV::Vec(b) => guard(|| b.push(get_bool(op, "b"))).map(|_| json!({})),
                _ => Err("na".into()),
            },
            "pop" => match &mut bv {
                BV::Vec(b) => guard(|| b.pop()).map(|r| json!({"res": opt(r)})),
                _ => Err("na".into()),
            },
            "resize" => match &mut bv {
                BV::Vec(b) => {
                    guard(|| b.resize(get_usize(op, "n"), get_bool(op, "v"))).map(|_| json!({}))
                }
                _ => Err("na".into()),
            },
            "extend" => match &mut bv {
                BV::Vec(b) => guard(|| match op.get("slack").and_then(|v| v.as_u64()) {
                    Some(k) => b.extend(loose(get_bools(op, "bits"), k as usize)),
                    None => b.extend(get_bools(op, "bits")),
                })
                .map(|_| json!({})),
                _ => Err("na".into()),
            },
            // ---------------- element access
            "get" => {
                reader!(&bv, |b| b.get(get_usize(op, "i"))).map(|r| json!({"res": r}))
            }
            "index" => reader!(&bv, |b| b[get_usize(op, "i")]).map(|r| json!({"res": r})),
            "set" => writer!(&mut bv, |b| b.set(get_usize(op, "i"), get_bool(op, "b")))
                .map(|_| json!({})),
            "fill" => writer!(&mut bv, |b| b.fill(get_bool(op, "v"))).map(|_| json!({})),
            "par_fill" => writer!(&mut bv, |b| b.par_fill(get_bool(op, "v"))).map(|_| json!({})),
            "flip" => writer!(&mut bv, |b| b.flip()).map(|_| json!({})),
            "par_flip" => writer!(&mut bv, |b| b.par_flip()).map(|_| json!({})),
            "reset" => writer!(&mut bv, |b| b.reset()).map(|_| json!({})),
            "par_reset" => writer!(&mut bv, |b| b.par_reset()).map(|_| json!({})),
            // ---------------- readers
            "len" => reader!(&bv, |b| b.len()).map(|r| json!({"res": r})),
            "iter" => reader!(&bv, |b| bools(b.iter())).map(|r| json!({"res": r})),
            "into_iter" => {
                reader!(&bv, |b| bools(b.into_iter())).map(|r| json!({"res": r}))
            }
            "iter_ones" => {
                reader!(&bv, |b| b.iter_ones().collect::<Vec<_>>()).map(|r| json!({"res": r}))
            }
            "iter_zeros" => {
                reader!(&bv, |b| b.iter_zeros().collect::<Vec<_>>()).map(|r| json!({"res": r}))
            }
            "count_ones" => reader!(&bv, |b| b.count_ones()).map(|r| json!({"res": r})),
            "par_count_ones" => {
                writer!(&bv, |b| b.par_count_ones()).map(|r| json!({"res": r}))
            }
            "count_zeros" => reader!(&bv, |b| b.count_zeros()).map(|r| json!({"res": r})),
            "display" => reader!(&bv, |b| format!("{}", b)).map(|r| {
                // "[0101]" -> list of bits
                let bits: Vec<Value> = r
                    .trim_start_matches('[')
                    .trim_end_matches(']')
                    .chars()
                    .map(|c| json!(c == '1'))
                    .collect();
                json!({"res": bits})
            }),
            "eq_other" => {
                // compare with another vector given by its raw backend (may differ
                // from self only beyond len); both directions, both backends
                let onw = get_usize(op, "onw");
                let owords = words_from_positions(&op["ostore"], onw);
                let olen = get_usize(op, "olen");
                reader!(&bv, |b| {
                    let o = unsafe { BitVec::from_raw_parts(owords.clone(), olen) };
                    let ob: BitVec<Box<[usize]>> =
                        unsafe { BitVec::from_raw_parts(owords.clone().into_boxed_slice(), olen) };
                    let r1 = *b == o;
                    let r2 = o == *b;
                    let r3 = *b == ob;
                    json!([r1, r2, r3])
                })
                .map(|r| json!({"res": r}))
            }
            "eq_self" => {
                // the other operand is derived from the current backend; the event
                // is logged as an `eq_other` with the operand written out
                let mode = op["mode"].as_str().unwrap();
                let at = get_usize(op, "at");
                reader!(&bv, |b| {
                    let mut w: Vec<usize> = AsRef::<[usize]>::as_ref(b).to_vec();
                    let mut olen = b.len();
                    match mode {
                        "same" => {}
                        "garbage" => {
                            for p in olen..w.len() * 64 {
                                w[p / 64] ^= 1usize << (p % 64);
                            }
                        }
                        "flip_inside" => {
                            if olen > 0 {
                                let p = at % olen;
                                w[p / 64] ^= 1usize << (p % 64);
                            }
                        }
                        "shorter" => olen = olen.saturating_sub(1),
                        _ => {
                            olen += 1;
                            if olen > w.len() * 64 {
                                w.push(0);
                            }
                        }
                    }
                    let o = unsafe { BitVec::from_raw_parts(w.clone(), olen) };
                    let ob: BitVec<Box<[usize]>> =
                        unsafe { BitVec::from_raw_parts(w.clone().into_boxed_slice(), olen) };
                    json!({"op": "eq_other", "olen": olen, "onw": w.len(), "ostore": positions(&w),
                           "res": [*b == o, o == *b, *b == ob]})
                })
            }
            "to_owned" => reader!(&bv, |b| {
                let o = b.to_owned();
                let w: &[usize] = o.as_ref();
                json!({"olen": o.len(), "onw": w.len(), "ostore": positions(w), "eq": o == *b})
            })
            .map(|r| json!({"res": r})),
            "clone" => reader!(&bv, |b| {
                let o = b.clone();
                let w: &[usize] = o.as_ref();
                json!({"olen": o.len(), "onw": w.len(), "ostore": positions(w), "eq": o == *b})
            })
            .map(|r| json!({"res": r})),
            // ---------------- space, reload
            "mem_size" => reader!(&bv, |b| b.mem_size(SizeFlags::default())).map(|r| json!({"res": r})),
            "a_mem_size" => atomic!(&bv, |b| b.mem_size(SizeFlags::default())).map(|r| json!({"res": r})),
            "capacity" => match &bv {
                BV::Vec(b) => guard(|| b.capacity()).map(|r| json!({"res": r})),
                _ => Err("na".into()),
            },
            "reload" => {
                let mode = op["mode"].as_str().unwrap();
                let r = match &bv {
                    BV::Vec(b) => guard(|| reload!(b, mode, BitVec<Vec<usize>>, BV::Vec)),
                    BV::Boxed(b) => guard(|| reload!(b, mode, BitVec<Box<[usize]>>, BV::Boxed)),
                    _ => Err("na".to_string()),
                };
                r.map(|n| {
                    bv = n;
                    json!({})
                })
            }
            // ---------------- hinted rank / select (unsafe: called only inside
            // their preconditions; otherwise "na")
            "rank_hinted" => {
                let (pos, hp) = (get_usize(op, "pos"), get_usize(op, "hp"));
                reader!(&bv, |b| {
                    if pos < b.len() && hp.saturating_mul(64) <= pos {
                        let hr = naive_ones(b).iter().filter(|&&i| i < hp * 64).count();
                        Some(json!({"hr": hr, "res": unsafe { b.rank_hinted(pos, hp, hr) }}))
                    } else {
                        None
                    }
                })
                .and_then(|r| r.ok_or("na".to_string()))
            }
            "select_hinted" | "select_zero_hinted" => {
                let (r, hp) = (get_usize(op, "r"), get_usize(op, "hp"));
                let zero = name == "select_zero_hinted";
                reader!(&bv, |b| {
                    let ones = naive_ones(b);
                    let ones_before = ones.iter().filter(|&&i| i < hp).count();
                    let (hr, cnt) = if zero {
                        (hp.saturating_sub(ones_before), b.len() - ones.len())
                    } else {
                        (ones_before, ones.len())
                    };
                    if hp < b.len() && hr <= r && r < cnt {
                        let res = unsafe {
                            if zero {
                                b.select_zero_hinted(r, hp, hr)
                            } else {
                                b.select_hinted(r, hp, hr)
                            }
                        };
                        Some(json!({"hr": hr, "res": res}))
                    } else {
                        None
                    }
                })
                .and_then(|r| r.ok_or("na".to_string()))
            }
            // ---------------- conversions
            "into" => {
                let to = op["to"].as_str().unwrap();
                let old = std::mem::replace(&mut bv, BV::None);
                let r = guard(|| match (old, to) {
                    (BV::Vec(b), "boxed") => Ok(BV::Boxed(b.into())),
                    (BV::Vec(b), "atomic") => Ok(BV::Atomic(b.into())),
                    (BV::Boxed(b), "vec") => Ok(BV::Vec(b.into())),
                    (BV::Boxed(b), "atomic_boxed") => Ok(BV::AtomicBoxed(b.into())),
                    (BV::Atomic(b), "vec") => Ok(BV::Vec(b.into())),
                    (BV::AtomicBoxed(b), "boxed") => Ok(BV::Boxed(b.into())),
                    (o, _) => Err(o),
                });
                match r {
                    Ok(Ok(n)) => {
                        bv = n;
                        Ok(json!({}))
                    }
                    Ok(Err(o)) => {
                        bv = o;
                        Err("na".into())
                    }
                    Err(m) => Err(m),
                }
            }
            // ---------------- atomic forms (single-threaded use)
            "a_new" => guard(|| AtomicBitVec::new(get_usize(op, "n"))).map(|b| {
                bv = BV::Atomic(b);
                json!({})
            }),
            "a_with_value" => guard(|| {
                AtomicBitVec::with_value(get_usize(op, "n"), get_bool(op, "v"))
            })
            .map(|b| {
                bv = BV::Atomic(b);
                json!({})
            }),
            "a_get" => atomic!(&bv, |b| b.get(get_usize(op, "i"), Ordering::Relaxed))
                .map(|r| json!({"res": r})),
            "a_index" => atomic!(&bv, |b| b[get_usize(op, "i")]).map(|r| json!({"res": r})),
            "a_set" => atomic!(&bv, |b| b.set(
                get_usize(op, "i"),
                get_bool(op, "b"),
                Ordering::Relaxed
            ))
            .map(|_| json!({})),
            "a_swap" => atomic!(&bv, |b| b.swap(
                get_usize(op, "i"),
                get_bool(op, "b"),
                Ordering::Relaxed
            ))
            .map(|r| json!({"res": r})),
            "a_fill" => atomic!(&mut bv, |b| b.fill(get_bool(op, "v"), Ordering::Relaxed))
                .map(|_| json!({})),
            "a_par_fill" => {
                atomic!(&mut bv, |b| b.par_fill(get_bool(op, "v"), Ordering::Relaxed))
                    .map(|_| json!({}))
            }
            "a_flip" => atomic!(&mut bv, |b| b.flip(Ordering::Relaxed)).map(|_| json!({})),
            "a_par_flip" => {
                atomic!(&mut bv, |b| b.par_flip(Ordering::Relaxed)).map(|_| json!({}))
            }
            "a_reset" => atomic!(&mut bv, |b| b.reset(Ordering::Relaxed)).map(|_| json!({})),
            "a_par_reset" => {
                atomic!(&mut bv, |b| b.par_reset(Ordering::Relaxed)).map(|_| json!({}))
            }
            "a_count_ones" => atomic!(&bv, |b| b.count_ones()).map(|r| json!({"res": r})),
            "a_par_count_ones" => {
                atomic!(&bv, |b| b.par_count_ones()).map(|r| json!({"res": r}))
            }
            "a_count_zeros" => atomic!(&bv, |b| b.count_zeros()).map(|r| json!({"res": r})),
            "a_len" => atomic!(&bv, |b| b.len()).map(|r| json!({"res": r})),
            "a_iter" => atomic!(&mut bv, |b| bools(b.iter())).map(|r| json!({"res": r})),
            _ => {
                eprintln!("bitvec: unknown op {name}");
                std::process::exit(2);
            }
        };
        match r {
            Ok(f) => ctx.emit(op, "ret", merge(f, bv.proj())),
            Err(m) if m == "na" => ctx.emit(op, "na", bv.proj()),
            Err(m) => ctx.emit(op, "panic", merge(json!({"msg": m}), bv.proj())),
        }
    }
}
