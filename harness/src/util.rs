//! Helpers shared by all families: projections of machine words into JSON
//! values that TLC can read (no integer >= 2^31 ever appears in a trace).

use serde_json::{json, Value};

/// Positions of the set bits of a backend made of 64-bit words.
pub fn positions(words: &[usize]) -> Vec<usize> {
    let mut v = Vec::new();
    for (k, &w) in words.iter().enumerate() {
        let mut w = w;
        while w != 0 {
            let b = w.trailing_zeros() as usize;
            v.push(k * 64 + b);
            w &= w - 1;
        }
    }
    v
}

/// Inverse of `positions`.
pub fn words_from_positions(pos: &Value, nwords: usize) -> Vec<usize> {
    let mut w = vec![0usize; nwords];
    if let Some(a) = pos.as_array() {
        for p in a {
            let p = p.as_u64().unwrap() as usize;
            w[p / 64] |= 1usize << (p % 64);
        }
    }
    w
}

/// Set-bit positions of a value of up to 128 bits.
pub fn bits_of_u128(x: u128) -> Vec<u32> {
    let mut v = Vec::new();
    let mut x = x;
    while x != 0 {
        let b = x.trailing_zeros();
        v.push(b);
        x &= x - 1;
    }
    v
}

pub fn u128_of_bits(v: &Value) -> u128 {
    let mut x = 0u128;
    if let Some(a) = v.as_array() {
        for p in a {
            x |= 1u128 << p.as_u64().unwrap();
        }
    }
    x
}

/// Base-2^15 little-endian limbs of a natural number (TLC integers are 32 bit).
pub fn limbs(x: u128) -> Vec<u32> {
    let mut v = Vec::new();
    let mut x = x;
    while x != 0 {
        v.push((x & 0x7fff) as u32);
        x >>= 15;
    }
    v
}

pub fn of_limbs(v: &Value) -> u128 {
    let mut x = 0u128;
    if let Some(a) = v.as_array() {
        for (k, p) in a.iter().enumerate() {
            x |= (p.as_u64().unwrap() as u128) << (15 * k);
        }
    }
    x
}

/// A number that is a plain JSON integer when small, limbs otherwise is never
/// produced: every field has a fixed representation chosen by its family.
pub fn opt<T: Into<Value>>(o: Option<T>) -> Value {
    match o {
        None => json!([]),
        Some(x) => Value::Array(vec![x.into()]),
    }
}

pub fn get_usize(v: &Value, k: &str) -> usize {
    v[k].as_u64().unwrap_or_else(|| panic!("script field {k} missing in {v}")) as usize
}

pub fn get_bool(v: &Value, k: &str) -> bool {
    match &v[k] {
        Value::Bool(b) => *b,
        Value::Number(n) => n.as_u64().unwrap() != 0,
        _ => panic!("script field {k} missing in {v}"),
    }
}

pub fn get_bools(v: &Value, k: &str) -> Vec<bool> {
    v[k].as_array()
        .unwrap_or_else(|| panic!("script field {k} missing in {v}"))
        .iter()
        .map(|x| match x {
            Value::Bool(b) => *b,
            Value::Number(n) => n.as_u64().unwrap() != 0,
            _ => panic!("bad bool"),
        })
        .collect()
}

/// Copies `bytes` into a leaked buffer whose start is 16-byte aligned
/// (`off8 = false`) or 8 modulo 16 (`off8 = true`). ε-serde only requires the
/// natural alignment of the data (8 bytes for word arrays), so both placements
/// are legitimate inputs of `deserialize_eps`; loading from both guarantees that
/// one of them puts every array on the "odd" 8-mod-16 alignment that freshly
/// allocated backends never have (C15).
pub fn leak_aligned(bytes: &[u8], off8: bool) -> &'static [u8] {
    let off = if off8 { 8 } else { 0 };
    let words = (bytes.len() + off).div_ceil(16) + 1;
    let buf: &'static mut [u128] = Box::leak(vec![0u128; words].into_boxed_slice());
    let base = buf.as_mut_ptr() as *mut u8;
    unsafe {
        std::ptr::copy_nonoverlapping(bytes.as_ptr(), base.add(off), bytes.len());
        std::slice::from_raw_parts(base.add(off), bytes.len())
    }
}
