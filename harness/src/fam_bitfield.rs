//! Family "bitfield": `BitFieldVec<W, Vec<W>>`, `BitFieldVec<W, Box<[W]>>`,
//! `BitFieldVec<W, &[W]>` (ε-copy / mmap loaded), `AtomicBitFieldVec<W, _>`
//! for W in u8 u16 u32 u64 u128 usize, driven by an operation script
//! (properties C05, C10, C14 and the family's part of C11, C12, C15).
//!
//! The episode field `wt` selects the word type. After every operation the
//! event carries `form`, `width`, `len`, `nw` (backend words) and `store`
//! (positions of all set bits of the backend: bit b of word k is k*W+b,
//! including the bits beyond len*width), obtained through `as_slice()`.
//! Values are lists of set-bit positions (u128 does not fit a TLC integer).
//!
//! Nothing is judged here. The only computations besides calling sux are
//! (a) building operands described by the script and (b) the guards of
//! methods documented as unchecked, which are called only inside their
//! preconditions (the event is `out:"na"` otherwise and the specification
//! must agree that the precondition does not hold).

use crate::util::*;
use crate::{guard, Ctx};
use epserde::deser::{DeserType, Deserialize, Flags, MemCase};
use epserde::ser::Serialize;
use epserde::utils::AlignedCursor;
use mem_dbg::{MemSize, SizeFlags};
use serde_json::{json, Value};
use std::sync::atomic::Ordering;
use sux::bits::{AtomicBitFieldVec, BitFieldVec};
use sux::traits::bit_field_slice::{AtomicBitFieldSlice, BitFieldSlice, BitFieldSliceCore, BitFieldSliceMut};
use sux::traits::{IntoIteratorFrom, IntoReverseUncheckedIterator, IntoUncheckedIterator, UncheckedIterator};

fn merge(mut a: Value, b: Value) -> Value {
    if let (Value::Object(x), Value::Object(y)) = (&mut a, b) {
        for (k, v) in y {
            x.insert(k, v);
        }
    }
    a
}

fn opt_usize(v: &Value, k: &str) -> Option<usize> {
    v.get(k).and_then(|x| x.as_u64()).map(|x| x as usize)
}

fn na<T>() -> Result<T, String> {
    Err("na".to_string())
}

// ---------------------------------------------------------------------------
// atomic forms: real implementation for word types that have an atomic twin,
// stub (every operation "na") for u128
// ---------------------------------------------------------------------------
macro_rules! bf_atomic_real {
    () => {
        pub type AV = AtomicBitFieldVec<Wd, Vec<A>>;
        pub type AB = AtomicBitFieldVec<Wd, Box<[A]>>;
        pub const HAS: bool = true;

        fn aw(a: &[A]) -> Vec<Wd> {
            a.iter().map(|x| x.load(Ordering::SeqCst)).collect()
        }
        pub fn words_v(a: &AV) -> Vec<Wd> {
            aw(a.as_slice())
        }
        pub fn words_b(a: &AB) -> Vec<Wd> {
            aw(a.as_slice())
        }
        pub fn shape_v(a: &AV) -> (usize, usize) {
            (BitFieldSliceCore::<A>::bit_width(a), BitFieldSliceCore::<A>::len(a))
        }
        pub fn shape_b(a: &AB) -> (usize, usize) {
            (BitFieldSliceCore::<A>::bit_width(a), BitFieldSliceCore::<A>::len(a))
        }
        pub fn new(width: usize, n: usize) -> Option<AV> {
            Some(AV::new(width, n))
        }
        pub fn raw(words: Vec<Wd>, width: usize, len: usize) -> Option<AV> {
            let a: Vec<A> = words.into_iter().map(A::new).collect();
            Some(unsafe { AV::from_raw_parts(a, width, len) })
        }
        pub fn from_vec(b: BitFieldVec<Wd, Vec<Wd>>) -> Result<AV, BitFieldVec<Wd, Vec<Wd>>> {
            Ok(b.into())
        }
        pub fn from_boxed(b: BitFieldVec<Wd, Box<[Wd]>>) -> Result<AB, BitFieldVec<Wd, Box<[Wd]>>> {
            Ok(b.into())
        }
        pub fn to_vec(a: AV) -> BitFieldVec<Wd, Vec<Wd>> {
            a.into()
        }
        pub fn to_boxed(a: AB) -> BitFieldVec<Wd, Box<[Wd]>> {
            a.into()
        }
        /// into_raw_parts followed by from_raw_parts
        pub fn roundtrip_v(a: AV) -> AV {
            let (b, w, l) = a.into_raw_parts();
            unsafe { AV::from_raw_parts(b, w, l) }
        }

        pub fn op<T: AsRef<[A]>>(
            a: &mut AtomicBitFieldVec<Wd, T>,
            name: &str,
            op: &Value,
        ) -> Option<Result<Value, String>> {
            let len = BitFieldSliceCore::<A>::len(a);
            let r = match name {
                // "via": "helper": the same call through the AtomicHelper blanket trait (get / set without suffix)
                "a_get" if op.get("via").and_then(|v| v.as_str()) == Some("helper") => {
                    guard(|| sux::traits::bit_field_slice::AtomicHelper::<Wd>::get(a, get_usize(op, "i"), Ordering::Relaxed))
                        .map(|r| json!({"res": vj(r)}))
                }
                "a_set" if op.get("via").and_then(|v| v.as_str()) == Some("helper") => guard(|| {
                    sux::traits::bit_field_slice::AtomicHelper::<Wd>::set(a, get_usize(op, "i"), val(&op["v"]), Ordering::Relaxed)
                })
                .map(|_| json!({})),
                "a_get" => guard(|| a.get_atomic(get_usize(op, "i"), Ordering::Relaxed)).map(|r| json!({"res": vj(r)})),
                "a_get_unchecked" => {
                    let i = get_usize(op, "i");
                    if i >= len {
                        na()
                    } else {
                        guard(|| unsafe { a.get_atomic_unchecked(i, Ordering::Relaxed) }).map(|r| json!({"res": vj(r)}))
                    }
                }
                "a_set" => guard(|| a.set_atomic(get_usize(op, "i"), val(&op["v"]), Ordering::Relaxed)).map(|_| json!({})),
                "a_set_unchecked" => {
                    let i = get_usize(op, "i");
                    let v = val(&op["v"]);
                    if i >= len || v & a.mask() != v {
                        na()
                    } else {
                        guard(|| unsafe { a.set_atomic_unchecked(i, v, Ordering::Relaxed) }).map(|_| json!({}))
                    }
                }
                "a_reset" => guard(|| a.reset_atomic(Ordering::Relaxed)).map(|_| json!({})),
                "a_par_reset" => guard(|| a.par_reset_atomic(Ordering::Relaxed)).map(|_| json!({})),
                #[allow(deprecated)]
                "a_reset_dep" => guard(|| a.reset(Ordering::Relaxed)).map(|_| json!({})),
                "a_len" => guard(|| BitFieldSliceCore::<A>::len(a)).map(|r| json!({"res": r})),
                "a_bit_width" => guard(|| BitFieldSliceCore::<A>::bit_width(a)).map(|r| json!({"res": r})),
                "a_mask" => guard(|| a.mask()).map(|r| json!({"res": vj(r)})),
                "a_all" => guard(|| (0..len).map(|i| vj(a.get_atomic(i, Ordering::SeqCst))).collect::<Vec<_>>())
                    .map(|r| json!({"res": r})),
                _ => return None,
            };
            Some(r)
        }
        pub fn op_v(a: &mut AV, name: &str, o: &Value) -> Option<Result<Value, String>> {
            op(a, name, o)
        }
        pub fn op_b(a: &mut AB, name: &str, o: &Value) -> Option<Result<Value, String>> {
            op(a, name, o)
        }

        /// the blanket AtomicBitFieldSlice implementation for vectors of atomic words
        pub fn plain_atomic(k: &str, v: &mut Vec<Wd>, a: &Value) -> Result<Value, String> {
            let mut av: Vec<A> = v.iter().map(|&x| A::new(x)).collect();
            let r = match k {
                "a_get" => guard(|| AtomicBitFieldSlice::<Wd>::get_atomic(&av, get_usize(a, "i"), Ordering::Relaxed))
                    .map(|x| json!({"v": vj(x)})),
                "a_set" => guard(|| AtomicBitFieldSlice::<Wd>::set_atomic(&av, get_usize(a, "i"), val(&a["v"]), Ordering::Relaxed))
                    .map(|_| json!({})),
                "a_reset" => guard(|| AtomicBitFieldSlice::<Wd>::reset_atomic(&mut av, Ordering::Relaxed)).map(|_| json!({})),
                "a_par_reset" => {
                    guard(|| AtomicBitFieldSlice::<Wd>::par_reset_atomic(&mut av, Ordering::Relaxed)).map(|_| json!({}))
                }
                "a_len" => guard(|| BitFieldSliceCore::<A>::len(&av)).map(|x| json!({"n": x})),
                _ => guard(|| BitFieldSliceCore::<A>::bit_width(&av)).map(|x| json!({"n": x})),
            };
            *v = av.iter().map(|x| x.load(Ordering::SeqCst)).collect();
            r
        }

        /// conversions between the slice-backed forms: &[W] -> &[A] -> &[W]
        pub fn view_get(words: &[Wd], width: usize, len: usize, i: usize) -> Result<Value, String> {
            guard(|| {
                let v: BitFieldVec<Wd, &[Wd]> = unsafe { BitFieldVec::from_raw_parts(words, width, len) };
                let a: AtomicBitFieldVec<Wd, &[A]> = v.into();
                let x = a.get_atomic(i, Ordering::Relaxed);
                let back: BitFieldVec<Wd, &[Wd]> = a.into();
                let y = back.get(i);
                json!({"res": [vj(x), vj(y)]})
            })
        }
        pub fn view_set(words: &mut [Wd], width: usize, len: usize, i: usize, x: Wd) -> Result<Value, String> {
            guard(|| {
                let v: BitFieldVec<Wd, &mut [Wd]> = unsafe { BitFieldVec::from_raw_parts(words, width, len) };
                let a: AtomicBitFieldVec<Wd, &mut [A]> = v.into();
                a.set_atomic(i, x, Ordering::Relaxed);
                let mut back: BitFieldVec<Wd, &mut [Wd]> = a.into();
                // a second write through the converted-back view, same value
                back.set(i, x);
                json!({})
            })
        }
    };
}

macro_rules! bf_atomic_stub {
    () => {
        pub enum AV {}
        pub enum AB {}
        pub const HAS: bool = false;
        pub fn words_v(a: &AV) -> Vec<Wd> {
            match *a {}
        }
        pub fn words_b(a: &AB) -> Vec<Wd> {
            match *a {}
        }
        pub fn shape_v(a: &AV) -> (usize, usize) {
            match *a {}
        }
        pub fn shape_b(a: &AB) -> (usize, usize) {
            match *a {}
        }
        pub fn new(_width: usize, _n: usize) -> Option<AV> {
            None
        }
        pub fn raw(_words: Vec<Wd>, _width: usize, _len: usize) -> Option<AV> {
            None
        }
        pub fn from_vec(b: BitFieldVec<Wd, Vec<Wd>>) -> Result<AV, BitFieldVec<Wd, Vec<Wd>>> {
            Err(b)
        }
        pub fn from_boxed(b: BitFieldVec<Wd, Box<[Wd]>>) -> Result<AB, BitFieldVec<Wd, Box<[Wd]>>> {
            Err(b)
        }
        pub fn to_vec(a: AV) -> BitFieldVec<Wd, Vec<Wd>> {
            match a {}
        }
        pub fn to_boxed(a: AB) -> BitFieldVec<Wd, Box<[Wd]>> {
            match a {}
        }
        pub fn roundtrip_v(a: AV) -> AV {
            match a {}
        }
        pub fn op_v(a: &mut AV, _name: &str, _o: &Value) -> Option<Result<Value, String>> {
            match *a {}
        }
        pub fn op_b(a: &mut AB, _name: &str, _o: &Value) -> Option<Result<Value, String>> {
            match *a {}
        }
        pub fn plain_atomic(_k: &str, _v: &mut Vec<Wd>, _a: &Value) -> Result<Value, String> {
            na()
        }
        pub fn view_get(_w: &[Wd], _width: usize, _len: usize, _i: usize) -> Result<Value, String> {
            na()
        }
        pub fn view_set(_w: &mut [Wd], _width: usize, _len: usize, _i: usize, _x: Wd) -> Result<Value, String> {
            na()
        }
    };
}

// ---------------------------------------------------------------------------
// everything else, written once against the alias `Wd`
// ---------------------------------------------------------------------------
macro_rules! bf_common {
    () => {
        pub const BITS: usize = Wd::BITS as usize;
        type BV = BitFieldVec<Wd, Vec<Wd>>;
        type BB = BitFieldVec<Wd, Box<[Wd]>>;
        type BR = DeserType<'static, BV>;

        pub fn val(v: &Value) -> Wd {
            u128_of_bits(v) as Wd
        }
        pub fn vj(x: Wd) -> Value {
            json!(bits_of_u128(x as u128))
        }
        fn vals(v: &Value) -> Vec<Wd> {
            v.as_array().map(|a| a.iter().map(val).collect()).unwrap_or_default()
        }
        fn pos(words: &[Wd]) -> Vec<usize> {
            let mut v = Vec::new();
            for (k, &w) in words.iter().enumerate() {
                for b in bits_of_u128(w as u128) {
                    v.push(k * BITS + b as usize);
                }
            }
            v
        }
        fn words(p: &Value, nw: usize) -> Vec<Wd> {
            let mut w: Vec<Wd> = vec![0; nw];
            if let Some(a) = p.as_array() {
                for x in a {
                    let x = x.as_u64().unwrap() as usize;
                    w[x / BITS] |= (1 as Wd) << (x % BITS);
                }
            }
            w
        }

        enum S {
            None,
            Vec(BV),
            Boxed(BB),
            /// ε-copy deserialized from a leaked aligned buffer
            Eps(BR),
            /// memory-mapped
            Map(MemCase<BR>, Option<tempfile::NamedTempFile>),
            AVec(at::AV),
            ABox(at::AB),
        }

        impl S {
            fn proj(&self) -> Value {
                fn pr<B: AsRef<[Wd]>>(f: &str, b: &BitFieldVec<Wd, B>) -> Value {
                    let w = b.as_slice();
                    json!({"form": f, "width": BitFieldSliceCore::<Wd>::bit_width(b),
                           "len": BitFieldSliceCore::<Wd>::len(b), "nw": w.len(), "store": pos(w)})
                }
                match self {
                    S::None => json!({"form": "none", "width": 0, "len": 0, "nw": 0, "store": []}),
                    S::Vec(b) => pr("vec", b),
                    S::Boxed(b) => pr("boxed", b),
                    S::Eps(b) => pr("eps", b),
                    S::Map(b, _) => pr("mmap", &**b),
                    S::AVec(a) => {
                        let w = at::words_v(a);
                        let (bw, l) = at::shape_v(a);
                        json!({"form": "atomic", "width": bw, "len": l, "nw": w.len(), "store": pos(&w)})
                    }
                    S::ABox(a) => {
                        let w = at::words_b(a);
                        let (bw, l) = at::shape_b(a);
                        json!({"form": "atomic_boxed", "width": bw, "len": l, "nw": w.len(), "store": pos(&w)})
                    }
                }
            }
        }

        /// the operand of eq / copy: a vector over caller-described storage
        fn other_vec(op: &Value, width: usize) -> Option<BV> {
            let onw = get_usize(op, "onw");
            let olen = get_usize(op, "olen");
            if olen.checked_mul(width)? > onw * BITS {
                return None;
            }
            Some(unsafe { BV::from_raw_parts(words(&op["ostore"], onw), width, olen) })
        }

        fn eq3<B: AsRef<[Wd]>>(b: &BitFieldVec<Wd, B>, o: &BV) -> Value {
            let (w, bw, l) = o.clone().into_raw_parts();
            let ob: BB = unsafe { BB::from_raw_parts(w.into_boxed_slice(), bw, l) };
            json!([*b == *o, *o == *b, *b == ob])
        }

        /// operations available on every non-atomic form (shared reference)
        fn read_op<B: AsRef<[Wd]>>(b: &BitFieldVec<Wd, B>, name: &str, op: &Value) -> Option<Result<Value, String>>
        where
            BitFieldVec<Wd, B>: MemSize,
        {
            let len = BitFieldSliceCore::<Wd>::len(b);
            let width = BitFieldSliceCore::<Wd>::bit_width(b);
            let r = match name {
                "get" => guard(|| b.get(get_usize(op, "i"))).map(|r| json!({"res": vj(r)})),
                "get_unchecked" => {
                    let i = get_usize(op, "i");
                    if i >= len {
                        na()
                    } else {
                        guard(|| unsafe { b.get_unchecked(i) }).map(|r| json!({"res": vj(r)}))
                    }
                }
                "len" => guard(|| BitFieldSliceCore::<Wd>::len(b)).map(|r| json!({"res": r})),
                "is_empty" => guard(|| BitFieldSliceCore::<Wd>::is_empty(b)).map(|r| json!({"res": r})),
                "bit_width" => guard(|| BitFieldSliceCore::<Wd>::bit_width(b)).map(|r| json!({"res": r})),
                "iter" => guard(|| b.iter().map(vj).collect::<Vec<_>>()).map(|r| json!({"res": r})),
                "iter_from" => {
                    guard(|| b.iter_from(get_usize(op, "from")).map(vj).collect::<Vec<_>>()).map(|r| json!({"res": r}))
                }
                "into_iter" => guard(|| b.into_iter().map(vj).collect::<Vec<_>>()).map(|r| json!({"res": r})),
                "into_iter_from" => guard(|| b.into_iter_from(get_usize(op, "from")).map(vj).collect::<Vec<_>>())
                    .map(|r| json!({"res": r})),
                // the generic iterator of the traits module, over the same vector
                "slice_iter" => guard(|| {
                    sux::traits::BitFieldSliceIterator::<Wd, BitFieldVec<Wd, B>>::new(b, get_usize(op, "from"))
                        .map(vj)
                        .collect::<Vec<_>>()
                })
                .map(|r| json!({"res": r})),
                "iter_len" => guard(|| {
                    let mut it = b.iter_from(get_usize(op, "from"));
                    let mut got = 0usize;
                    for _ in 0..get_usize(op, "k") {
                        if it.next().is_some() {
                            got += 1;
                        }
                    }
                    let (lo, hi) = it.size_hint();
                    json!([got, it.len(), lo, opt(hi)])
                })
                .map(|r| json!({"res": r})),
                "uiter" => {
                    let from = opt_usize(op, "from");
                    let n = get_usize(op, "n");
                    let f = from.unwrap_or(0);
                    if f <= len && n > len - f {
                        na()
                    } else {
                        guard(|| {
                            let mut it = match from {
                                Some(f) => b.into_unchecked_iter_from(f),
                                None => b.into_unchecked_iter(),
                            };
                            (0..n).map(|_| vj(unsafe { it.next_unchecked() })).collect::<Vec<_>>()
                        })
                        .map(|r| json!({"res": r}))
                    }
                }
                "ruiter" => {
                    let from = opt_usize(op, "from");
                    let n = get_usize(op, "n");
                    let f = from.unwrap_or(len);
                    if f <= len && n > f {
                        na()
                    } else {
                        guard(|| {
                            let mut it = match from {
                                Some(f) => b.into_rev_unchecked_iter_from(f),
                                None => b.into_rev_unchecked_iter(),
                            };
                            (0..n).map(|_| vj(unsafe { it.next_unchecked() })).collect::<Vec<_>>()
                        })
                        .map(|r| json!({"res": r}))
                    }
                }
                "eq_other" => match other_vec(op, get_usize(op, "owidth")) {
                    None => na(),
                    Some(o) => guard(|| eq3(b, &o)).map(|r| json!({"res": r})),
                },
                "eq_self" => {
                    // the operand is derived from the current backend and written out
                    // in the event, which is logged as an `eq_other`
                    let mode = op["mode"].as_str().unwrap();
                    let at = get_usize(op, "at");
                    guard(|| {
                        let mut w: Vec<Wd> = b.as_slice().to_vec();
                        let mut olen = len;
                        let mut owidth = width;
                        match mode {
                            "same" => {}
                            "garbage" => {
                                for p in len * width..w.len() * BITS {
                                    w[p / BITS] ^= (1 as Wd) << (p % BITS);
                                }
                            }
                            "flip_inside" => {
                                if len * width > 0 {
                                    let p = at % (len * width);
                                    w[p / BITS] ^= (1 as Wd) << (p % BITS);
                                }
                            }
                            "shorter" => olen = olen.saturating_sub(1),
                            "longer" => {
                                olen += 1;
                                while olen * width > w.len() * BITS {
                                    w.push(0);
                                }
                            }
                            _ => {
                                // same storage read with another width
                                owidth = if width == BITS { width - 1 } else { width + 1 };
                                while olen * owidth > w.len() * BITS {
                                    w.push(0);
                                }
                            }
                        }
                        let o = unsafe { BV::from_raw_parts(w.clone(), owidth, olen) };
                        json!({"op": "eq_other", "owidth": owidth, "olen": olen, "onw": w.len(),
                               "ostore": pos(&w), "res": eq3(b, &o)})
                    })
                }
                "addr_of" => guard(|| {
                    let p = b.addr_of(get_usize(op, "i")) as usize;
                    (p - b.as_slice().as_ptr() as usize) / std::mem::size_of::<Wd>()
                })
                .map(|r| json!({"res": r})),
                "get_unaligned" => guard(|| b.get_unaligned(get_usize(op, "i"))).map(|r| json!({"res": vj(r)})),
                "mem_size" => guard(|| b.mem_size(SizeFlags::default())).map(|r| json!({"res": r})),
                "view_atomic_get" => at::view_get(b.as_slice(), width, len, get_usize(op, "i")),
                _ => return None,
            };
            Some(r)
        }

        /// the function of apply_in_place described by the script:
        /// f(x) = ((x op m) & mask), `xorprev` uses the previous argument as m
        fn apply_fn(kind: &str, m: Wd, mask: Wd, x: Wd, prev: Wd) -> Wd {
            (match kind {
                "id" => x,
                "not" => !x,
                "xor" => x ^ m,
                "and" => x & m,
                "or" => x | m,
                "const" => m,
                "shl1" => x << 1,
                "xorprev" => x ^ prev,
                _ => panic!("unknown apply kind"),
            }) & mask
        }

        /// operations of BitFieldSliceMut (Vec and Box backends)
        fn write_op<B: AsRef<[Wd]> + AsMut<[Wd]>>(
            b: &mut BitFieldVec<Wd, B>,
            name: &str,
            op: &Value,
            mk: &dyn Fn(Vec<Wd>, usize, usize) -> BitFieldVec<Wd, B>,
        ) -> Option<Result<Value, String>> {
            let len = BitFieldSliceCore::<Wd>::len(b);
            let width = BitFieldSliceCore::<Wd>::bit_width(b);
            let r = match name {
                "set" => guard(|| b.set(get_usize(op, "i"), val(&op["v"]))).map(|_| json!({})),
                "set_unchecked" => {
                    let i = get_usize(op, "i");
                    let v = val(&op["v"]);
                    if i >= len || v & BitFieldSliceMut::mask(b) != v {
                        na()
                    } else {
                        guard(|| unsafe { b.set_unchecked(i, v) }).map(|_| json!({}))
                    }
                }
                "mask" => guard(|| BitFieldSliceMut::mask(b)).map(|r| json!({"res": vj(r)})),
                "reset" => guard(|| b.reset()).map(|_| json!({})),
                "par_reset" => guard(|| b.par_reset()).map(|_| json!({})),
                "apply" | "apply_unchecked" => {
                    let kind = op["kind"].as_str().unwrap().to_string();
                    let m = val(&op["m"]);
                    let mask = BitFieldSliceMut::mask(b);
                    let mut calls: Vec<Wd> = Vec::new();
                    let cap = 4 * len + 64;
                    let mut prev: Wd = 0;
                    let r = guard(|| {
                        let f = |x: Wd| {
                            if calls.len() >= cap {
                                panic!("recording closure called more than 4*len+64 times");
                            }
                            calls.push(x);
                            let y = apply_fn(&kind, m, mask, x, prev);
                            prev = x;
                            y
                        };
                        if name == "apply" {
                            b.apply_in_place(f)
                        } else {
                            unsafe { b.apply_in_place_unchecked(f) }
                        }
                    });
                    let c: Vec<Value> = calls.iter().map(|&x| vj(x)).collect();
                    match r {
                        Ok(_) => Ok(json!({"calls": c})),
                        Err(msg) => {
                            // the event still carries the calls seen so far
                            return Some(Err(format!("{msg} calls={}", c.len())));
                        }
                    }
                }
                "copy_to" | "copy_from" => {
                    let (from, to, n) = (get_usize(op, "from"), get_usize(op, "to"), get_usize(op, "n"));
                    let onw = get_usize(op, "onw");
                    let olen = get_usize(op, "olen");
                    let fits = olen.checked_mul(width).map_or(false, |x| x <= onw * BITS);
                    let (slen, dlen) = if name == "copy_to" { (len, olen) } else { (olen, len) };
                    if !fits || from > slen || to > dlen {
                        na()
                    } else {
                        let mut o = mk(words(&op["ostore"], onw), width, olen);
                        if name == "copy_to" {
                            guard(|| b.copy(from, &mut o, to, n)).map(|_| {
                                json!({"res": {"olen": BitFieldSliceCore::<Wd>::len(&o), "onw": o.as_slice().len(),
                                               "ostore": pos(o.as_slice())}})
                            })
                        } else {
                            guard(|| o.copy(from, b, to, n)).map(|_| json!({}))
                        }
                    }
                }
                "chunks" => {
                    let c = get_usize(op, "c");
                    let acts = op["acts"].as_array().cloned().unwrap_or_default();
                    guard(|| match b.try_chunks_mut(c) {
                        Err(()) => json!({"res": {"ok": false, "lens": [], "acts": []}}),
                        Ok(it) => {
                            let mut views: Vec<_> = it.collect();
                            let lens: Vec<usize> = views.iter().map(|v| BitFieldSliceCore::<Wd>::len(v)).collect();
                            let mut out = Vec::new();
                            for a in &acts {
                                let (j, k) = (get_usize(a, "j"), get_usize(a, "k"));
                                if j >= views.len() {
                                    out.push(json!({"k": "nov", "v": []}));
                                } else if a.get("v").is_some() {
                                    let x = val(&a["v"]);
                                    match guard(|| views[j].set(k, x)) {
                                        Ok(_) => out.push(json!({"k": "w", "v": []})),
                                        Err(_) => out.push(json!({"k": "p", "v": []})),
                                    }
                                } else {
                                    match guard(|| views[j].get(k)) {
                                        Ok(x) => out.push(json!({"k": "r", "v": vj(x)})),
                                        Err(_) => out.push(json!({"k": "p", "v": []})),
                                    }
                                }
                            }
                            json!({"res": {"ok": true, "lens": lens, "acts": out}})
                        }
                    })
                }
                "view_atomic_set" => {
                    at::view_set(b.as_mut_slice(), width, len, get_usize(op, "i"), val(&op["v"]))
                }
                _ => return None,
            };
            Some(r)
        }

        /// serialize `b`, load it back as a `T` in the requested way; `own` wraps a
        /// fully deserialized instance
        fn reload<X: Serialize, T>(b: &X, mode: &str, own: fn(T) -> S) -> Result<S, String>
        where
            T: Deserialize + epserde::deser::DeserializeInner<DeserType<'static> = BR>,
        {
            let r: anyhow::Result<S> = (|| {
                Ok(match mode {
                    "full" => {
                        let mut c = <AlignedCursor>::new();
                        b.serialize(&mut c)?;
                        c.set_position(0);
                        own(T::deserialize_full(&mut c)?)
                    }
                    "eps8" => {
                        // the same bytes placed at 8 modulo 16 (a legitimate buffer for ε-serde)
                        let mut bytes: Vec<u8> = Vec::new();
                        b.serialize(&mut bytes)?;
                        // (16-byte words need 16-byte alignment: for them the placement stays at 0 modulo 16)
                        S::Eps(T::deserialize_eps(crate::util::leak_aligned(&bytes, std::mem::size_of::<Wd>() < 16))?)
                    }
                    "eps" => {
                        let mut c = <AlignedCursor>::new();
                        b.serialize(&mut c)?;
                        // the loaded instance borrows the buffer: the buffer is leaked
                        let c: &'static mut AlignedCursor = Box::leak(Box::new(c));
                        let bytes: &'static [u8] = c.as_bytes();
                        S::Eps(T::deserialize_eps(bytes)?)
                    }
                    _ => {
                        let f = tempfile::NamedTempFile::new()?;
                        b.store(f.path())?;
                        match mode {
                            "mmap" => S::Map(T::mmap(f.path(), Flags::empty())?, Some(f)),
                            "load_mmap" => S::Map(T::load_mmap(f.path(), Flags::empty())?, None),
                            "load_mem" => S::Map(T::load_mem(f.path())?, None),
                            "load_full" => own(T::load_full(f.path())?),
                            m => anyhow::bail!("unknown reload mode {m}"),
                        }
                    }
                })
            })();
            r.map_err(|e| format!("reload error: {e}"))
        }

        /// The blanket implementations of the slice traits for plain vectors of words
        /// (every element is a full-width field): a stateless operation over an operand
        /// given by the script; one result per access, then the final contents.
        fn plain(op: &Value) -> Value {
            let mut v: Vec<Wd> = vals(&op["vals"]);
            let mut out = Vec::new();
            for a in op["acts"].as_array().unwrap() {
                let k = a["k"].as_str().unwrap();
                let r: Result<Value, String> = match k {
                    "get" => guard(|| BitFieldSlice::<Wd>::get(&v, get_usize(a, "i"))).map(|x| json!({"v": vj(x)})),
                    "set" => guard(|| BitFieldSliceMut::<Wd>::set(&mut v, get_usize(a, "i"), val(&a["v"]))).map(|_| json!({})),
                    "reset" => guard(|| BitFieldSliceMut::<Wd>::reset(&mut v)).map(|_| json!({})),
                    "par_reset" => guard(|| BitFieldSliceMut::<Wd>::par_reset(&mut v)).map(|_| json!({})),
                    "len" => guard(|| BitFieldSliceCore::<Wd>::len(&v)).map(|x| json!({"n": x})),
                    "bit_width" => guard(|| BitFieldSliceCore::<Wd>::bit_width(&v)).map(|x| json!({"n": x})),
                    "copy" => {
                        let mut d: Vec<Wd> = vals(&a["dst"]);
                        let (from, to, n) = (get_usize(a, "from"), get_usize(a, "to"), get_usize(a, "n"));
                        if from > v.len() || to > d.len() {
                            na()
                        } else {
                            guard(|| BitFieldSliceMut::<Wd>::copy(&v, from, &mut d, to, n))
                                .map(|_| json!({"vs": d.iter().map(|&x| vj(x)).collect::<Vec<_>>()}))
                        }
                    }
                    "apply" => {
                        let kind = a["kind"].as_str().unwrap().to_string();
                        let m = val(&a["m"]);
                        let mut calls: Vec<Wd> = Vec::new();
                        let mut prev: Wd = 0;
                        let cap = 4 * v.len() + 64;
                        guard(|| {
                            BitFieldSliceMut::<Wd>::apply_in_place(&mut v, |x| {
                                if calls.len() >= cap {
                                    panic!("too many calls");
                                }
                                calls.push(x);
                                let y = apply_fn(&kind, m, Wd::MAX, x, prev);
                                prev = x;
                                y
                            })
                        })
                        .map(|_| json!({"vs": calls.iter().map(|&x| vj(x)).collect::<Vec<_>>()}))
                    }
                    _ => at::plain_atomic(k, &mut v, a),
                };
                let base = json!({"k": "ok", "v": [], "vs": [], "n": 0});
                out.push(match r {
                    Ok(x) => merge(base, x),
                    Err(m) if m == "na" => merge(base, json!({"k": "u"})),
                    Err(_) => merge(base, json!({"k": "p"})),
                });
            }
            json!({"res": {"acts": out, "fin": v.iter().map(|&x| vj(x)).collect::<Vec<_>>()}})
        }

        fn set_vec(s: &mut S, r: Result<BV, String>) -> Result<Value, String> {
            r.map(|b| {
                *s = S::Vec(b);
                json!({})
            })
        }

        pub fn run(ep: &Value, ctx: &mut Ctx) {
            let mut s = S::None;
            let wt = ep["wt"].as_str().unwrap_or("usize");
            let hdr = json!({"op": "BEGIN", "fam": "bitfield", "wt": wt, "W": BITS, "hasatomic": at::HAS,
                             "src": ep.get("src").cloned().unwrap_or(json!("?"))});
            ctx.begin(&hdr);
            ctx.emit(&hdr, "ret", s.proj());
            for op in ep["ops"].as_array().unwrap() {
                ctx.begin(op);
                let name = op["op"].as_str().unwrap();
                let r: Result<Value, String> = match name {
                    // ------------------------------------------------ constructors
                    "new" => set_vec(&mut s, guard(|| BV::new(get_usize(op, "width"), get_usize(op, "n")))),
                    "new_unaligned" => {
                        set_vec(&mut s, guard(|| BV::new_unaligned(get_usize(op, "width"), get_usize(op, "n"))))
                    }
                    "with_capacity" => {
                        set_vec(&mut s, guard(|| BV::with_capacity(get_usize(op, "width"), get_usize(op, "c"))))
                    }
                    "raw" | "a_raw" => {
                        let (width, rlen, rnw) = (get_usize(op, "width"), get_usize(op, "rlen"), get_usize(op, "rnw"));
                        assert!(rlen * width <= rnw * BITS, "raw: script violates the safety contract");
                        let w = words(&op["rstore"], rnw);
                        if name == "raw" {
                            set_vec(&mut s, guard(|| unsafe { BV::from_raw_parts(w, width, rlen) }))
                        } else {
                            match guard(|| at::raw(w, width, rlen)) {
                                Ok(Some(a)) => {
                                    s = S::AVec(a);
                                    Ok(json!({}))
                                }
                                Ok(None) => na(),
                                Err(m) => Err(m),
                            }
                        }
                    }
                    "a_new" => match guard(|| at::new(get_usize(op, "width"), get_usize(op, "n"))) {
                        Ok(Some(a)) => {
                            s = S::AVec(a);
                            Ok(json!({}))
                        }
                        Ok(None) => na(),
                        Err(m) => Err(m),
                    },
                    "from_slice" => {
                        let v = &op["vals"];
                        let r = guard(|| match op["via"].as_str().unwrap_or("plain") {
                            "plain" => BV::from_slice(&vals(v)),
                            "bfv" => {
                                let mut src = BV::new(get_usize(op, "swidth"), 0);
                                for x in vals(v) {
                                    src.push(x);
                                }
                                BV::from_slice(&src)
                            }
                            _ => {
                                let src: Vec<u128> = v.as_array().unwrap().iter().map(u128_of_bits).collect();
                                BV::from_slice(&src)
                            }
                        });
                        match r {
                            Ok(Ok(b)) => {
                                s = S::Vec(b);
                                Ok(json!({"res": true}))
                            }
                            Ok(Err(_)) => Ok(json!({"res": false})),
                            Err(m) => Err(m),
                        }
                    }
                    "macro_empty" | "macro_rep" | "macro_list" => macros(op, &mut s),
                    "plain" => guard(|| plain(op)),
                    // ------------------------------------------------ growth (Vec backend only)
                    "push" => match &mut s {
                        S::Vec(b) => guard(|| b.push(val(&op["v"]))).map(|_| json!({})),
                        _ => na(),
                    },
                    "pop" => match &mut s {
                        S::Vec(b) => guard(|| b.pop()).map(|r| json!({"res": opt(r.map(vj))})),
                        _ => na(),
                    },
                    "resize" => match &mut s {
                        S::Vec(b) => guard(|| b.resize(get_usize(op, "n"), val(&op["v"]))).map(|_| json!({})),
                        _ => na(),
                    },
                    "clear" => match &mut s {
                        S::Vec(b) => guard(|| b.clear()).map(|_| json!({})),
                        _ => na(),
                    },
                    "extend" => match &mut s {
                        S::Vec(b) => guard(|| b.extend(vals(&op["vals"]))).map(|_| json!({})),
                        _ => na(),
                    },
                    "bit_width_vec" => match &s {
                        S::Vec(b) => guard(|| b.bit_width()).map(|r| json!({"res": r})),
                        _ => na(),
                    },
                    "mask_vec" => match &s {
                        S::Vec(b) => guard(|| b.mask()).map(|r| json!({"res": vj(r)})),
                        _ => na(),
                    },
                    "clone" => match &s {
                        S::Vec(b) => guard(|| {
                            let o = b.clone();
                            json!({"owidth": o.bit_width(), "olen": o.len(), "onw": o.as_slice().len(),
                                   "ostore": pos(o.as_slice()), "eq": o == *b})
                        })
                        .map(|r| json!({"res": r})),
                        S::Boxed(b) => guard(|| {
                            let o = b.clone();
                            json!({"owidth": BitFieldSliceCore::<Wd>::bit_width(&o), "olen": BitFieldSliceCore::<Wd>::len(&o),
                                   "onw": o.as_slice().len(), "ostore": pos(o.as_slice()), "eq": o == *b})
                        })
                        .map(|r| json!({"res": r})),
                        _ => na(),
                    },
                    "raw_roundtrip" => {
                        let old = std::mem::replace(&mut s, S::None);
                        match guard(move || match old {
                            S::Vec(b) => {
                                let (w, bw, l) = b.into_raw_parts();
                                Ok(S::Vec(unsafe { BV::from_raw_parts(w, bw, l) }))
                            }
                            S::Boxed(b) => {
                                let (w, bw, l) = b.into_raw_parts();
                                Ok(S::Boxed(unsafe { BB::from_raw_parts(w, bw, l) }))
                            }
                            S::AVec(a) => Ok(S::AVec(at::roundtrip_v(a))),
                            o => Err(o),
                        }) {
                            Ok(Ok(n)) => {
                                s = n;
                                Ok(json!({}))
                            }
                            Ok(Err(o)) => {
                                s = o;
                                na()
                            }
                            Err(m) => Err(m),
                        }
                    }
                    // ------------------------------------------------ conversions
                    "into" => {
                        let to = op["to"].as_str().unwrap();
                        let old = std::mem::replace(&mut s, S::None);
                        let r = guard(|| match (old, to) {
                            (S::Vec(b), "boxed") => Ok(S::Boxed(b.into())),
                            (S::Boxed(b), "vec") => Ok(S::Vec(b.into())),
                            (S::Vec(b), "atomic") => match at::from_vec(b) {
                                Ok(a) => Ok(S::AVec(a)),
                                Err(b) => Err(S::Vec(b)),
                            },
                            (S::Boxed(b), "atomic_boxed") => match at::from_boxed(b) {
                                Ok(a) => Ok(S::ABox(a)),
                                Err(b) => Err(S::Boxed(b)),
                            },
                            (S::AVec(a), "vec") => Ok(S::Vec(at::to_vec(a))),
                            (S::ABox(a), "boxed") => Ok(S::Boxed(at::to_boxed(a))),
                            (o, _) => Err(o),
                        });
                        match r {
                            Ok(Ok(n)) => {
                                s = n;
                                Ok(json!({}))
                            }
                            Ok(Err(o)) => {
                                s = o;
                                na()
                            }
                            Err(m) => Err(m),
                        }
                    }
                    "reload" => {
                        let mode = op["mode"].as_str().unwrap();
                        let r = match &s {
                            S::Vec(b) => guard(|| reload::<BV, BV>(b, mode, S::Vec)),
                            S::Boxed(b) => guard(|| reload::<BB, BB>(b, mode, S::Boxed)),
                            S::Eps(b) => guard(|| reload::<BR, BV>(b, mode, S::Vec)),
                            S::Map(b, _) => guard(|| reload::<BR, BV>(&**b, mode, S::Vec)),
                            _ => Ok(na()),
                        };
                        match r {
                            Ok(Ok(n)) => {
                                s = n;
                                Ok(json!({}))
                            }
                            Ok(Err(m)) => Err(m),
                            Err(m) => Err(m),
                        }
                    }
                    // ------------------------------------------------ everything else by form
                    _ => {
                        let x = match &mut s {
                            S::Vec(b) => match read_op(b, name, op) {
                                Some(r) => Some(r),
                                None => write_op(b, name, op, &|w, bw, l| unsafe { BV::from_raw_parts(w, bw, l) }),
                            },
                            S::Boxed(b) => match read_op(b, name, op) {
                                Some(r) => Some(r),
                                None => write_op(b, name, op, &|w, bw, l| unsafe {
                                    BB::from_raw_parts(w.into_boxed_slice(), bw, l)
                                }),
                            },
                            S::Eps(b) => read_op(b, name, op),
                            S::Map(b, _) => read_op(&**b, name, op),
                            S::AVec(a) => at::op_v(a, name, op),
                            S::ABox(a) => at::op_b(a, name, op),
                            S::None => None,
                        };
                        match x {
                            Some(r) => r,
                            None => {
                                if !KNOWN_OPS.contains(&name) {
                                    eprintln!("bitfield: unknown op {name}");
                                    std::process::exit(2);
                                }
                                na()
                            }
                        }
                    }
                };
                match r {
                    Ok(f) => ctx.emit(op, "ret", merge(f, s.proj())),
                    Err(m) if m == "na" => ctx.emit(op, "na", s.proj()),
                    Err(m) => ctx.emit(op, "panic", merge(json!({"msg": m}), s.proj())),
                }
            }
        }
    };
}

const KNOWN_OPS: &[&str] = &[
    "get", "get_unchecked", "len", "is_empty", "bit_width", "iter", "iter_from", "into_iter", "into_iter_from",
    "iter_len", "slice_iter", "uiter", "ruiter", "eq_other", "eq_self", "addr_of", "get_unaligned", "mem_size",
    "view_atomic_get", "set", "set_unchecked", "mask", "reset", "par_reset", "apply", "apply_unchecked",
    "copy_to", "copy_from", "chunks", "view_atomic_set", "a_get", "a_get_unchecked", "a_set",
    "a_set_unchecked", "a_reset", "a_par_reset", "a_reset_dep", "a_len", "a_bit_width", "a_mask", "a_all",
];

macro_rules! bf_family {
    ($m:ident, $ty:ty, atomic $aty:ty, $macros:item) => {
        pub mod $m {
            use super::*;
            pub type Wd = $ty;
            pub mod at {
                use super::super::*;
                use super::{val, vj, Wd};
                pub type A = $aty;
                bf_atomic_real!();
            }
            $macros
            bf_common!();
        }
    };
    ($m:ident, $ty:ty, noatomic, $macros:item) => {
        pub mod $m {
            use super::*;
            pub type Wd = $ty;
            pub mod at {
                use super::super::*;
                use super::Wd;
                bf_atomic_stub!();
            }
            $macros
            bf_common!();
        }
    };
}

use std::sync::atomic::{AtomicU16, AtomicU32, AtomicU64, AtomicU8, AtomicUsize};

bf_family!(w8, u8, atomic AtomicU8, fn macros(_op: &Value, _s: &mut S) -> Result<Value, String> { na() });
bf_family!(w16, u16, atomic AtomicU16, fn macros(_op: &Value, _s: &mut S) -> Result<Value, String> { na() });
bf_family!(w32, u32, atomic AtomicU32, fn macros(_op: &Value, _s: &mut S) -> Result<Value, String> { na() });
bf_family!(w64, u64, atomic AtomicU64, fn macros(_op: &Value, _s: &mut S) -> Result<Value, String> { na() });
bf_family!(w128, u128, noatomic, fn macros(_op: &Value, _s: &mut S) -> Result<Value, String> { na() });
// the bit_field_vec! macro builds usize vectors only
bf_family!(wsize, usize, atomic AtomicUsize, fn macros(op: &Value, s: &mut S) -> Result<Value, String> {
    let w = get_usize(op, "width");
    let r = match op["op"].as_str().unwrap() {
        "macro_empty" => guard(|| sux::bit_field_vec![w]),
        "macro_rep" => {
            let (n, v) = (get_usize(op, "n"), val(&op["v"]));
            if get_bool(op, "old") {
                guard(|| sux::bit_field_vec![w; n; v])
            } else {
                guard(|| sux::bit_field_vec![w => v; n])
            }
        }
        _ => {
            let v = vals(&op["vals"]);
            match v.len() {
                1 => guard(|| sux::bit_field_vec![w; v[0]]),
                2 => guard(|| sux::bit_field_vec![w; v[0], v[1]]),
                3 => guard(|| sux::bit_field_vec![w; v[0], v[1], v[2]]),
                _ => guard(|| sux::bit_field_vec![w; v[0], v[1], v[2], v[3],]),
            }
        }
    };
    set_vec(s, r)
});

pub fn run(ep: &Value, ctx: &mut Ctx) {
    match ep["wt"].as_str().unwrap_or("usize") {
        "u8" => w8::run(ep, ctx),
        "u16" => w16::run(ep, ctx),
        "u32" => w32::run(ep, ctx),
        "u64" => w64::run(ep, ctx),
        "u128" => w128::run(ep, ctx),
        "usize" => wsize::run(ep, ctx),
        t => {
            eprintln!("bitfield: unknown word type {t}");
            std::process::exit(2);
        }
    }
}
