//! Family "ef": Elias–Fano monotone sequences (properties C03, C04 and the
//! Elias–Fano parts of C11, C12, C13, C15).
//!
//! Script operations (values, `u` and queries are base-2^15 limb lists, indices
//! are plain integers):
//!
//!   builders   new{n,u} push{x} extend{xs} cnew{n,u} cset{i,x}
//!              cfill{xs,parts,mode} build{kind} from{xs,kind}
//!   structure  len get{i} iter{hints} into_iter{hints} iter_from{k,via,hints}
//!              index_of{q} contains{q} succ{q} succ_strict{q} pred{q}
//!              pred_strict{q} succ_unchecked{q,strict} pred_unchecked{q,strict}
//!              mem_size reload{mode} estimate_size{n,u}
//!
//! The executor records what the real code returned and never judges: every
//! event is accepted or rejected by TLC against spec/EliasFano.tla.

use crate::util::*;
use crate::{guard, Ctx};
use epserde::deser::{DeserType, Deserialize, Flags, MemCase};
use epserde::ser::Serialize;
use mem_dbg::{MemSize, SizeFlags};
use serde_json::{json, Value};
use std::ops::Deref;
use sux::dict::elias_fano::{EfDict, EfSeq, EfSeqDict};
use sux::prelude::*;

// ---------------------------------------------------------------------------
// number plumbing
// ---------------------------------------------------------------------------
fn wide(v: &Value) -> usize {
    let x = of_limbs(v);
    assert!(x <= u64::MAX as u128, "script value beyond usize");
    x as usize
}

fn wide_list(v: &Value) -> Vec<usize> {
    v.as_array().expect("list of limb lists").iter().map(wide).collect()
}

fn lim(x: usize) -> Value {
    json!(limbs(x as u128))
}

fn lims(xs: &[usize]) -> Value {
    Value::Array(xs.iter().map(|&x| lim(x)).collect())
}

fn pair(r: Option<(usize, usize)>) -> Value {
    match r {
        None => json!([]),
        Some((i, v)) => json!([{"i": i, "v": lim(v)}]),
    }
}

/// What an iterator did: the values it yielded, and (optionally) the three
/// remaining-length hints observed before every call of `next` including the
/// one that returned `None`; then two further `next` calls after exhaustion.
struct Walk {
    vals: Vec<usize>,
    lens: Vec<usize>,
    los: Vec<usize>,
    his: Vec<Value>,
    tail: Vec<Value>,
}

fn walk<I: ExactSizeIterator<Item = usize>>(mut it: I, hints: bool) -> Walk {
    let mut w = Walk { vals: vec![], lens: vec![], los: vec![], his: vec![], tail: vec![] };
    loop {
        if hints {
            let (lo, hi) = it.size_hint();
            w.lens.push(it.len());
            w.los.push(lo);
            w.his.push(opt(hi));
        }
        match it.next() {
            Some(x) => w.vals.push(x),
            None => break,
        }
    }
    for _ in 0..2 {
        w.tail.push(match it.next() {
            None => json!([]),
            Some(x) => json!([lim(x)]),
        });
    }
    w
}

impl Walk {
    fn json(self, hints: bool) -> Value {
        if hints {
            json!({"res": lims(&self.vals), "lens": self.lens, "los": self.los, "his": self.his, "tail": self.tail})
        } else {
            json!({"res": lims(&self.vals), "tail": self.tail})
        }
    }
}

// ---------------------------------------------------------------------------
// the structure under test behind one object-safe interface; `None` means
// that the operation does not exist for this selection back-end
// ---------------------------------------------------------------------------
trait EfObj {
    fn len(&self) -> usize;
    fn iter(&self, hints: bool) -> Walk;
    fn into_iter(&self, hints: bool) -> Walk;
    fn mem(&self) -> usize;
    fn get(&self, _i: usize) -> Option<usize> {
        None
    }
    fn iter_from(&self, _k: usize, _via_trait: bool, _hints: bool) -> Option<Walk> {
        None
    }
    fn index_of(&self, _q: usize) -> Option<Option<usize>> {
        None
    }
    fn contains(&self, _q: usize) -> Option<bool> {
        None
    }
    fn succ_unchecked(&self, _q: usize, _strict: bool) -> Option<(usize, usize)> {
        None
    }
    fn pred_unchecked(&self, _q: usize, _strict: bool) -> Option<(usize, usize)> {
        None
    }
    fn succ(&self, _q: usize, _strict: bool) -> Option<Option<(usize, usize)>> {
        None
    }
    fn pred(&self, _q: usize, _strict: bool) -> Option<Option<(usize, usize)>> {
        None
    }
}

thread_local! {
    /// When set, dictionary queries go through the `impl Trait for &T` forwarding
    /// impls (what generic code receiving `&ef` uses) instead of the direct impl.
    static VIA_REF: std::cell::Cell<bool> = const { std::cell::Cell::new(false) };
}
fn via_ref() -> bool {
    VIA_REF.with(|c| c.get())
}

struct Plain<D>(D);
struct Seq<D>(D);
struct Dict<D>(D);
struct SeqDict<D>(D);

macro_rules! common {
    () => {
        fn len(&self) -> usize {
            self.0.len()
        }
        fn iter(&self, hints: bool) -> Walk {
            walk(self.0.iter(), hints)
        }
        fn into_iter(&self, hints: bool) -> Walk {
            walk((&*self.0).into_iter(), hints)
        }
        fn mem(&self) -> usize {
            (*self.0).mem_size(SizeFlags::default())
        }
    };
}

macro_rules! seq_part {
    () => {
        fn get(&self, i: usize) -> Option<usize> {
            let r = &*self.0;
            Some(if via_ref() { IndexedSeq::get(&r, i) } else { IndexedSeq::get(r, i) })
        }
        fn iter_from(&self, k: usize, via_trait: bool, hints: bool) -> Option<Walk> {
            Some(if via_trait {
                walk((&*self.0).into_iter_from(k), hints)
            } else {
                walk(self.0.iter_from(k), hints)
            })
        }
    };
}

macro_rules! dict_part {
    () => {
        fn index_of(&self, q: usize) -> Option<Option<usize>> {
            let r = &*self.0;
            Some(if via_ref() { IndexedDict::index_of(&r, q) } else { IndexedDict::index_of(r, q) })
        }
        fn contains(&self, q: usize) -> Option<bool> {
            let r = &*self.0;
            Some(if via_ref() { IndexedDict::contains(&r, &q) } else { IndexedDict::contains(r, &q) })
        }
        fn succ_unchecked(&self, q: usize, strict: bool) -> Option<(usize, usize)> {
            // called by the scripts only when the successor exists (documented precondition)
            let r = &*self.0;
            Some(unsafe {
                match (strict, via_ref()) {
                    (true, false) => SuccUnchecked::succ_unchecked::<true>(r, q),
                    (false, false) => SuccUnchecked::succ_unchecked::<false>(r, &q),
                    (true, true) => SuccUnchecked::succ_unchecked::<true>(&r, q),
                    (false, true) => SuccUnchecked::succ_unchecked::<false>(&r, &q),
                }
            })
        }
        fn pred_unchecked(&self, q: usize, strict: bool) -> Option<(usize, usize)> {
            let r = &*self.0;
            Some(unsafe {
                match (strict, via_ref()) {
                    (true, false) => PredUnchecked::pred_unchecked::<true>(r, q),
                    (false, false) => PredUnchecked::pred_unchecked::<false>(r, &q),
                    (true, true) => PredUnchecked::pred_unchecked::<true>(&r, q),
                    (false, true) => PredUnchecked::pred_unchecked::<false>(&r, &q),
                }
            })
        }
    };
}

impl<H, L, D> EfObj for Plain<D>
where
    D: Deref<Target = EliasFano<H, L>>,
    H: AsRef<[usize]>,
    L: BitFieldSlice<usize>,
    for<'b> &'b L: IntoUncheckedIterator<Item = usize>,
    EliasFano<H, L>: MemSize,
{
    common!();
}

impl<H, L, D> EfObj for Seq<D>
where
    D: Deref<Target = EliasFano<H, L>>,
    H: AsRef<[usize]> + SelectUnchecked,
    L: BitFieldSlice<usize>,
    for<'b> &'b L: IntoUncheckedIterator<Item = usize>,
    EliasFano<H, L>: MemSize,
{
    common!();
    seq_part!();
}

impl<H, L, D> EfObj for Dict<D>
where
    D: Deref<Target = EliasFano<H, L>>,
    H: AsRef<[usize]> + SelectZeroUnchecked,
    L: BitFieldSlice<usize>,
    for<'b> &'b L: IntoUncheckedIterator<Item = usize>,
    for<'b> &'b L: IntoReverseUncheckedIterator<Item = usize>,
    EliasFano<H, L>: MemSize,
{
    common!();
    dict_part!();
}

impl<H, L, D> EfObj for SeqDict<D>
where
    D: Deref<Target = EliasFano<H, L>>,
    H: AsRef<[usize]> + SelectUnchecked + SelectZeroUnchecked,
    L: BitFieldSlice<usize>,
    for<'b> &'b L: IntoUncheckedIterator<Item = usize>,
    for<'b> &'b L: IntoReverseUncheckedIterator<Item = usize>,
    EliasFano<H, L>: MemSize,
{
    common!();
    seq_part!();
    dict_part!();
    fn succ(&self, q: usize, strict: bool) -> Option<Option<(usize, usize)>> {
        let r = &*self.0;
        Some(match (strict, via_ref()) {
            (true, false) => Succ::succ_strict(r, q),
            (false, false) => Succ::succ(r, &q),
            (true, true) => Succ::succ_strict(&r, q),
            (false, true) => Succ::succ(&r, &q),
        })
    }
    fn pred(&self, q: usize, strict: bool) -> Option<Option<(usize, usize)>> {
        let r = &*self.0;
        Some(match (strict, via_ref()) {
            (true, false) => Pred::pred_strict(r, q),
            (false, false) => Pred::pred(r, &q),
            (true, true) => Pred::pred_strict(&r, q),
            (false, true) => Pred::pred(&r, &q),
        })
    }
}

// ---------------------------------------------------------------------------
// ε-serde round trips
// ---------------------------------------------------------------------------
/// 16-byte aligned buffers that ε-copy instances borrow from; freed when the
/// episode ends (after the structure has been dropped).
struct Leaks(Vec<(*mut u8, std::alloc::Layout)>);

impl Leaks {
    fn aligned_copy(&mut self, bytes: &[u8]) -> &'static [u8] {
        let cap = (bytes.len().max(1) + 15) / 16 * 16;
        let layout = std::alloc::Layout::from_size_align(cap, 16).unwrap();
        unsafe {
            let p = std::alloc::alloc_zeroed(layout);
            assert!(!p.is_null());
            std::ptr::copy_nonoverlapping(bytes.as_ptr(), p, bytes.len());
            self.0.push((p, layout));
            std::slice::from_raw_parts(p, bytes.len())
        }
    }
}

impl Drop for Leaks {
    fn drop(&mut self) {
        for (p, l) in self.0.drain(..) {
            unsafe { std::alloc::dealloc(p, l) }
        }
    }
}

type Reloader = fn(&str, &[u8], &mut Leaks) -> Result<Box<dyn EfObj>, String>;

fn ser<T: Serialize>(ef: &T) -> Result<Vec<u8>, String> {
    let mut buf = Vec::new();
    ef.serialize(&mut buf).map_err(|e| format!("serialize: {e}"))?;
    Ok(buf)
}

macro_rules! reloader {
    ($name:ident, $wrap:ident) => {
        fn $name<T>(mode: &str, bytes: &[u8], leaks: &mut Leaks) -> Result<Box<dyn EfObj>, String>
        where
            T: Deserialize + 'static,
            $wrap<Box<T>>: EfObj,
            $wrap<Box<DeserType<'static, T>>>: EfObj,
            $wrap<MemCase<DeserType<'static, T>>>: EfObj,
        {
            match mode {
                "full" => {
                    let ef = T::deserialize_full(&mut std::io::Cursor::new(bytes))
                        .map_err(|e| format!("deserialize_full: {e}"))?;
                    Ok(Box::new($wrap(Box::new(ef))))
                }
                "eps8" => {
                    // the same bytes placed at 8 modulo 16 (a legitimate buffer for ε-serde)
                    let buf = leak_aligned(bytes, true);
                    let ef = T::deserialize_eps(buf).map_err(|e| format!("deserialize_eps: {e}"))?;
                    Ok(Box::new($wrap(Box::new(ef))))
                }
                "eps" => {
                    let buf = leaks.aligned_copy(bytes);
                    let ef = T::deserialize_eps(buf).map_err(|e| format!("deserialize_eps: {e}"))?;
                    Ok(Box::new($wrap(Box::new(ef))))
                }
                "mmap" => {
                    let mut f = tempfile::NamedTempFile::new().map_err(|e| e.to_string())?;
                    std::io::Write::write_all(&mut f, bytes).map_err(|e| e.to_string())?;
                    std::io::Write::flush(&mut f).map_err(|e| e.to_string())?;
                    let mc = T::mmap(f.path(), Flags::empty()).map_err(|e| format!("mmap: {e}"))?;
                    // the mapping stays valid after the file is unlinked
                    Ok(Box::new($wrap(mc)))
                }
                _ => panic!("ef: unknown reload mode {mode}"),
            }
        }
    };
}
/// Back-ends whose ε-copy form does not implement the selection traits
/// (SelectSmall / SelectZeroSmall implement them for boxed inventories only)
/// can be loaded back by full deserialization only.
macro_rules! reloader_full {
    ($name:ident, $wrap:ident) => {
        fn $name<T>(mode: &str, bytes: &[u8], _leaks: &mut Leaks) -> Result<Box<dyn EfObj>, String>
        where
            T: Deserialize + 'static,
            $wrap<Box<T>>: EfObj,
        {
            match mode {
                "full" => {
                    let ef = T::deserialize_full(&mut std::io::Cursor::new(bytes))
                        .map_err(|e| format!("deserialize_full: {e}"))?;
                    Ok(Box::new($wrap(Box::new(ef))))
                }
                _ => Err(NA.to_string()),
            }
        }
    };
}
reloader_full!(reload_seq_full, Seq);
reloader_full!(reload_dict_full, Dict);
reloader_full!(reload_seqdict_full, SeqDict);
reloader!(reload_plain, Plain);
reloader!(reload_seq, Seq);
reloader!(reload_dict, Dict);
reloader!(reload_seqdict, SeqDict);

struct Built {
    obj: Box<dyn EfObj>,
    bytes: Option<Result<Vec<u8>, String>>,
    reloader: Reloader,
}

macro_rules! packer {
    ($name:ident, $wrap:ident, $rl:ident) => {
        fn $name<T>(ef: T, needs_bytes: bool) -> Built
        where
            T: Serialize + Deserialize + 'static,
            $wrap<Box<T>>: EfObj,
            $wrap<Box<DeserType<'static, T>>>: EfObj,
            $wrap<MemCase<DeserType<'static, T>>>: EfObj,
        {
            let bytes = if needs_bytes { Some(ser(&ef)) } else { None };
            Built { obj: Box::new($wrap(Box::new(ef))), bytes, reloader: $rl::<T> }
        }
    };
}
macro_rules! packer_full {
    ($name:ident, $wrap:ident, $rl:ident) => {
        fn $name<T>(ef: T, needs_bytes: bool) -> Built
        where
            T: Serialize + Deserialize + 'static,
            $wrap<Box<T>>: EfObj,
        {
            let bytes = if needs_bytes { Some(ser(&ef)) } else { None };
            Built { obj: Box::new($wrap(Box::new(ef))), bytes, reloader: $rl::<T> }
        }
    };
}
packer_full!(pack_seq_full, Seq, reload_seq_full);
packer_full!(pack_dict_full, Dict, reload_dict_full);
packer_full!(pack_seqdict_full, SeqDict, reload_seqdict_full);
packer!(pack_plain, Plain, reload_plain);
packer!(pack_seq, Seq, reload_seq);
packer!(pack_dict, Dict, reload_dict);
packer!(pack_seqdict, SeqDict, reload_seqdict);

type Bits = BitVec<Box<[usize]>>;

/// Attaches the selection structures named by `kind` to a base structure.
fn attach(ef: EliasFano, kind: &str, nb: bool) -> Built {
    unsafe {
        match kind {
            "plain" => pack_plain(ef, nb),
            // ---- IndexedSeq only
            "seq" => pack_seq(ef.map_high_bits(SelectAdaptConst::<_, _, 12, 3>::new), nb),
            "seq_c" => pack_seq(ef.map_high_bits(SelectAdaptConst::<_, _, 4, 1>::new), nb),
            "seq_c0" => pack_seq(ef.map_high_bits(SelectAdaptConst::<_, _, 6, 0>::new), nb),
            "seq_adapt" => pack_seq(ef.map_high_bits(|b: Bits| SelectAdapt::new(b, 3)), nb),
            "seq_inv" => pack_seq(ef.map_high_bits(|b: Bits| SelectAdapt::with_inv(b, 3, 1)), nb),
            "seq_sel9" => pack_seq(ef.map_high_bits(|b: Bits| Select9::new(Rank9::new(b))), nb),
            "seq_small" => pack_seq_full(
                ef.map_high_bits(|b: Bits| SelectSmall::<2, 9, _>::new(rank_small![0; b])),
                nb,
            ),
            "seq_small3" => pack_seq_full(
                ef.map_high_bits(|b: Bits| SelectSmall::<1, 11, _>::with_inv(rank_small![3; b], 1)),
                nb,
            ),
            // ---- IndexedDict + unchecked successor / predecessor only
            "dict" => pack_dict(ef.map_high_bits(SelectZeroAdaptConst::<_, _, 12, 3>::new), nb),
            "dict_c" => pack_dict(ef.map_high_bits(SelectZeroAdaptConst::<_, _, 4, 1>::new), nb),
            "dict_adapt" => pack_dict(ef.map_high_bits(|b: Bits| SelectZeroAdapt::new(b, 3)), nb),
            "dict_small" => pack_dict_full(
                ef.map_high_bits(|b: Bits| SelectZeroSmall::<1, 9, _>::new(rank_small![1; b])),
                nb,
            ),
            // ---- everything
            "seqdict" => pack_seqdict(
                ef.map_high_bits(SelectAdaptConst::<_, _, 12, 3>::new)
                    .map_high_bits(SelectZeroAdaptConst::<_, _, 12, 3>::new),
                nb,
            ),
            "seqdict_c" => pack_seqdict(
                ef.map_high_bits(SelectAdaptConst::<_, _, 4, 1>::new)
                    .map_high_bits(SelectZeroAdaptConst::<_, _, 5, 0>::new),
                nb,
            ),
            "seqdict_adapt" => pack_seqdict(
                ef.map_high_bits(|b: Bits| SelectAdapt::new(b, 3))
                    .map_high_bits(|b| SelectZeroAdapt::new(b, 3)),
                nb,
            ),
            "seqdict_inv" => pack_seqdict(
                ef.map_high_bits(|b: Bits| SelectAdapt::with_inv(b, 2, 0))
                    .map_high_bits(|b| SelectZeroAdapt::with_inv(b, 3, 1)),
                nb,
            ),
            "seqdict_sel9" => pack_seqdict(
                ef.map_high_bits(|b: Bits| Select9::new(Rank9::new(b)))
                    .map_high_bits(SelectZeroAdaptConst::<_, _, 12, 3>::new),
                nb,
            ),
            // ---- the same stacks built from the outside in, through the structures' own `map`
            "seqdict_map" => pack_seqdict(
                ef.map_high_bits(|b: Bits| {
                    SelectZeroAdaptConst::<_, _, 5, 0>::new(b).map(SelectAdaptConst::<_, _, 4, 1>::new)
                }),
                nb,
            ),
            "seqdict_map2" => pack_seqdict(
                ef.map_high_bits(|b: Bits| SelectAdapt::with_inv(b, 2, 0).map(|b| SelectZeroAdapt::with_inv(b, 3, 1))),
                nb,
            ),
            "seqdict_small" => pack_seqdict_full(
                ef.map_high_bits(|b: Bits| SelectSmall::<1, 10, _>::new(rank_small![2; b]))
                    .map_high_bits(SelectZeroSmall::<1, 10, _>::new),
                nb,
            ),
            _ => {
                eprintln!("ef: unknown kind {kind}");
                std::process::exit(2);
            }
        }
    }
}

/// The four convenience build methods exist on both builders with the same
/// names; everything else goes through build() + map_high_bits.
macro_rules! build_from {
    ($b:expr, $kind:expr, $nb:expr) => {
        match $kind {
            "seq" => {
                let ef: EfSeq = $b.build_with_seq();
                pack_seq(ef, $nb)
            }
            "dict" => {
                let ef: EfDict = $b.build_with_dict();
                pack_dict(ef, $nb)
            }
            "seqdict" => {
                let ef: EfSeqDict = $b.build_with_seq_and_dict();
                pack_seqdict(ef, $nb)
            }
            k => attach($b.build(), k, $nb),
        }
    };
}

enum St {
    None,
    B(EliasFanoBuilder),
    C(EliasFanoConcurrentBuilder),
    Ef(Built, String),
}

impl St {
    fn proj(&self) -> Value {
        match self {
            St::None => json!({"form": "none"}),
            St::B(_) => json!({"form": "builder"}),
            St::C(_) => json!({"form": "cbuilder"}),
            St::Ef(b, kind) => json!({"form": "ef", "kind": kind, "len": b.obj.len()}),
        }
    }
}

fn merge(mut a: Value, b: Value) -> Value {
    if let (Value::Object(x), Value::Object(y)) = (&mut a, b) {
        for (k, v) in y {
            x.insert(k, v);
        }
    }
    a
}

fn hints_of(op: &Value) -> bool {
    op.get("hints").map_or(true, |h| h.as_bool().unwrap_or(true))
}

const NA: &str = "\u{0}na";

// ---------------------------------------------------------------------------
// C13 (sequential equivalence): while the threads of a `cfill` run, the
// scheduling-point hook of the atomic vectors (compiled under --cfg sux_verif)
// makes them yield at random between their atomic operations, so that real
// interleavings of load / compare-exchange pairs on shared words do occur.
// The hook only delays; it never changes what is computed.
// ---------------------------------------------------------------------------
static JITTER: std::sync::atomic::AtomicBool = std::sync::atomic::AtomicBool::new(false);

fn jitter_hook(kind: u8, _word: usize) {
    use std::cell::Cell;
    use std::sync::atomic::Ordering::Relaxed;
    if !JITTER.load(Relaxed) {
        return;
    }
    thread_local! {
        static RNG: Cell<u64> = Cell::new({
            let t = std::time::SystemTime::now().duration_since(std::time::UNIX_EPOCH).unwrap().subsec_nanos() as u64;
            (t ^ 0x9E37_79B9_7F4A_7C15) | 1
        });
    }
    let r = RNG.with(|c| {
        let mut x = c.get();
        x ^= x << 13;
        x ^= x >> 7;
        x ^= x << 17;
        c.set(x);
        x
    });
    // before a compare-exchange (the window in which another writer can slip in) more often
    let p = if kind == sux::verif::BF_CAS { 3 } else { 8 };
    if r % p == 0 {
        std::thread::yield_now();
    } else if r % 64 == 1 {
        for _ in 0..(r >> 58) * 20 {
            std::hint::spin_loop();
        }
    }
}

pub fn run(ep: &Value, ctx: &mut Ctx) {
    // declared before `st` so that borrowed buffers outlive the structure
    let mut leaks = Leaks(Vec::new());
    let mut st = St::None;
    let ops = ep["ops"].as_array().unwrap();
    let needs_bytes = ops.iter().any(|o| o["op"] == "reload");
    let hdr = json!({"op": "BEGIN", "fam": "ef", "src": ep.get("src").cloned().unwrap_or(json!("?"))});
    ctx.begin(&hdr);
    ctx.emit(&hdr, "ret", st.proj());
    for op in ops {
        ctx.begin(op);
        // every other call (or as the script says) goes through the `&T` forwarding impls
        VIA_REF.with(|c| c.set(op.get("ref").and_then(|v| v.as_bool()).unwrap_or(ctx.i % 2 == 1)));
        let name = op["op"].as_str().unwrap();
        let na = || Err::<Value, String>(NA.to_string());
        let r: Result<Value, String> = match name {
            // ------------------------------------------------ builders
            "new" => {
                let (n, u) = (get_usize(op, "n"), wide(&op["u"]));
                st = St::None;
                guard(|| EliasFanoBuilder::new(n, u)).map(|b| {
                    st = St::B(b);
                    json!({})
                })
            }
            "cnew" => {
                let (n, u) = (get_usize(op, "n"), wide(&op["u"]));
                st = St::None;
                guard(|| EliasFanoConcurrentBuilder::new(n, u)).map(|b| {
                    st = St::C(b);
                    json!({})
                })
            }
            "push" => match &mut st {
                St::B(b) => {
                    let x = wide(&op["x"]);
                    guard(|| b.push(x)).map(|_| json!({}))
                }
                _ => na(),
            },
            // unsafe: the scripts call it only inside its precondition (fewer than n values so
            // far, value <= u and not smaller than the last one), which the specification re-checks
            "push_unchecked" => match &mut st {
                St::B(b) => {
                    let x = wide(&op["x"]);
                    guard(|| unsafe { b.push_unchecked(x) }).map(|_| json!({}))
                }
                _ => na(),
            },
            "extend" => match &mut st {
                St::B(b) => {
                    let xs = wide_list(&op["xs"]);
                    let r = guard(|| b.extend(xs)).map(|_| json!({}));
                    if r.is_err() {
                        // how much of a rejected batch was consumed is not specified:
                        // the builder is abandoned
                        st = St::None;
                    }
                    r
                }
                _ => na(),
            },
            "cset" => match &st {
                St::C(b) => {
                    // single-threaded use, inside the documented preconditions
                    let (i, x) = (get_usize(op, "i"), wide(&op["x"]));
                    guard(|| unsafe { b.set(i, x) }).map(|_| json!({}))
                }
                _ => na(),
            },
            "cfill" => match &st {
                St::C(b) => {
                    let xs = wide_list(&op["xs"]);
                    let parts: Vec<Vec<usize>> = op["parts"]
                        .as_array()
                        .unwrap()
                        .iter()
                        .map(|p| p.as_array().unwrap().iter().map(|i| i.as_u64().unwrap() as usize).collect())
                        .collect();
                    let mode = op["mode"].as_str().unwrap();
                    if ep.get("jitter").and_then(|j| j.as_bool()).unwrap_or(false) {
                        sux::verif::set_atomic_pre(jitter_hook);
                        JITTER.store(true, std::sync::atomic::Ordering::SeqCst);
                    }
                    let r = guard(|| match mode {
                        "threads" => std::thread::scope(|s| {
                            for p in &parts {
                                let xs = &xs;
                                s.spawn(move || {
                                    for &i in p {
                                        unsafe { b.set(i, xs[i]) }
                                    }
                                });
                            }
                        }),
                        "rayon" => {
                            use rayon::prelude::*;
                            let order: Vec<usize> = parts.iter().flatten().copied().collect();
                            order.par_iter().with_min_len(1).for_each(|&i| unsafe { b.set(i, xs[i]) });
                        }
                        _ => panic!("ef: unknown cfill mode"),
                    })
                    .map(|_| json!({}));
                    JITTER.store(false, std::sync::atomic::Ordering::SeqCst);
                    r
                }
                _ => na(),
            },
            "build" => {
                let kind = op["kind"].as_str().unwrap();
                match std::mem::replace(&mut st, St::None) {
                    St::B(b) => guard(|| build_from!(b, kind, needs_bytes)).map(|x| {
                        st = St::Ef(x, kind.to_string());
                        json!({})
                    }),
                    St::C(b) => guard(|| build_from!(b, kind, needs_bytes)).map(|x| {
                        st = St::Ef(x, kind.to_string());
                        json!({})
                    }),
                    o => {
                        st = o;
                        na()
                    }
                }
            }
            "from" => {
                let kind = op["kind"].as_str().unwrap();
                let xs = wide_list(&op["xs"]);
                let via = op.get("via").and_then(|v| v.as_str()).unwrap_or("vec");
                st = St::None;
                guard(|| {
                    let ef: EliasFano = match via {
                        "slice" => EliasFano::from(&xs[..]),
                        "boxed" => EliasFano::from(xs.into_boxed_slice()),
                        _ => xs.into(),
                    };
                    attach(ef, kind, needs_bytes)
                })
                .map(|x| {
                    st = St::Ef(x, kind.to_string());
                    json!({})
                })
            }
            "estimate_size" => {
                let (n, u) = (get_usize(op, "n"), wide(&op["u"]));
                guard(|| EliasFano::<Bits>::estimate_size(u, n)).map(|r| json!({"res": lim(r)}))
            }
            // ------------------------------------------------ the structure
            _ => match &mut st {
                St::Ef(b, _) => {
                    let o = &b.obj;
                    let q = || wide(&op["q"]);
                    let strict = || get_bool(op, "strict");
                    let h = hints_of(op);
                    match name {
                        "len" => guard(|| o.len()).map(|r| json!({"res": r})),
                        "iter" => guard(|| o.iter(h)).map(|w| w.json(h)),
                        "into_iter" => guard(|| o.into_iter(h)).map(|w| w.json(h)),
                        "mem_size" => guard(|| o.mem()).map(|r| json!({"res": r})),
                        "get" => match guard(|| o.get(get_usize(op, "i"))) {
                            Ok(Some(r)) => Ok(json!({"res": lim(r)})),
                            Ok(None) => na(),
                            Err(m) => Err(m),
                        },
                        "iter_from" => {
                            let via = op.get("via").and_then(|v| v.as_str()).unwrap_or("method") == "trait";
                            match guard(|| o.iter_from(get_usize(op, "k"), via, h)) {
                                Ok(Some(w)) => Ok(w.json(h)),
                                Ok(None) => na(),
                                Err(m) => Err(m),
                            }
                        }
                        "index_of" => match guard(|| o.index_of(q())) {
                            Ok(Some(r)) => Ok(json!({"res": opt(r)})),
                            Ok(None) => na(),
                            Err(m) => Err(m),
                        },
                        "contains" => match guard(|| o.contains(q())) {
                            Ok(Some(r)) => Ok(json!({"res": r})),
                            Ok(None) => na(),
                            Err(m) => Err(m),
                        },
                        "succ" | "succ_strict" => match guard(|| o.succ(q(), name == "succ_strict")) {
                            Ok(Some(r)) => Ok(json!({"res": pair(r)})),
                            Ok(None) => na(),
                            Err(m) => Err(m),
                        },
                        "pred" | "pred_strict" => match guard(|| o.pred(q(), name == "pred_strict")) {
                            Ok(Some(r)) => Ok(json!({"res": pair(r)})),
                            Ok(None) => na(),
                            Err(m) => Err(m),
                        },
                        "succ_unchecked" => match guard(|| o.succ_unchecked(q(), strict())) {
                            Ok(Some(r)) => Ok(json!({"res": pair(Some(r))})),
                            Ok(None) => na(),
                            Err(m) => Err(m),
                        },
                        "pred_unchecked" => match guard(|| o.pred_unchecked(q(), strict())) {
                            Ok(Some(r)) => Ok(json!({"res": pair(Some(r))})),
                            Ok(None) => na(),
                            Err(m) => Err(m),
                        },
                        "reload" => {
                            let mode = op["mode"].as_str().unwrap();
                            let rl = b.reloader;
                            let r = match b.bytes.as_ref().expect("bytes kept for reload") {
                                Err(m) => Err(m.clone()),
                                Ok(bytes) => match guard(|| rl(mode, bytes, &mut leaks)) {
                                    Ok(Ok(n)) => Ok(n),
                                    Ok(Err(m)) => Err(m), // includes NA: mode not available for this back-end
                                    Err(m) => Err(m),
                                },
                            };
                            r.map(|n| {
                                b.obj = n;
                                json!({})
                            })
                        }
                        _ => {
                            eprintln!("ef: unknown op {name}");
                            std::process::exit(2);
                        }
                    }
                }
                _ => match name {
                    "len" | "iter" | "into_iter" | "mem_size" | "get" | "iter_from" | "index_of" | "contains"
                    | "succ" | "succ_strict" | "pred" | "pred_strict" | "succ_unchecked" | "pred_unchecked"
                    | "reload" => na(),
                    _ => {
                        eprintln!("ef: unknown op {name}");
                        std::process::exit(2);
                    }
                },
            },
        };
        match r {
            Ok(f) => ctx.emit(op, "ret", merge(f, st.proj())),
            Err(m) if m == NA => ctx.emit(op, "na", st.proj()),
            Err(m) => ctx.emit(op, "panic", merge(json!({"msg": m.replace('"', "'")}), st.proj())),
        }
    }
    drop(st);
    drop(leaks);
}
