//! Family "sigstore": sux::utils::sig_store (property C18, C12 for this family).
//!
//! Episode fields: `kind` "online" | "offline", `st` "s1" ([u64; 1]) | "s2"
//! ([u64; 2]), `vt` "u8" | "u64" | "empty" (EmptyVal), `bb` bucket bits, `mb`
//! max shard bits, optional `exp` (expected number of keys).
//!
//! A signature is logged as the list of its 64-bit words (most significant
//! first), each word as base-2^15 little-endian limbs (`util::limbs`); values
//! are plain integers below 2^31. Scripts use the same representation, so the
//! arguments are copied verbatim into the trace.
//!
//! Every shard returned by an iterator is logged as a list of
//! `[sig, val, id]`, where `id` (1-based, 0 = none) is a *witness* for the
//! specification: the index, in push order, of a pushed pair with exactly that
//! signature and value that this pass has not been given yet. The
//! specification checks the witness (pushed[id] = <<sig, val>>, ids pairwise
//! distinct, shard computed from the signature bits); nothing is judged here.

use crate::util::*;
use crate::{guard, Ctx};
use epserde::prelude::*;
use serde_json::{json, Value};
use std::collections::HashMap;
use std::ops::{BitXor, BitXorAssign};
use std::sync::Arc;
use sux::utils::sig_store::{
    new_offline, new_online, EmptyVal, ShardStore, Sig, SigStore, SigVal,
};

trait HVal: ZeroCopy + Send + Sync + Copy + BitXor<Output = Self> + BitXorAssign + 'static {
    fn from_u64(x: u64) -> Self;
    fn to_u64(self) -> u64;
}
impl HVal for u8 {
    fn from_u64(x: u64) -> Self {
        x as u8
    }
    fn to_u64(self) -> u64 {
        self as u64
    }
}
impl HVal for u64 {
    fn from_u64(x: u64) -> Self {
        x
    }
    fn to_u64(self) -> u64 {
        self
    }
}
impl HVal for EmptyVal {
    fn from_u64(_: u64) -> Self {
        EmptyVal::default()
    }
    fn to_u64(self) -> u64 {
        0
    }
}

trait HSig: Sig + ZeroCopy + Send + Sync + Copy + 'static {
    fn from_words(w: &[u64]) -> Self;
    fn words(&self) -> Vec<u64>;
    fn xor<V: HVal>(a: SigVal<Self, V>, b: SigVal<Self, V>) -> SigVal<Self, V>;
    fn xor_assign<V: HVal>(a: &mut SigVal<Self, V>, b: SigVal<Self, V>);
}
impl HSig for [u64; 1] {
    fn from_words(w: &[u64]) -> Self {
        [w[0]]
    }
    fn words(&self) -> Vec<u64> {
        self.to_vec()
    }
    fn xor<V: HVal>(a: SigVal<Self, V>, b: SigVal<Self, V>) -> SigVal<Self, V> {
        a ^ b
    }
    fn xor_assign<V: HVal>(a: &mut SigVal<Self, V>, b: SigVal<Self, V>) {
        *a ^= b;
    }
}
impl HSig for [u64; 2] {
    fn from_words(w: &[u64]) -> Self {
        [w[0], w[1]]
    }
    fn words(&self) -> Vec<u64> {
        self.to_vec()
    }
    fn xor<V: HVal>(a: SigVal<Self, V>, b: SigVal<Self, V>) -> SigVal<Self, V> {
        a ^ b
    }
    fn xor_assign<V: HVal>(a: &mut SigVal<Self, V>, b: SigVal<Self, V>) {
        *a ^= b;
    }
}

fn words_of(v: &Value) -> Vec<u64> {
    v.as_array()
        .unwrap_or_else(|| panic!("signature must be a list of words: {v}"))
        .iter()
        .map(|w| of_limbs(w) as u64)
        .collect()
}

fn sig_json(words: &[u64]) -> Value {
    Value::Array(words.iter().map(|&w| json!(limbs(w as u128))).collect())
}

fn pair_of<S: HSig, V: HVal>(sig: &Value, val: &Value) -> SigVal<S, V> {
    SigVal {
        sig: S::from_words(&words_of(sig)),
        val: V::from_u64(val.as_u64().unwrap_or(0)),
    }
}

type Key = (Vec<u64>, u64);

/// Push-order registry used only to attach witnesses to returned pairs.
#[derive(Default)]
struct Registry {
    n: usize,
    index: HashMap<Key, Vec<usize>>,
}

impl Registry {
    fn add<S: HSig, V: HVal>(&mut self, sv: &SigVal<S, V>) {
        self.n += 1;
        self.index
            .entry((sv.sig.words(), sv.val.to_u64()))
            .or_default()
            .push(self.n);
    }
}

/// Drives one iterator: at most `take` calls of next() (stopping at the first
/// None), then, if None was seen, `extra` further calls.
fn pass<S: HSig, V: HVal, I: Iterator<Item = Arc<Vec<SigVal<S, V>>>>>(
    mut it: I,
    take: usize,
    extra: usize,
    reg: &Registry,
) -> Value {
    let hint = |it: &I| {
        let (lo, hi) = it.size_hint();
        json!([lo, opt(hi)])
    };
    let mut cursor: HashMap<Key, usize> = HashMap::new();
    let mut shards = Vec::new();
    let mut hints = vec![hint(&it)];
    let mut ended = false;
    let mut calls = 0;
    while calls < take {
        calls += 1;
        match it.next() {
            None => {
                ended = true;
                break;
            }
            Some(shard) => {
                let mut out = Vec::with_capacity(shard.len());
                for sv in shard.iter() {
                    let key = (sv.sig.words(), sv.val.to_u64());
                    let c = cursor.entry(key.clone()).or_insert(0);
                    let id = reg
                        .index
                        .get(&key)
                        .and_then(|ids| ids.get(*c))
                        .copied()
                        .unwrap_or(0);
                    *c += 1;
                    out.push(json!([sig_json(&key.0), key.1, id]));
                }
                shards.push(Value::Array(out));
                hints.push(hint(&it));
            }
        }
    }
    let mut extra_some = 0;
    if ended {
        for _ in 0..extra {
            if it.next().is_some() {
                extra_some += 1;
            }
        }
    }
    json!({"shards": shards, "hints": hints, "ended": ended, "extra_some": extra_some})
}

enum St<SS, SH> {
    Sig(SS),
    Shard(SH),
    Gone,
}

fn tool_error(msg: String) -> ! {
    eprintln!("sigstore executor: environment failure: {msg}");
    std::process::exit(2);
}

fn run_typed<S: HSig, V: HVal, SS: SigStore<S, V>>(
    make: impl FnOnce() -> anyhow::Result<SS>,
    hdr: &Value,
    ep: &Value,
    ctx: &mut Ctx,
) {
    ctx.begin(hdr);
    let mut st: St<SS, SS::ShardStore> = match guard(make) {
        Ok(Ok(s)) => {
            ctx.emit(hdr, "ret", json!({}));
            St::Sig(s)
        }
        Ok(Err(e)) => tool_error(format!("{e:?}")),
        Err(msg) => {
            ctx.emit(hdr, "panic", json!({"msg": msg}));
            St::Gone
        }
    };
    let mut reg = Registry::default();
    for op in ep["ops"].as_array().unwrap() {
        ctx.begin(op);
        let name = op["op"].as_str().unwrap();
        // Err("na"): the operation does not exist in the current phase
        let r: Result<Value, String> = match (name, &mut st) {
            ("push", St::Sig(s)) => {
                let sv: SigVal<S, V> = pair_of(&op["sig"], &op["val"]);
                guard(|| s.try_push(sv)).map(|r| {
                    if let Err(e) = r {
                        tool_error(format!("{e:?}"));
                    }
                    reg.add(&sv);
                    json!({"res": s.len()})
                })
            }
            ("push_many", St::Sig(s)) => {
                let items: Vec<SigVal<S, V>> = op["items"]
                    .as_array()
                    .unwrap()
                    .iter()
                    .map(|p| pair_of(&p[0], &p[1]))
                    .collect();
                guard(|| {
                    for sv in &items {
                        if let Err(e) = s.try_push(*sv) {
                            tool_error(format!("{e:?}"));
                        }
                    }
                })
                .map(|_| {
                    for sv in &items {
                        reg.add(sv);
                    }
                    json!({"res": s.len()})
                })
            }
            ("len", St::Sig(s)) => guard(|| s.len()).map(|n| json!({"res": n})),
            ("is_empty", St::Sig(s)) => guard(|| s.is_empty()).map(|b| json!({"res": b})),
            ("max_shard_high_bits", St::Sig(s)) => {
                guard(|| s.max_shard_high_bits()).map(|b| json!({"res": b}))
            }
            ("temp_dir", St::Sig(s)) => guard(|| s.temp_dir().is_some()).map(|b| json!({"res": b})),
            ("into_shard_store", St::Sig(_)) => {
                let s = match std::mem::replace(&mut st, St::Gone) {
                    St::Sig(s) => s,
                    _ => unreachable!(),
                };
                let bits = op["s"].as_u64().unwrap() as u32;
                guard(move || s.into_shard_store(bits)).map(|r| match r {
                    Ok(sh) => {
                        let v = json!({"sizes": sh.shard_sizes().to_vec(), "slen": sh.len()});
                        st = St::Shard(sh);
                        v
                    }
                    Err(e) => tool_error(format!("{e:?}")),
                })
            }
            ("shard_sizes", St::Shard(sh)) => {
                guard(|| sh.shard_sizes().to_vec()).map(|v| json!({"res": v}))
            }
            ("store_len", St::Shard(sh)) => guard(|| sh.len()).map(|n| json!({"res": n})),
            ("iter", St::Shard(sh)) => {
                let (take, extra) = (get_usize(op, "take"), get_usize(op, "extra"));
                guard(|| pass(sh.iter(), take, extra, &reg))
            }
            ("into_iter", St::Shard(_)) => {
                let sh = match std::mem::replace(&mut st, St::Gone) {
                    St::Shard(sh) => sh,
                    _ => unreachable!(),
                };
                let (take, extra) = (get_usize(op, "take"), get_usize(op, "extra"));
                guard(|| pass(sh.into_iter(), take, extra, &reg))
            }
            // ---- operations on signatures and pairs (no store involved)
            ("high_bits", _) => {
                let sig = S::from_words(&words_of(&op["sig"]));
                let b = op["b"].as_u64().unwrap() as u32;
                guard(|| sig.high_bits(b, (1u64 << b) - 1))
                    .map(|x| json!({"res": bits_of_u128(x as u128)}))
            }
            ("sv_xor", _) | ("sv_xor_assign", _) => {
                let a: SigVal<S, V> = pair_of(&op["a"][0], &op["a"][1]);
                let b: SigVal<S, V> = pair_of(&op["b"][0], &op["b"][1]);
                guard(|| {
                    if name == "sv_xor" {
                        S::xor(a, b)
                    } else {
                        let mut c = a;
                        S::xor_assign(&mut c, b);
                        c
                    }
                })
                .map(|c| json!({"res": [sig_json(&c.sig.words()), c.val.to_u64()]}))
            }
            ("sv_eq", _) => {
                let a: SigVal<S, V> = pair_of(&op["a"][0], &op["a"][1]);
                let b: SigVal<S, V> = pair_of(&op["b"][0], &op["b"][1]);
                guard(|| a == b).map(|e| json!({"res": e}))
            }
            _ => Err("na".to_string()),
        };
        match r {
            Ok(v) => ctx.emit(op, "ret", v),
            Err(msg) if msg == "na" => ctx.emit(op, "na", json!({})),
            Err(msg) => ctx.emit(op, "panic", json!({"msg": msg.replace('"', "'")})),
        }
    }
}

pub fn run(ep: &Value, ctx: &mut Ctx) {
    let kind = ep["kind"].as_str().unwrap_or("online").to_string();
    let st = ep["st"].as_str().unwrap_or("s1").to_string();
    let vt = ep["vt"].as_str().unwrap_or("u64").to_string();
    let bb = get_usize(ep, "bb") as u32;
    let mb = get_usize(ep, "mb") as u32;
    let exp: Option<usize> = ep
        .get("exp")
        .and_then(|v| v.as_array())
        .and_then(|a| a.first())
        .and_then(|v| v.as_u64())
        .map(|n| n as usize);
    let hdr = json!({"op": "BEGIN", "fam": "sigstore", "src": ep.get("src").cloned().unwrap_or(json!("?")),
                     "kind": kind, "st": st, "vt": vt, "bb": bb, "mb": mb});
    macro_rules! go {
        ($s:ty, $v:ty) => {
            if kind == "offline" {
                run_typed::<$s, $v, _>(|| new_offline::<$s, $v>(bb, mb, exp), &hdr, ep, ctx)
            } else {
                run_typed::<$s, $v, _>(|| new_online::<$s, $v>(bb, mb, exp), &hdr, ep, ctx)
            }
        };
    }
    match (st.as_str(), vt.as_str()) {
        ("s1", "u8") => go!([u64; 1], u8),
        ("s1", "u64") => go!([u64; 1], u64),
        ("s1", "empty") => go!([u64; 1], EmptyVal),
        ("s2", "u8") => go!([u64; 2], u8),
        ("s2", "u64") => go!([u64; 2], u64),
        ("s2", "empty") => go!([u64; 2], EmptyVal),
        _ => {
            eprintln!("sigstore: unknown types {st}/{vt}");
            std::process::exit(2);
        }
    }
}
