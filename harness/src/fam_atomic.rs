//! Family "atomic": concurrent writers on AtomicBitFieldVec / AtomicBitVec
//! under a deterministic scheduler (property C13, spec/Atomic.tla).
//!
//! An episode describes an *instance* (word size `w`, field `width`, `flen`
//! fields over `nfw` words with initial contents `finit`; a bit vector of
//! `blen` bits over `nbw` words with `binit`; `prog`: for every thread its
//! list of jobs) and its `ops` are the schedule:
//!
//!   {"op":"step","t":T}     thread T (1-based) executes its next atomic instruction
//!   {"op":"run","policy":P,"seed":S,"n":N,...}  the executor chooses threads by
//!                           policy P for N steps (0: until all are done) and
//!                           emits one "step" event per step
//!   {"op":"end"}            remaining threads are run to completion (lowest
//!                           id first, one "step" event per step), joined, and
//!                           the final contents are logged
//!
//!   {"op":"free","reps":R}  (only as the first op) the threads run *unscheduled*
//!                           behind a spin barrier, R times from the same
//!                           initial memory; one "free" event lists the
//!                           distinct outcomes (final memory, job outcomes);
//!                           the last repetition's state is what "end" logs.
//!                           Instructions that no hook announces race here.
//!
//! Every "step" event records what happened, never what should have happened:
//! the thread, the hook kind and word index of the instruction it executed,
//! the contents of that word afterwards (`cur`), every word of either vector
//! that differs from the previous snapshot (`chg`), where the thread parked
//! next (`nx`, empty when it finished) and the value returned by a swap / get
//! that completed (`r`). Trace_Atomic.tla decides.
//!
//! mode "vec" (default): the jobs run on an AtomicBitFieldVec and an
//! AtomicBitVec owned by the executor (memory visible after every step).
//! mode "efb": the jobs are `EliasFanoConcurrentBuilder::set(idx, x)` calls on
//! a real builder; its vectors are private, so steps carry no memory (only
//! hook, next hook), and the end event carries the low/high bits and the
//! values of the built structure next to those of the sequential builder.

use crate::util::*;
use crate::{guard, Ctx};
use serde_json::{json, Value};
use std::sync::atomic::{
    AtomicU16, AtomicU32, AtomicU64, AtomicU8, AtomicUsize, Ordering,
};
use std::sync::Mutex;
use sux::bits::{AtomicBitFieldVec, AtomicBitVec, BitFieldVec, BitVec};
use sux::dict::{EliasFano, EliasFanoBuilder, EliasFanoConcurrentBuilder};
use sux::traits::{AtomicBitFieldSlice, BitFieldSlice, BitFieldSliceCore};

#[path = "sched.rs"]
mod sched;
use sched::{Sched, Status};

/// The operations of the bit-field vector used here, for every word type.
trait FieldOps: Sync {
    fn set(&self, idx: usize, val: u64, ord: Ordering);
    unsafe fn set_unchecked(&self, idx: usize, val: u64, ord: Ordering);
    fn get(&self, idx: usize, ord: Ordering) -> u64;
    fn snapshot(&self) -> Vec<u64>;
    /// overwrites the backing words (between free-running repetitions)
    fn store_words(&self, words: &[u64]);
    /// conversion to the non-atomic form: (value of every field, backing words)
    fn into_plain(self: Box<Self>) -> (Vec<u64>, Vec<u64>);
}

macro_rules! field_ops {
    ($w:ty, $a:ty) => {
        impl FieldOps for AtomicBitFieldVec<$w, Vec<$a>> {
            fn set(&self, idx: usize, val: u64, ord: Ordering) {
                self.set_atomic(idx, val as $w, ord)
            }
            unsafe fn set_unchecked(&self, idx: usize, val: u64, ord: Ordering) {
                self.set_atomic_unchecked(idx, val as $w, ord)
            }
            fn get(&self, idx: usize, ord: Ordering) -> u64 {
                self.get_atomic(idx, ord) as u64
            }
            fn snapshot(&self) -> Vec<u64> {
                self.as_slice().iter().map(|x| x.load(Ordering::SeqCst) as u64).collect()
            }
            fn store_words(&self, words: &[u64]) {
                for (a, x) in self.as_slice().iter().zip(words) {
                    a.store(*x as $w, Ordering::SeqCst);
                }
            }
            fn into_plain(self: Box<Self>) -> (Vec<u64>, Vec<u64>) {
                let n = BitFieldSliceCore::<$a>::len(&*self);
                let p: BitFieldVec<$w, Vec<$w>> = (*self).into();
                let vals = (0..n).map(|i| p.get(i) as u64).collect();
                let words = p.as_slice().iter().map(|x| *x as u64).collect();
                (vals, words)
            }
        }
    };
}
field_ops!(u8, AtomicU8);
field_ops!(u16, AtomicU16);
field_ops!(u32, AtomicU32);
field_ops!(u64, AtomicU64);
field_ops!(usize, AtomicUsize);

fn make_field(w: u64, usize_word: bool, words: &[u64], width: usize, len: usize) -> Box<dyn FieldOps> {
    macro_rules! mk {
        ($w:ty, $a:ty) => {
            Box::new(unsafe {
                AtomicBitFieldVec::<$w, Vec<$a>>::from_raw_parts(
                    words.iter().map(|x| <$a>::new(*x as $w)).collect(),
                    width,
                    len,
                )
            })
        };
    }
    match (w, usize_word) {
        (8, _) => mk!(u8, AtomicU8),
        (16, _) => mk!(u16, AtomicU16),
        (32, _) => mk!(u32, AtomicU32),
        (64, false) => mk!(u64, AtomicU64),
        (64, true) => mk!(usize, AtomicUsize),
        _ => {
            eprintln!("atomic: unsupported word size {w}");
            std::process::exit(2);
        }
    }
}

#[derive(Clone)]
struct Job {
    kind: String,
    idx: usize,
    val: u64,
    flag: bool, // swapbit: the value to store
    hi: usize,
    x: usize, // efb: the value passed to EliasFanoConcurrentBuilder::set
}

fn word_of_bits(v: &Value) -> u64 {
    u128_of_bits(v) as u64
}

fn bits(x: u64) -> Vec<u32> {
    bits_of_u128(x as u128)
}

fn per_word(words: &[u64]) -> Value {
    Value::Array(words.iter().map(|x| json!(bits(*x))).collect())
}

fn per_usize_word(words: &[usize]) -> Value {
    Value::Array(words.iter().map(|x| json!(bits(*x as u64))).collect())
}

const KINDS: [&str; 4] = ["bf_load", "bf_cas", "bv_load", "bv_rmw"];

struct SplitMix(u64);
impl SplitMix {
    fn next(&mut self) -> u64 {
        self.0 = self.0.wrapping_add(0x9E3779B97F4A7C15);
        let mut z = self.0;
        z = (z ^ (z >> 30)).wrapping_mul(0xBF58476D1CE4E5B9);
        z = (z ^ (z >> 27)).wrapping_mul(0x94D049BB133111EB);
        z ^ (z >> 31)
    }
    fn below(&mut self, n: usize) -> usize {
        (self.next() % n as u64) as usize
    }
}

/// Interprets the schedule: calls `step(t)` (t 0-based) once per scheduler
/// step, then runs whatever is left to completion, lowest thread first.
/// Only *which thread runs next* is decided here.
fn drive(ops: &[Value], nt: usize, s: &Sched, step: &mut dyn FnMut(usize)) {
    for op in ops {
        match op["op"].as_str().unwrap() {
            "step" => {
                let t = get_usize(op, "t");
                if t == 0 || t > nt {
                    eprintln!("atomic: step of unknown thread {t}");
                    std::process::exit(2);
                }
                step(t - 1);
            }
            "run" => {
                let policy = op["policy"].as_str().unwrap();
                let n = op.get("n").and_then(|v| v.as_u64()).unwrap_or(0) as usize;
                let q = op.get("q").and_then(|v| v.as_u64()).unwrap_or(1).max(1) as usize;
                let mut rng = SplitMix(op.get("seed").and_then(|v| v.as_u64()).unwrap_or(0));
                // pct: priorities (highest first) and the steps after which the
                // thread that just ran drops to the lowest priority
                let mut prio: Vec<usize> = match op.get("prio").and_then(|v| v.as_array()) {
                    Some(a) => a.iter().map(|x| x.as_u64().unwrap() as usize - 1).collect(),
                    None => (0..nt).collect(),
                };
                for t in 0..nt {
                    if !prio.contains(&t) {
                        prio.push(t);
                    }
                }
                let chg: Vec<usize> = op
                    .get("chg")
                    .and_then(|v| v.as_array())
                    .map_or(vec![], |a| a.iter().map(|x| x.as_u64().unwrap() as usize).collect());
                let mut steps = 0usize;
                let mut cur: Option<usize> = None; // burst / rr: thread being run
                let mut left = 0usize;
                loop {
                    let alive: Vec<usize> = (0..nt).filter(|t| s.status(*t) != Status::Done).collect();
                    if alive.is_empty() || (n != 0 && steps >= n) {
                        break;
                    }
                    let t = match policy {
                        "rand" => alive[rng.below(alive.len())],
                        "lowest" => alive[0],
                        "highest" => alive[alive.len() - 1],
                        "pct" => *prio.iter().find(|t| alive.contains(t)).unwrap(),
                        "burst" | "rr" => {
                            if left == 0 || cur.map_or(true, |c| !alive.contains(&c)) {
                                cur = Some(if policy == "burst" {
                                    left = 1 + rng.below(q);
                                    alive[rng.below(alive.len())]
                                } else {
                                    left = q;
                                    // next alive thread after the current one
                                    let c = cur.map_or(nt - 1, |c| c);
                                    *alive.iter().find(|t| **t > c).unwrap_or(&alive[0])
                                });
                            }
                            left -= 1;
                            cur.unwrap()
                        }
                        p => {
                            eprintln!("atomic: unknown policy {p}");
                            std::process::exit(2);
                        }
                    };
                    step(t);
                    steps += 1;
                    if policy == "pct" && chg.contains(&steps) {
                        prio.retain(|x| *x != t);
                        prio.push(t);
                    }
                }
            }
            "end" => break,
            o => {
                eprintln!("atomic: unknown op {o}");
                std::process::exit(2);
            }
        }
    }
    while let Some(t) = (0..nt).find(|t| s.status(*t) != Status::Done) {
        step(t);
    }
}

/// Start line of the free-running repetitions: no lock, no sleep on the fast
/// path, so the threads leave it within nanoseconds of each other.
struct SpinBarrier {
    count: AtomicUsize,
    gen: AtomicUsize,
    n: usize,
}

impl SpinBarrier {
    fn new(n: usize) -> Self {
        SpinBarrier { count: AtomicUsize::new(0), gen: AtomicUsize::new(0), n }
    }
    fn wait(&self) {
        let g = self.gen.load(Ordering::Acquire);
        if self.count.fetch_add(1, Ordering::AcqRel) + 1 == self.n {
            self.count.store(0, Ordering::Relaxed);
            self.gen.fetch_add(1, Ordering::Release);
        } else {
            let mut spins = 0u32;
            while self.gen.load(Ordering::Acquire) == g {
                spins += 1;
                if spins > 20_000 {
                    std::thread::yield_now();
                } else {
                    std::hint::spin_loop();
                }
            }
        }
    }
}

/// `reps` of a leading {"op":"free"} op
fn free_reps(ops: &[Value]) -> Option<usize> {
    match ops.first() {
        Some(o) if o["op"].as_str() == Some("free") => Some(get_usize(o, "reps").max(1)),
        _ => None,
    }
}

const MAX_OUTCOMES: usize = 48;

fn run_job(
    j: &Job,
    field: &dyn FieldOps,
    bitv: &AtomicBitVec<Vec<AtomicUsize>>,
    ord: Ordering,
) -> Result<Option<bool>, String> {
    guard(|| match j.kind.as_str() {
        "setfield" => {
            field.set(j.idx, j.val, ord);
            None
        }
        "efset" => {
            // the body of EliasFanoConcurrentBuilder::set
            unsafe { field.set_unchecked(j.idx, j.val, ord) };
            bitv.set(j.hi, true, ord);
            None
        }
        "setbit" => {
            bitv.set(j.idx, true, ord);
            None
        }
        "clearbit" => {
            bitv.set(j.idx, false, ord);
            None
        }
        "swapbit" => Some(bitv.swap(j.idx, j.flag, ord)),
        "getbit" => Some(bitv.get(j.idx, ord)),
        k => {
            eprintln!("atomic: unknown job kind {k}");
            std::process::exit(2);
        }
    })
}

/// The free-running repetitions on the executor's own vectors (mode "vec").
#[allow(clippy::too_many_arguments)]
fn run_free(
    ctx: &mut Ctx,
    reps: usize,
    progs: &[Vec<Job>],
    field: &dyn FieldOps,
    bitv: &AtomicBitVec<Vec<AtomicUsize>>,
    finit: &[u64],
    binit: &[u64],
    ord: Ordering,
    outs: &Outs,
) {
    let nt = progs.len();
    let op = json!({"op": "free", "reps": reps});
    ctx.begin(&op);
    let bar = SpinBarrier::new(nt + 1);
    let mut outcomes: Vec<Value> = Vec::new();
    let mut seen = std::collections::HashSet::new();
    let mut distinct = 0usize;
    std::thread::scope(|scope| {
        for (tid, prog) in progs.iter().enumerate() {
            let bar = &bar;
            scope.spawn(move || {
                for rep in 0..reps {
                    bar.wait();
                    // a few cycles of skew, different in every repetition
                    for _ in 0..((rep * 7 + tid * 13 + rep / 11) % 24) {
                        std::hint::spin_loop();
                    }
                    for j in prog {
                        let r = run_job(j, field, bitv, ord);
                        outs[tid].lock().unwrap().push(match r {
                            Ok(b) => (true, b),
                            Err(_) => (false, None),
                        });
                    }
                    bar.wait();
                }
            });
        }
        for rep in 0..reps {
            if rep > 0 {
                field.store_words(finit);
                let w: &[AtomicUsize] = bitv.as_ref();
                for (a, x) in w.iter().zip(binit) {
                    a.store(*x as usize, Ordering::SeqCst);
                }
                for o in outs.iter() {
                    o.lock().unwrap().clear();
                }
            }
            bar.wait(); // start
            bar.wait(); // every program is over
            let w: &[AtomicUsize] = bitv.as_ref();
            let bmem: Vec<u64> = w.iter().map(|x| x.load(Ordering::SeqCst) as u64).collect();
            let x = json!({"fmem": per_word(&field.snapshot()), "bmem": per_word(&bmem), "outs": outs_json(outs)});
            let fresh = seen.insert(x.to_string());
            if fresh {
                distinct += 1;
            }
            if (fresh && outcomes.len() < MAX_OUTCOMES) || rep + 1 == reps {
                outcomes.push(x);
            }
        }
    });
    ctx.emit(&op, "ret", json!({"outcomes": outcomes, "distinct": distinct}));
}

fn nx_of(after: Status) -> Value {
    match after {
        Status::Parked(k2, w2) => json!([KINDS[k2 as usize & 3], w2]),
        _ => json!([]),
    }
}

type Outs = Vec<Mutex<Vec<(bool, Option<bool>)>>>;

fn outs_json(outs: &Outs) -> Vec<Value> {
    outs.iter()
        .map(|m| {
            Value::Array(
                m.lock()
                    .unwrap()
                    .iter()
                    .map(|(ok, r)| json!([if *ok { "ret" } else { "panic" }, opt(*r)]))
                    .collect(),
            )
        })
        .collect()
}

pub fn run(ep: &Value, ctx: &mut Ctx) {
    sched::install();
    let w = get_usize(ep, "w") as u64;
    let width = get_usize(ep, "width");
    let flen = get_usize(ep, "flen");
    let nfw = get_usize(ep, "nfw");
    let blen = get_usize(ep, "blen");
    let nbw = get_usize(ep, "nbw");
    let efb = ep.get("mode").and_then(|v| v.as_str()) == Some("efb");
    let ord = match ep["ord"].as_str().unwrap_or("relaxed") {
        "seqcst" => Ordering::SeqCst,
        "acquire" => Ordering::Acquire,
        _ => Ordering::Relaxed,
    };
    let usize_word = ep.get("wt").and_then(|v| v.as_str()) != Some("u64");
    let finit: Vec<u64> = ep["finit"].as_array().unwrap().iter().map(word_of_bits).collect();
    let binit: Vec<u64> = ep["binit"].as_array().unwrap().iter().map(word_of_bits).collect();
    // scripts must stay inside what from_raw_parts requires
    if finit.len() != nfw || binit.len() != nbw || flen * width > nfw * w as usize || blen > nbw * 64 || nfw == 0 {
        eprintln!("atomic: malformed instance");
        std::process::exit(2);
    }
    let progs: Vec<Vec<Job>> = ep["prog"]
        .as_array()
        .unwrap()
        .iter()
        .map(|p| {
            p.as_array()
                .unwrap()
                .iter()
                .map(|j| Job {
                    kind: j["kind"].as_str().unwrap().to_string(),
                    idx: j["idx"].as_u64().unwrap() as usize,
                    val: word_of_bits(&j["val"]),
                    flag: j["val"].as_array().map_or(false, |a| !a.is_empty()),
                    hi: j["hi"].as_u64().unwrap_or(0) as usize,
                    x: j.get("x").and_then(|v| v.as_u64()).unwrap_or(0) as usize,
                })
                .collect()
        })
        .collect();
    for p in &progs {
        for j in p {
            // efset goes through set_atomic_unchecked, as the builder does: its
            // arguments must be in range (the generators guarantee it)
            if j.kind == "efset"
                && (j.idx >= flen || j.hi >= blen || (width < 64 && j.val >> width != 0))
            {
                eprintln!("atomic: efset job outside its domain");
                std::process::exit(2);
            }
            if efb && j.kind != "efset" {
                eprintln!("atomic: mode efb takes efset jobs only");
                std::process::exit(2);
            }
        }
    }
    let nt = progs.len();

    let mut hdr = serde_json::Map::new();
    hdr.insert("op".into(), json!("BEGIN"));
    for k in [
        "fam", "src", "mode", "w", "width", "flen", "nfw", "blen", "nbw", "finit", "binit", "prog", "ord", "wt",
        "n", "u",
    ] {
        if let Some(v) = ep.get(k) {
            hdr.insert(k.into(), v.clone());
        }
    }
    if !hdr.contains_key("mode") {
        hdr.insert("mode".into(), json!("vec"));
    }
    let hdr = Value::Object(hdr);
    let ops = ep["ops"].as_array().unwrap();
    // per thread: (outcome, returned bit) of every job completed so far
    let outs: Outs = (0..nt).map(|_| Mutex::new(Vec::new())).collect();
    let s = Sched::new(nt);

    if efb {
        run_efb(ep, ctx, &hdr, ops, &progs, &outs, &s);
        return;
    }

    let field: Box<dyn FieldOps> = make_field(w, usize_word, &finit, width, flen);
    let bitv: AtomicBitVec<Vec<AtomicUsize>> = unsafe {
        AtomicBitVec::from_raw_parts(binit.iter().map(|x| AtomicUsize::new(*x as usize)).collect(), blen)
    };
    let bsnap = |b: &AtomicBitVec<Vec<AtomicUsize>>| -> Vec<u64> {
        let s: &[AtomicUsize] = b.as_ref();
        s.iter().map(|x| x.load(Ordering::SeqCst) as u64).collect()
    };

    // header: the instance (copied from the script) and the memory as observed
    ctx.begin(&hdr);
    ctx.emit(&hdr, "ret", json!({"f0": per_word(&field.snapshot()), "b0": per_word(&bsnap(&bitv))}));

    let free = free_reps(ops);
    if let Some(reps) = free {
        run_free(ctx, reps, &progs, &*field, &bitv, &finit, &binit, ord, &outs);
    }
    if free.is_none() {
    std::thread::scope(|scope| {
        for (tid, prog) in progs.iter().enumerate() {
            let s = s.clone();
            let field = &*field;
            let bitv = &bitv;
            let outs = &outs;
            scope.spawn(move || {
                let _me = s.enter(tid);
                for j in prog {
                    let r = run_job(j, field, bitv, ord);
                    outs[tid].lock().unwrap().push(match r {
                        Ok(b) => (true, b),
                        Err(_) => (false, None),
                    });
                }
            });
        }
        s.settle();

        let mut fprev = field.snapshot();
        let mut bprev = bsnap(&bitv);
        // jobs that ended before the first instruction of their thread
        let mut seen_outs: Vec<usize> = (0..nt).map(|t| outs[t].lock().unwrap().len()).collect();

        // one scheduler step of thread t (0-based), one event
        let mut do_step = |t: usize| {
            let op = json!({"op": "step", "t": t + 1});
            ctx.begin(&op);
            match s.status(t) {
                Status::Done => ctx.emit(&op, "na", json!({})),
                Status::Running => unreachable!(),
                Status::Parked(kind, word) => {
                    let after = s.step(t);
                    let f = field.snapshot();
                    let b = bsnap(&bitv);
                    let mut chg = Vec::new();
                    for k in 0..f.len() {
                        if f[k] != fprev[k] {
                            chg.push(json!({"v": "f", "k": k, "bits": bits(f[k])}));
                        }
                    }
                    for k in 0..b.len() {
                        if b[k] != bprev[k] {
                            chg.push(json!({"v": "b", "k": k, "bits": bits(b[k])}));
                        }
                    }
                    let touched = if kind <= 1 { <[u64]>::get(&f, word) } else { <[u64]>::get(&b, word) };
                    let cur = match touched {
                        Some(x) => json!(bits(*x)),
                        None => json!([-1]),
                    };
                    let o = outs[t].lock().unwrap();
                    let r: Vec<bool> = o[seen_outs[t]..].iter().filter_map(|x| x.1).collect();
                    seen_outs[t] = o.len();
                    drop(o);
                    fprev = f;
                    bprev = b;
                    ctx.emit(
                        &op,
                        "ret",
                        json!({"kind": KINDS[kind as usize & 3], "word": word, "cur": cur, "chg": chg,
                               "nx": nx_of(after), "r": r}),
                    );
                }
            }
        };
        drive(ops, nt, &s, &mut do_step);
    });
    }

    // all threads are joined: final contents, through every observation path
    let op = json!({"op": "end"});
    ctx.begin(&op);
    let fmem = field.snapshot();
    let bmem = bsnap(&bitv);
    let fget: Vec<Value> = (0..flen)
        .map(|i| match guard(|| field.get(i, ord)) {
            Ok(x) => json!(bits(x)),
            Err(_) => json!([-1]),
        })
        .collect();
    let bget: Vec<usize> = (0..blen).filter(|i| bitv.get(*i, ord)).collect();
    let (fconv, fconvw) = field.into_plain();
    let plain: BitVec<Vec<usize>> = bitv.into();
    let bconv: Vec<usize> = (0..blen).filter(|i| plain.get(*i)).collect();
    let bconvw: Vec<u64> = AsRef::<[usize]>::as_ref(&plain).iter().map(|x| *x as u64).collect();
    ctx.emit(
        &op,
        "ret",
        json!({
            "fmem": per_word(&fmem), "bmem": per_word(&bmem),
            "fget": fget, "bget": bget,
            "fconv": fconv.iter().map(|x| json!(bits(*x))).collect::<Vec<_>>(),
            "fconvw": per_word(&fconvw), "bconv": bconv, "bconvw": per_word(&bconvw),
            "outs": outs_json(&outs),
        }),
    );
}

/// What can be seen of a built Elias-Fano structure: width and words of the
/// low bits, length and words of the high bits, and the values it iterates.
fn ef_parts(ef: EliasFano) -> Value {
    let vals: Vec<usize> = ef.iter().collect();
    let n = ef.len();
    let mut low = json!(null);
    let ef = unsafe {
        ef.map_low_bits(|l| {
            low = json!({"lw": BitFieldSliceCore::<usize>::bit_width(&l), "llen": BitFieldSliceCore::<usize>::len(&l),
                         "low": per_usize_word(l.as_slice())});
            l
        })
    };
    let mut high = json!(null);
    let _ = unsafe {
        ef.map_high_bits(|h| {
            high = json!({"hlen": h.len(), "high": per_usize_word(AsRef::<[usize]>::as_ref(&h))});
            h
        })
    };
    json!({"n": n, "vals": vals, "l": low, "h": high})
}

/// mode "efb": the threads call the real `EliasFanoConcurrentBuilder::set`.
fn run_efb(ep: &Value, ctx: &mut Ctx, hdr: &Value, ops: &[Value], progs: &[Vec<Job>], outs: &Outs, s: &std::sync::Arc<Sched>) {
    let n = get_usize(ep, "n");
    let u = get_usize(ep, "u");
    let nt = progs.len();
    ctx.begin(hdr);
    let cb = match guard(|| EliasFanoConcurrentBuilder::new(n, u)) {
        Ok(b) => b,
        Err(m) => {
            ctx.emit(hdr, "panic", json!({"msg": m}));
            return;
        }
    };
    ctx.emit(hdr, "ret", json!({}));
    let mut cb = cb;
    if let Some(reps) = free_reps(ops) {
        // a fresh builder per repetition, the threads behind a spin barrier
        let op = json!({"op": "free", "reps": reps});
        ctx.begin(&op);
        let mut outcomes: Vec<Value> = Vec::new();
        let mut seen = std::collections::HashSet::new();
        let mut distinct = 0usize;
        let mut failed: Option<String> = None;
        for rep in 0..reps {
            let b = EliasFanoConcurrentBuilder::new(n, u);
            for o in outs.iter() {
                o.lock().unwrap().clear();
            }
            let bar = SpinBarrier::new(nt);
            std::thread::scope(|scope| {
                for (tid, prog) in progs.iter().enumerate() {
                    let b = &b;
                    let bar = &bar;
                    scope.spawn(move || {
                        bar.wait();
                        for j in prog {
                            let r = guard(|| unsafe { b.set(j.idx, j.x) });
                            outs[tid].lock().unwrap().push((r.is_ok(), None));
                        }
                    });
                }
            });
            if rep + 1 == reps {
                cb = b; // "end" builds and logs the last one
                break;
            }
            match guard(|| ef_parts(b.build())) {
                Ok(c) => {
                    let x = json!({"cb": c, "outs": outs_json(outs)});
                    if seen.insert(x.to_string()) {
                        distinct += 1;
                        if outcomes.len() < MAX_OUTCOMES {
                            outcomes.push(x);
                        }
                    }
                }
                Err(m) => {
                    failed = Some(m);
                    break;
                }
            }
        }
        match failed {
            Some(m) => ctx.emit(&op, "panic", json!({"msg": m})),
            None => ctx.emit(&op, "ret", json!({"outcomes": outcomes, "distinct": distinct})),
        }
    } else {
    std::thread::scope(|scope| {
        for (tid, prog) in progs.iter().enumerate() {
            let s = s.clone();
            let cb = &cb;
            scope.spawn(move || {
                let _me = s.enter(tid);
                for j in prog {
                    let r = guard(|| unsafe { cb.set(j.idx, j.x) });
                    outs[tid].lock().unwrap().push((r.is_ok(), None));
                }
            });
        }
        s.settle();
        let mut do_step = |t: usize| {
            let op = json!({"op": "step", "t": t + 1});
            ctx.begin(&op);
            match s.status(t) {
                Status::Done => ctx.emit(&op, "na", json!({})),
                Status::Running => unreachable!(),
                Status::Parked(kind, word) => {
                    let after = s.step(t);
                    let r: Vec<bool> = vec![];
                    ctx.emit(
                        &op,
                        "ret",
                        json!({"kind": KINDS[kind as usize & 3], "word": word, "nx": nx_of(after), "r": r}),
                    );
                }
            }
        };
        drive(ops, nt, s, &mut do_step);
    });
    }
    let op = json!({"op": "end"});
    ctx.begin(&op);
    let conc = guard(|| ef_parts(cb.build()));
    // the sequential builder over the same values, in index order
    let mut xs: Vec<(usize, usize)> = progs.iter().flatten().map(|j| (j.idx, j.x)).collect();
    xs.sort();
    let seq = guard(|| {
        let mut b = EliasFanoBuilder::new(n, u);
        for (_, x) in &xs {
            b.push(*x);
        }
        ef_parts(b.build())
    });
    match (conc, seq) {
        (Ok(c), Ok(q)) => ctx.emit(&op, "ret", json!({"cb": c, "sb": q, "outs": outs_json(outs)})),
        (c, q) => ctx.emit(
            &op,
            "panic",
            json!({"msg": format!("{:?} / {:?}", c.err(), q.err()), "outs": outs_json(outs)}),
        ),
    }
}
