//! Family "sliceseq": sux::dict::SliceSeq over the four kinds of backend
//! (spec/SliceSeq.tla). Episode fields: `xs` (the elements), `backend`
//! ("vec" | "boxed" | "ref" | "array" (exactly four elements) | "from": built
//! through `From`). Every event carries `len` as reported after the call.

use crate::util::*;
use crate::{guard, Ctx};
use serde_json::{json, Value};
use sux::dict::SliceSeq;
use sux::traits::{IndexedSeq, IntoIteratorFrom};

fn drive<A: AsRef<[usize]>>(s: &SliceSeq<usize, A>, ops: &[Value], ctx: &mut Ctx) {
    for op in ops {
        ctx.begin(op);
        let r = match op["op"].as_str().unwrap() {
            "len" => guard(|| json!(s.len())),
            "is_empty" => guard(|| json!(s.is_empty())),
            "get" => guard(|| json!(s.get(get_usize(op, "i")))),
            "get_unchecked" => {
                let i = get_usize(op, "i");
                if i >= s.len() {
                    eprintln!("sliceseq: get_unchecked outside its precondition");
                    std::process::exit(2);
                }
                guard(|| json!(unsafe { s.get_unchecked(i) }))
            }
            "iter" => guard(|| json!(s.iter().collect::<Vec<usize>>())),
            "into_iter" => guard(|| json!(s.into_iter().collect::<Vec<usize>>())),
            "into_iter_from" => guard(|| json!(s.into_iter_from(get_usize(op, "k")).collect::<Vec<usize>>())),
            "eq" => {
                let o: Vec<usize> = op["other"].as_array().unwrap().iter().map(|x| x.as_u64().unwrap() as usize).collect();
                guard(|| {
                    let t = SliceSeq::new(o.as_slice());
                    // the derived equality compares like backends: view both as borrowed slices
                    json!(SliceSeq::new(s.iter().collect::<Vec<usize>>().as_slice()) == t)
                })
            }
            o => {
                eprintln!("sliceseq: unknown op {o}");
                std::process::exit(2);
            }
        };
        match r {
            Ok(v) => ctx.emit(op, "ret", json!({"res": v, "len": s.len()})),
            Err(m) => ctx.emit(op, "panic", json!({"msg": m, "len": s.len()})),
        }
    }
}

pub fn run(ep: &Value, ctx: &mut Ctx) {
    let xs: Vec<usize> = ep["xs"].as_array().map(|a| a.iter().map(|x| x.as_u64().unwrap() as usize).collect()).unwrap_or_default();
    let backend = ep.get("backend").and_then(|b| b.as_str()).unwrap_or("vec").to_string();
    let hdr = json!({"op": "BEGIN", "fam": "sliceseq", "src": ep.get("src").cloned().unwrap_or(json!("?")),
                     "xs": xs, "backend": backend});
    ctx.begin(&hdr);
    ctx.emit(&hdr, "ret", json!({}));
    let ops = ep["ops"].as_array().unwrap();
    match backend.as_str() {
        "vec" => drive(&SliceSeq::new(xs.clone()), ops, ctx),
        "boxed" => drive(&SliceSeq::new(xs.clone().into_boxed_slice()), ops, ctx),
        "ref" => drive(&SliceSeq::new(xs.as_slice()), ops, ctx),
        "from" => {
            let s: SliceSeq<usize, Vec<usize>> = xs.clone().into();
            drive(&s, ops, ctx)
        }
        "array" => {
            if xs.len() != 4 {
                eprintln!("sliceseq: backend array takes exactly four elements");
                std::process::exit(2);
            }
            drive(&SliceSeq::new([xs[0], xs[1], xs[2], xs[3]]), ops, ctx)
        }
        b => {
            eprintln!("sliceseq: unknown backend {b}");
            std::process::exit(2);
        }
    }
}
