//! Deterministic scheduler for the `sux::verif::atomic_pre` hook (property C13).
//!
//! Worker threads are real OS threads running the real code. The hook, which
//! sux calls immediately *before* every atomic load / compare-exchange /
//! fetch_or / fetch_and of the atomic vectors, parks the calling worker; the
//! scheduler (the executor's main thread) releases exactly one worker per
//! step and waits until that worker parks again or finishes. Hence between
//! two scheduler steps exactly one atomic instruction has been executed, and
//! while the scheduler looks at the memory every worker is blocked.
//!
//! All synchronisation is one mutex + condition variables; there is no
//! sleep, no spinning and no decision based on time. A worker that finishes
//! (normally or by a caught panic) reports `Done` through a drop guard.
//! Threads that are not registered workers (the main thread, other families)
//! pass through the hook untouched.

use std::cell::RefCell;
use std::sync::{Arc, Condvar, Mutex, Once};

#[derive(Clone, Copy, PartialEq, Eq, Debug)]
pub enum Status {
    /// executing code between two hooks (or not yet at its first hook)
    Running,
    /// blocked in the hook before the atomic operation `(kind, word_index)`
    Parked(u8, usize),
    /// the worker's program is over
    Done,
}

struct Inner {
    status: Vec<Status>,
    /// the worker allowed to leave the hook (consumed by that worker)
    grant: Option<usize>,
}

pub struct Sched {
    m: Mutex<Inner>,
    /// the scheduler waits here
    cv: Condvar,
    /// worker t waits here (one condition variable per worker: a step wakes
    /// exactly the worker it releases)
    wcv: Vec<Condvar>,
}

thread_local! {
    static ME: RefCell<Option<(usize, Arc<Sched>)>> = const { RefCell::new(None) };
}

static INSTALL: Once = Once::new();

/// Installs the hook in sux (once per process).
pub fn install() {
    INSTALL.call_once(|| sux::verif::set_atomic_pre(hook));
}

fn hook(kind: u8, word: usize) {
    let me = ME.with(|c| c.borrow().clone());
    if let Some((tid, s)) = me {
        let mut g = s.m.lock().unwrap();
        g.status[tid] = Status::Parked(kind, word);
        s.cv.notify_one();
        while g.grant != Some(tid) {
            g = s.wcv[tid].wait(g).unwrap();
        }
        g.grant = None;
        g.status[tid] = Status::Running;
    }
}

/// Registration of the current thread as worker `tid`; dropping it (also
/// during unwinding) reports the worker as done.
pub struct Worker {
    tid: usize,
    s: Arc<Sched>,
}

impl Drop for Worker {
    fn drop(&mut self) {
        ME.with(|c| *c.borrow_mut() = None);
        let mut g = self.s.m.lock().unwrap();
        g.status[self.tid] = Status::Done;
        self.s.cv.notify_one();
    }
}

impl Sched {
    pub fn new(n: usize) -> Arc<Sched> {
        Arc::new(Sched {
            m: Mutex::new(Inner {
                status: vec![Status::Running; n],
                grant: None,
            }),
            cv: Condvar::new(),
            wcv: (0..n).map(|_| Condvar::new()).collect(),
        })
    }

    /// Called first thing by worker `tid` on its own thread.
    pub fn enter(self: &Arc<Self>, tid: usize) -> Worker {
        ME.with(|c| *c.borrow_mut() = Some((tid, self.clone())));
        Worker {
            tid,
            s: self.clone(),
        }
    }

    /// Waits until no worker is running (each is parked at a hook or done).
    pub fn settle(&self) -> Vec<Status> {
        let mut g = self.m.lock().unwrap();
        while g.grant.is_some() || g.status.iter().any(|s| *s == Status::Running) {
            g = self.cv.wait(g).unwrap();
        }
        g.status.clone()
    }

    pub fn status(&self, t: usize) -> Status {
        self.m.lock().unwrap().status[t]
    }

    /// Lets the parked worker `t` execute the atomic operation it is parked
    /// at, and everything up to its next hook or its end. Returns its new
    /// status (`Parked` or `Done`).
    pub fn step(&self, t: usize) -> Status {
        let mut g = self.m.lock().unwrap();
        assert!(matches!(g.status[t], Status::Parked(..)), "step of a worker that is not parked");
        g.grant = Some(t);
        self.wcv[t].notify_one();
        while g.grant.is_some() || g.status[t] == Status::Running {
            g = self.cv.wait(g).unwrap();
        }
        g.status[t]
    }
}
