//! Family "lender": the rewindable I/O lenders of sux::utils::lenders driven by
//! a consume/rewind history (property C20).
//!
//! Episode fields: `kind` (which lender), `input` (bytes of the text, for the
//! line lenders), `items` (list of strings, for FromIntoIterator over a
//! Vec<String>), `n` (FromIntoIterator over 0..n), `take` (0, 1 or 2 nested
//! `Lender::take` counts applied at construction), `cap` (BufReader capacity of
//! kind line_buf), `chunk` / `frames` / `level` (how the harness compresses the
//! input for the zstd/gzip kinds: a flush every `chunk` bytes closes a block,
//! `frames` > 1 concatenates independent zstd frames / gzip members).
//!
//! Items travel as lists of byte values (a number x of the range kind as [x]).
//! Nothing is judged here: Trace_Lender decides.

use crate::util::*;
use crate::{guard, Ctx};
use lender::Lender;
use serde_json::{json, Value};
use std::fs::File;
use std::io::{BufReader, Cursor, Write};
use std::marker::PhantomData;
use sux::utils::lenders::*;

trait Enc {
    fn enc(&self) -> Value;
}
impl Enc for str {
    fn enc(&self) -> Value {
        Value::Array(self.as_bytes().iter().map(|&b| json!(b)).collect())
    }
}
impl Enc for String {
    fn enc(&self) -> Value {
        self.as_str().enc()
    }
}
impl Enc for usize {
    fn enc(&self) -> Value {
        json!([*self])
    }
}

/// A seekable source whose `seek` fails while `FAIL_SEEK` is set (the executor
/// sets it for the duration of a `rewind` op that carries `"fail": true`): a
/// source that "cannot be rewound".
static FAIL_SEEK: std::sync::atomic::AtomicBool = std::sync::atomic::AtomicBool::new(false);
struct Flaky<R>(R);
impl<R: std::io::Read> std::io::Read for Flaky<R> {
    fn read(&mut self, buf: &mut [u8]) -> std::io::Result<usize> {
        self.0.read(buf)
    }
}
impl<R: std::io::BufRead> std::io::BufRead for Flaky<R> {
    fn fill_buf(&mut self) -> std::io::Result<&[u8]> {
        self.0.fill_buf()
    }
    fn consume(&mut self, amt: usize) {
        self.0.consume(amt)
    }
}
impl<R: std::io::Seek> std::io::Seek for Flaky<R> {
    fn seek(&mut self, pos: std::io::SeekFrom) -> std::io::Result<u64> {
        if FAIL_SEEK.load(std::sync::atomic::Ordering::SeqCst) {
            return Err(std::io::Error::other("injected seek failure"));
        }
        self.0.seek(pos)
    }
}

enum Step {
    None,
    Item(Value),
    Err(String),
}

/// Object-safe view of a `RewindableIoLender<T>`.
trait DynL {
    fn step(&mut self) -> Step;
    fn rew(self: Box<Self>) -> Result<Box<dyn DynL>, String>;
}

struct W<T: ?Sized, L>(L, PhantomData<fn(&T)>);

impl<T: Enc + ?Sized + 'static, L: RewindableIoLender<T> + 'static> DynL for W<T, L> {
    fn step(&mut self) -> Step {
        match self.0.next() {
            None => Step::None,
            Some(Ok(x)) => Step::Item(x.enc()),
            Some(Err(e)) => Step::Err(e.to_string()),
        }
    }
    fn rew(self: Box<Self>) -> Result<Box<dyn DynL>, String> {
        match self.0.rewind() {
            Ok(l) => Ok(Box::new(W::<T, L>(l, PhantomData))),
            Err(e) => Err(e.to_string()),
        }
    }
}

fn wrap<T: Enc + ?Sized + 'static, L: RewindableIoLender<T> + 'static>(l: L, take: &[usize]) -> Box<dyn DynL> {
    match take.len() {
        0 => Box::new(W::<T, _>(l, PhantomData)),
        1 => Box::new(W::<T, _>(l.take(take[0]), PhantomData)),
        _ => Box::new(W::<T, _>(l.take(take[0]).take(take[1]), PhantomData)),
    }
}

fn bytes_of(v: &Value) -> Vec<u8> {
    match v.as_array() {
        Some(a) => a.iter().map(|x| x.as_u64().unwrap() as u8).collect(),
        None => Vec::new(),
    }
}

fn compress(kind: &str, input: &[u8], chunk: usize, frames: usize, level: i32, wlog: Option<u32>) -> std::io::Result<Vec<u8>> {
    let one = |part: &[u8]| -> std::io::Result<Vec<u8>> {
        let pieces: Vec<&[u8]> = if chunk == 0 { vec![part] } else { part.chunks(chunk).collect() };
        if kind.starts_with("zstd") {
            let mut e = zstd::stream::write::Encoder::new(Vec::new(), level)?;
            if let Some(w) = wlog {
                // a frame declaring a window of 2^w bytes (as `zstd --long=w` writes):
                // beyond 2^27 a decoder with default limits refuses it
                e.window_log(w)?;
            }
            for p in pieces {
                e.write_all(p)?;
                if chunk != 0 {
                    e.flush()?;
                }
            }
            e.finish()
        } else {
            let mut e = flate2::write::GzEncoder::new(Vec::new(), flate2::Compression::new(level.clamp(0, 9) as u32));
            for p in pieces {
                e.write_all(p)?;
                if chunk != 0 {
                    e.flush()?;
                }
            }
            e.finish()
        }
    };
    if frames <= 1 {
        return one(input);
    }
    let mut out = Vec::new();
    let per = (input.len() + frames - 1) / frames;
    if per == 0 {
        return one(input);
    }
    for part in input.chunks(per) {
        out.extend(one(part)?);
    }
    Ok(out)
}

// (from_path / from_file are defined on one particular instantiation of the compressed lenders; the calls
// below leave it to be inferred, so that the executor does not depend on how that instantiation is spelled)

/// Builds the lender of the episode. The temporary file (if any) is returned
/// so that it outlives the lender.
fn open(ep: &Value) -> anyhow::Result<(Box<dyn DynL>, Option<tempfile::NamedTempFile>)> {
    let kind = ep["kind"].as_str().unwrap();
    let take: Vec<usize> = match ep.get("take").and_then(|t| t.as_array()) {
        Some(a) => a.iter().map(|x| x.as_u64().unwrap() as usize).collect(),
        None => vec![],
    };
    let input = bytes_of(&ep["input"]);
    let chunk = ep.get("chunk").and_then(|v| v.as_u64()).unwrap_or(0) as usize;
    let frames = ep.get("frames").and_then(|v| v.as_u64()).unwrap_or(1) as usize;
    let level = ep.get("level").and_then(|v| v.as_i64()).unwrap_or(3) as i32;
    let mut payload = if kind.starts_with("zstd") || kind.starts_with("gzip") {
        let wlog = ep.get("corrupt").and_then(|c| c.get("wlog")).and_then(|v| v.as_u64()).map(|w| w as u32);
        compress(kind, &input, chunk, frames, level, wlog)?
    } else {
        input
    };
    // a damaged compressed stream (episode field `corrupt`): cut `trunc` bytes off
    // the end and/or flip the byte `flip` positions before the end. What the
    // first pass yields (lines, then an error) is the reference for every later pass.
    if let Some(c) = ep.get("corrupt") {
        let t = c.get("trunc").and_then(|v| v.as_u64()).unwrap_or(0) as usize;
        let keep = payload.len().saturating_sub(t);
        payload.truncate(keep);
        if let Some(f) = c.get("flip").and_then(|v| v.as_u64()) {
            let n = payload.len();
            if n > 0 {
                let k = n - 1 - (f as usize).min(n - 1);
                payload[k] ^= 0x55;
            }
        }
    }
    let on_file = kind.ends_with("_file") || kind.ends_with("_path");
    let mut tmp = None;
    if on_file {
        let mut f = tempfile::NamedTempFile::new()?;
        f.write_all(&payload)?;
        f.flush()?;
        tmp = Some(f);
    }
    let path = tmp.as_ref().map(|f| f.path().to_path_buf());
    let l: Box<dyn DynL> = match kind {
        "line_cursor" => wrap::<str, _>(LineLender::new(Cursor::new(payload)), &take),
        // the same three kinds over a source whose seek can be made to fail
        "line_flaky" => wrap::<str, _>(LineLender::new(Flaky(Cursor::new(payload))), &take),
        "zstd_flaky" => wrap::<str, _>(ZstdLineLender::new(Flaky(Cursor::new(payload)))?, &take),
        "gzip_flaky" => wrap::<str, _>(GzipLineLender::new(Flaky(Cursor::new(payload)))?, &take),
        "line_buf" => {
            let cap = ep.get("cap").and_then(|v| v.as_u64()).unwrap_or(8192) as usize;
            wrap::<str, _>(LineLender::new(BufReader::with_capacity(cap.max(1), Cursor::new(payload))), &take)
        }
        "line_file" => wrap::<str, _>(LineLender::from_file(File::open(path.unwrap())?), &take),
        "line_path" => wrap::<str, _>(LineLender::from_path(path.unwrap())?, &take),
        "zstd_cursor" => wrap::<str, _>(ZstdLineLender::new(Cursor::new(payload))?, &take),
        "zstd_file" => wrap::<str, _>(ZstdLineLender::from_file(File::open(path.unwrap())?)?, &take),
        "zstd_path" => wrap::<str, _>(ZstdLineLender::from_path(path.unwrap())?, &take),
        "gzip_cursor" => wrap::<str, _>(GzipLineLender::new(Cursor::new(payload))?, &take),
        "gzip_file" => wrap::<str, _>(GzipLineLender::from_file(File::open(path.unwrap())?)?, &take),
        "gzip_path" => wrap::<str, _>(GzipLineLender::from_path(path.unwrap())?, &take),
        "fromiter" => {
            let items: Vec<String> = ep["items"]
                .as_array()
                .unwrap()
                .iter()
                .map(|v| String::from_utf8(bytes_of(v)).expect("items must be valid UTF-8"))
                .collect();
            wrap::<String, _>(FromIntoIterator::from(items), &take)
        }
        "range" => wrap::<usize, _>(FromIntoIterator::from(0..get_usize(ep, "n")), &take),
        k => anyhow::bail!("unknown lender kind {k}"),
    };
    Ok((l, tmp))
}

pub fn run(ep: &Value, ctx: &mut Ctx) {
    let mut hdr = json!({"op": "BEGIN", "fam": "lender", "src": ep.get("src").cloned().unwrap_or(json!("?"))});
    // episode-level fields the trace specification needs (always present)
    for (k, d) in [("kind", json!("?")), ("input", json!([])), ("items", json!([])), ("n", json!(0)), ("take", json!([]))] {
        hdr[k] = ep.get(k).cloned().unwrap_or(d);
    }
    if let Some(c) = ep.get("corrupt") {
        hdr["corrupt"] = c.clone();
    }
    ctx.begin(&hdr);
    ctx.emit(&hdr, "ret", json!({}));
    let mut l: Option<Box<dyn DynL>> = None;
    let mut _tmp: Option<tempfile::NamedTempFile> = None;
    // bookkeeping of observations (used to describe known findings precisely)
    let mut yielded = 0usize; // items yielded since the lender was opened / last rewound
    let mut dirty = false; // some rewind happened after at least one item of its pass had been yielded
    // an upper bound on the number of items of any input, against lenders that never end
    let cap = ep["input"].as_array().map_or(0, |a| a.len())
        + ep["items"].as_array().map_or(0, |a| a.len())
        + ep.get("n").and_then(|v| v.as_u64()).unwrap_or(0) as usize
        + 8;
    for op in ep["ops"].as_array().unwrap() {
        ctx.begin(op);
        let name = op["op"].as_str().unwrap();
        let r: Result<Value, String> = match name {
            "open" => match guard(|| open(ep)) {
                Ok(Ok((x, t))) => {
                    l = Some(x);
                    _tmp = t;
                    yielded = 0;
                    dirty = false;
                    Ok(json!({"r": "ok"}))
                }
                Ok(Err(e)) => Ok(json!({"r": "err", "err": e.to_string()})),
                Err(m) => Err(m),
            },
            "next" => match &mut l {
                Some(x) => guard(|| x.step()).map(|s| match s {
                    Step::None => json!({"r": "none", "item": []}),
                    Step::Item(v) => {
                        yielded += 1;
                        json!({"r": "item", "item": v})
                    }
                    Step::Err(e) => json!({"r": "err", "item": [], "err": e}),
                }),
                None => Err("na".into()),
            },
            "nexts" | "drain" => match &mut l {
                Some(x) => {
                    let c = if name == "nexts" { get_usize(op, "c") } else { usize::MAX };
                    guard(|| {
                        let mut res = Vec::new();
                        let mut end = "more";
                        let mut err = String::new();
                        while res.len() < c {
                            if res.len() > cap {
                                end = "runaway";
                                break;
                            }
                            match x.step() {
                                Step::None => {
                                    end = "none";
                                    break;
                                }
                                Step::Item(v) => res.push(v),
                                Step::Err(e) => {
                                    end = "err";
                                    err = e;
                                    break;
                                }
                            }
                        }
                        (res, end, err)
                    })
                    .map(|(res, end, err)| {
                        yielded += res.len();
                        json!({"res": res, "end": end, "err": err})
                    })
                }
                None => Err("na".into()),
            },
            "rewind" => match l.take() {
                Some(x) => match {
                    let fail = op.get("fail").and_then(|v| v.as_bool()).unwrap_or(false);
                    FAIL_SEEK.store(fail, std::sync::atomic::Ordering::SeqCst);
                    let r = guard(|| x.rew());
                    FAIL_SEEK.store(false, std::sync::atomic::Ordering::SeqCst);
                    r
                } {
                    Ok(Ok(y)) => {
                        l = Some(y);
                        if yielded > 0 {
                            dirty = true;
                        }
                        yielded = 0;
                        Ok(json!({"r": "ok"}))
                    }
                    Ok(Err(e)) => Ok(json!({"r": "err", "err": e})),
                    Err(m) => Err(m),
                },
                None => Err("na".into()),
            },
            _ => {
                eprintln!("lender: unknown op {name}");
                std::process::exit(2);
            }
        };
        let st = json!({"yielded": yielded, "dirty": dirty});
        match r {
            Ok(mut f) => {
                f["yielded"] = st["yielded"].clone();
                f["dirty"] = st["dirty"].clone();
                ctx.emit(op, "ret", f)
            }
            Err(m) if m == "na" => ctx.emit(op, "na", st),
            Err(m) => ctx.emit(op, "panic", json!({"msg": m.chars().take(120).collect::<String>(), "yielded": yielded, "dirty": dirty})),
        }
    }
}
