//! Family "lender" (stub: not implemented yet).
use crate::Ctx;
use serde_json::Value;

pub fn run(_ep: &Value, _ctx: &mut Ctx) {
    eprintln!("family lender not implemented");
    std::process::exit(2);
}
