//! Family "vbuild": static functions and filters (VBuilder, VFunc, VFilter)
//! driven by an operation script (properties C07, C08, C17 and the family's
//! share of C11, C12, C15).
//!
//! Keys are never listed in scripts or traces: an episode names a *key
//! function* `K` (index -> key, injective on indices) and the `build` op
//! names a *key sequence* (position -> index: the identity on `0..n` with a
//! few substitutions, which is how duplicates are expressed). Values are given
//! by a recipe on positions. Queries name key *indices*. The executor turns
//! indices into keys, calls the real code and records what came back; whether
//! an index is a member, what its value should be, which error a fault
//! placement must produce and whether a false-positive count is acceptable is
//! decided by `spec/VBuild.tla` through `spec/Trace_VBuild.tla`.
//!
//! The `build` event also carries the hook events of `VBuilder::build_loop` /
//! `try_seed` (`sux::verif::set_build_event`) and the read/rewind counts seen
//! by the fault-injecting lenders, so that the trace specification can check
//! the build-loop state machine.

use crate::util::*;
use crate::{guard, Ctx};
use common_traits::{CastableInto, UpcastableInto};
use dsi_progress_logger::no_logging;
use epserde::deser::{DeserType, Deserialize, Flags, MemCase};
use epserde::ser::Serialize;
use epserde::traits::{TypeHash, ZeroCopy};
use lender::{Lender, Lending};
use mem_dbg::{MemSize, SizeFlags};
use serde_json::{json, Value};
use std::collections::{HashMap, HashSet};
use std::borrow::Borrow;
use std::io;
use std::sync::{Arc, Mutex};
use sux::bits::BitFieldVec;
use sux::dict::VFilter;
use sux::func::shard_edge::{FuseLge3FullSigs, FuseLge3NoShards, FuseLge3Shards, ShardEdge};
#[cfg(feature = "mwhc")]
use sux::func::shard_edge::{Mwhc3NoShards, Mwhc3Shards};
use sux::func::{BuildError, VBuilder, VFunc};
use sux::traits::bit_field_slice::{BitFieldSlice, Word};
use sux::utils::{RewindableIoLender, Sig, ToSig};

// --------------------------------------------------------------------------
// hook events
// --------------------------------------------------------------------------
static EVENTS: Mutex<Vec<(&'static str, u64)>> = Mutex::new(Vec::new());

fn hook(kind: &'static str, v: u64) {
    EVENTS.lock().unwrap().push((kind, v));
}

// --------------------------------------------------------------------------
// keys and values by recipe
// --------------------------------------------------------------------------
#[derive(Clone, Debug)]
enum KeyFn {
    /// key(i) = start + i
    Range { start: u64 },
    /// key(i) = a * i + c (mod 2^64), a odd
    Affine { a: u64, c: u64 },
    /// key(i) = prefix ++ decimal(i) ++ 'x' * pad
    Str { prefix: String, pad: usize },
}

impl KeyFn {
    fn parse(v: &Value) -> KeyFn {
        match v["t"].as_str().unwrap_or("range") {
            "range" => KeyFn::Range { start: v["start"].as_u64().unwrap_or(0) },
            "affine" => KeyFn::Affine { a: of_limbs(&v["a"]) as u64, c: of_limbs(&v["c"]) as u64 },
            "str" => KeyFn::Str {
                prefix: v["prefix"].as_str().unwrap_or("").to_string(),
                pad: v["pad"].as_u64().unwrap_or(0) as usize,
            },
            t => panic!("unknown key function {t}"),
        }
    }
    fn int_key(&self, i: u64) -> u64 {
        match self {
            KeyFn::Range { start } => start.wrapping_add(i),
            KeyFn::Affine { a, c } => a.wrapping_mul(i).wrapping_add(*c),
            KeyFn::Str { .. } => panic!("string key function used with an integer key type"),
        }
    }
    fn str_key(&self, i: u64, buf: &mut String) {
        use std::fmt::Write;
        buf.clear();
        match self {
            KeyFn::Str { prefix, pad } => {
                buf.push_str(prefix);
                write!(buf, "{}", i).unwrap();
                for _ in 0..*pad {
                    buf.push('x');
                }
            }
            _ => write!(buf, "{}", self.int_key(i)).unwrap(),
        }
    }
}

/// position -> index: identity on 0..n except for the substitutions
#[derive(Debug)]
struct KeySeq {
    f: KeyFn,
    n: usize,
    subst: HashMap<usize, u64>,
}

impl KeySeq {
    fn idx_at(&self, pos: usize) -> u64 {
        *self.subst.get(&pos).unwrap_or(&(pos as u64))
    }
}

/// value(pos) = ((a * pos + c) mod 2^m) + (2^hi if present)
#[derive(Clone, Debug)]
struct ValFn {
    a: u64,
    c: u64,
    m: u32,
    hi: Option<u32>,
    /// the value source ends after this many values (None: never)
    vn: Option<usize>,
}

impl ValFn {
    fn parse(v: &Value) -> ValFn {
        ValFn {
            a: v["a"].as_u64().unwrap_or(1),
            c: v["c"].as_u64().unwrap_or(0),
            m: v["m"].as_u64().unwrap_or(30) as u32,
            hi: v["hi"].as_array().and_then(|a| a.first()).and_then(|x| x.as_u64()).map(|x| x as u32),
            vn: v["vn"].as_array().and_then(|a| a.first()).and_then(|x| x.as_u64()).map(|x| x as usize),
        }
    }
    fn at(&self, pos: usize) -> u64 {
        let low = (self.a.wrapping_mul(pos as u64).wrapping_add(self.c)) & ((1u64 << self.m) - 1);
        low + self.hi.map_or(0, |t| 1u64 << t)
    }
}

const KEY: u8 = 0;
const VAL: u8 = 1;

#[derive(Default, Debug)]
struct Faults {
    reads: HashSet<(u8, usize, usize)>,
    rewinds: HashSet<(u8, usize)>,
    /// the io::ErrorKind a key read fault is reported with when the keys come
    /// from a real `LineLender` over a failing reader (`ksrc: "lines"`)
    kinds: HashMap<(usize, usize), io::ErrorKind>,
    /// the io::ErrorKind of a fault of the directly implemented lenders (`ekind`,
    /// default Other), by (source, pass, idx)
    dkinds: HashMap<(u8, usize, usize), io::ErrorKind>,
    /// keys are the lines of a text read through sux's `LineLender`
    lines: bool,
    /// (pass, idx) of key read faults that strike in the middle of line idx
    /// rather than at its first byte (`"mid": true`, `ksrc: "lines"` only)
    mid: HashSet<(usize, usize)>,
}

impl Faults {
    fn parse(op: &Value) -> Faults {
        let mut f = Faults::default();
        if let Some(a) = op["faults"].as_array() {
            for x in a {
                let src = if x["src"] == "val" { VAL } else { KEY };
                if x["kind"] == "rewind" {
                    f.rewinds.insert((src, get_usize(x, "pass")));
                } else {
                    f.reads.insert((src, get_usize(x, "pass"), get_usize(x, "idx")));
                    let kind = match x.get("ekind").and_then(|k| k.as_str()).unwrap_or("other") {
                        "eof" => io::ErrorKind::UnexpectedEof,
                        "data" => io::ErrorKind::InvalidData,
                        "denied" => io::ErrorKind::PermissionDenied,
                        "broken" => io::ErrorKind::BrokenPipe,
                        "timeout" => io::ErrorKind::TimedOut,
                        // kinds that some readers treat as "try again": the lenders must not
                        "interrupted" => io::ErrorKind::Interrupted,
                        "wouldblock" => io::ErrorKind::WouldBlock,
                        _ => io::ErrorKind::Other,
                    };
                    f.dkinds.insert((src, get_usize(x, "pass"), get_usize(x, "idx")), kind);
                    if src == KEY {
                        f.kinds.insert((get_usize(x, "pass"), get_usize(x, "idx")), kind);
                        if x.get("mid").and_then(|v| v.as_bool()).unwrap_or(false) {
                            f.mid.insert((get_usize(x, "pass"), get_usize(x, "idx")));
                        }
                    }
                }
            }
        }
        f.lines = op.get("ksrc").and_then(|k| k.as_str()) == Some("lines");
        f
    }
}

// ---- a text of keys behind a reader that fails where the script says ----------
struct FailState {
    pass: usize,
    fail_seek: bool,
    fired: HashSet<(usize, usize)>,
}

/// In-memory text (one key per line) that `LineLender` reads; a read fault
/// (pass, idx) makes the read that would deliver the first byte of line idx
/// (or the end of input, for idx = n) of that pass fail with the chosen kind.
struct FailRead {
    data: Arc<Vec<u8>>,
    starts: Arc<Vec<usize>>,
    pos: usize,
    st: Arc<Mutex<FailState>>,
    faults: Arc<Faults>,
}

impl FailRead {
    /// (limit of what can be served now, fault to fire when pos == limit)
    fn limit(&self) -> (usize, Option<(usize, usize)>) {
        let st = self.st.lock().unwrap();
        let mut best: (usize, Option<(usize, usize)>) = (self.data.len(), None);
        for &(src, p, i) in self.faults.reads.iter() {
            if src == KEY && p == st.pass && !st.fired.contains(&(p, i)) && i < self.starts.len() {
                let mut off = self.starts[i];
                if self.faults.mid.contains(&(p, i)) && i + 1 < self.starts.len() {
                    off += (self.starts[i + 1] - off) / 2;
                }
                if off >= self.pos && (off < best.0 || (off == best.0 && best.1.is_none())) {
                    best = (off, Some((p, i)));
                }
            }
        }
        best
    }
}

impl io::Read for FailRead {
    fn read(&mut self, buf: &mut [u8]) -> io::Result<usize> {
        let avail = io::BufRead::fill_buf(self)?;
        let k = avail.len().min(buf.len());
        buf[..k].copy_from_slice(&avail[..k]);
        self.pos += k;
        Ok(k)
    }
}

impl io::BufRead for FailRead {
    fn fill_buf(&mut self) -> io::Result<&[u8]> {
        let (lim, fault) = self.limit();
        if self.pos == lim {
            if let Some((p, i)) = fault {
                self.st.lock().unwrap().fired.insert((p, i));
                let kind = *self.faults.kinds.get(&(p, i)).unwrap_or(&io::ErrorKind::Other);
                return Err(io::Error::new(kind, format!("key:{}:{}", p, i)));
            }
        }
        Ok(&self.data[self.pos..lim])
    }
    fn consume(&mut self, amt: usize) {
        self.pos += amt;
    }
}

impl io::Seek for FailRead {
    fn seek(&mut self, to: io::SeekFrom) -> io::Result<u64> {
        let st = self.st.lock().unwrap();
        if st.fail_seek {
            return Err(io::Error::other(format!("key:rewind:{}", st.pass)));
        }
        match to {
            io::SeekFrom::Start(x) => self.pos = x as usize,
            _ => return Err(io::Error::other("unsupported seek")),
        }
        Ok(self.pos as u64)
    }
}

/// What the lenders saw: per pass the number of `next` calls on each source,
/// and the number of `rewind` calls on each source.
#[derive(Default, Debug)]
struct Seen {
    kreads: Vec<usize>,
    vreads: Vec<usize>,
    krewinds: usize,
    vrewinds: usize,
}

fn bump(v: &mut Vec<usize>, pass: usize) {
    if v.len() <= pass {
        v.resize(pass + 1, 0);
    }
    v[pass] += 1;
}

// ---- key type and key lender ---------------------------------------------------
/// The key type of every function/filter built here. `VFunc<T, ..>` depends on
/// `T` only through `T::to_sig`; `HKey` delegates to the crate's own `ToSig`
/// implementations for `usize`, `u64` and `str`, chosen by the episode field
/// `kt`, so that one instantiation of the (large) builder code serves the
/// three key types.
#[derive(Debug)]
pub enum HKey {
    Usize(usize),
    U64(u64),
    Str(String),
    /// A user-defined signature function: the first word is the crate's hash of
    /// the key, the second word is a coarse attribute of the key (seven values),
    /// so that many distinct keys share sig[1] (signatures stay distinct).
    Coarse(u64),
    /// 128-bit integer keys that differ only in their upper 64 bits
    U128(u128),
}

impl ToSig<[u64; 2]> for HKey {
    fn to_sig(key: impl Borrow<Self>, seed: u64) -> [u64; 2] {
        match key.borrow() {
            HKey::Usize(x) => <usize as ToSig<[u64; 2]>>::to_sig(x, seed),
            HKey::U64(x) => <u64 as ToSig<[u64; 2]>>::to_sig(x, seed),
            HKey::Str(s) => <str as ToSig<[u64; 2]>>::to_sig(s.as_str(), seed),
            HKey::U128(x) => <u128 as ToSig<[u64; 2]>>::to_sig(x, seed),
            HKey::Coarse(x) => {
                let s = <u64 as ToSig<[u64; 2]>>::to_sig(x, seed);
                [s[0], (x % 7).wrapping_mul(0x9E37_79B9_7F4A_7C15)]
            }
        }
    }
}

impl ToSig<[u64; 1]> for HKey {
    fn to_sig(key: impl Borrow<Self>, seed: u64) -> [u64; 1] {
        match key.borrow() {
            HKey::Usize(x) => <usize as ToSig<[u64; 1]>>::to_sig(x, seed),
            HKey::U64(x) => <u64 as ToSig<[u64; 1]>>::to_sig(x, seed),
            HKey::Str(s) => <str as ToSig<[u64; 1]>>::to_sig(s.as_str(), seed),
            HKey::Coarse(x) => <u64 as ToSig<[u64; 1]>>::to_sig(x, seed),
            HKey::U128(x) => <u128 as ToSig<[u64; 1]>>::to_sig(x, seed),
        }
    }
}

impl TypeHash for HKey {
    fn type_hash(hasher: &mut impl core::hash::Hasher) {
        use core::hash::Hash;
        "HKey".hash(hasher);
    }
}

#[derive(Clone, Copy, Debug, PartialEq)]
enum Kt {
    Usize,
    U64,
    Str,
    Coarse,
    U128,
}

impl Kt {
    fn parse(s: &str) -> Kt {
        match s {
            "usize" => Kt::Usize,
            "u64" => Kt::U64,
            "str" => Kt::Str,
            "coarse" => Kt::Coarse,
            "u128" => Kt::U128,
            k => panic!("unknown key type {k}"),
        }
    }
    /// sets `key` to the key of index `i`
    fn set(self, kf: &KeyFn, i: u64, key: &mut HKey) {
        match self {
            Kt::Usize => *key = HKey::Usize(kf.int_key(i) as usize),
            Kt::U64 => *key = HKey::U64(kf.int_key(i)),
            Kt::Coarse => *key = HKey::Coarse(kf.int_key(i)),
            // the index goes to the upper half, the lower half is the same for all keys
            Kt::U128 => *key = HKey::U128(((kf.int_key(i) as u128) << 64) | 0x1234_5678_9ABC_DEF0),
            Kt::Str => {
                if let HKey::Str(s) = key {
                    kf.str_key(i, s);
                } else {
                    let mut s = String::new();
                    kf.str_key(i, &mut s);
                    *key = HKey::Str(s);
                }
            }
        }
    }
}

struct KeyLender {
    /// `ksrc: "lines"`: the keys are lent by sux's own `LineLender`
    lines: Option<(sux::utils::LineLender<FailRead>, Arc<Mutex<FailState>>)>,
    seq: Arc<KeySeq>,
    kt: Kt,
    faults: Arc<Faults>,
    seen: Arc<Mutex<Seen>>,
    pass: usize,
    pos: usize,
    cur: HKey,
}

impl<'lend> Lending<'lend> for KeyLender {
    type Lend = Result<&'lend HKey, io::Error>;
}

impl Lender for KeyLender {
    fn next(&mut self) -> Option<Result<&'_ HKey, io::Error>> {
        bump(&mut self.seen.lock().unwrap().kreads, self.pass);
        if let Some((ll, _)) = &mut self.lines {
            return match ll.next() {
                None => None,
                Some(Err(e)) => Some(Err(e)),
                Some(Ok(line)) => {
                    match &mut self.cur {
                        HKey::Str(s) => {
                            s.clear();
                            s.push_str(line);
                        }
                        c => *c = HKey::Str(line.to_string()),
                    }
                    Some(Ok(&self.cur))
                }
            };
        }
        let pos = self.pos;
        if self.faults.reads.contains(&(KEY, self.pass, pos)) {
            self.pos += 1;
            let kind = *self.faults.dkinds.get(&(KEY, self.pass, pos)).unwrap_or(&io::ErrorKind::Other);
            return Some(Err(io::Error::new(kind, format!("key:{}:{}", self.pass, pos))));
        }
        if pos >= self.seq.n {
            return None;
        }
        self.pos += 1;
        self.kt.set(&self.seq.f, self.seq.idx_at(pos), &mut self.cur);
        Some(Ok(&self.cur))
    }
}

impl RewindableIoLender<HKey> for KeyLender {
    type Error = io::Error;
    fn rewind(mut self) -> Result<Self, io::Error> {
        self.pass += 1;
        self.seen.lock().unwrap().krewinds += 1;
        if let Some((ll, st)) = self.lines.take() {
            {
                let mut g = st.lock().unwrap();
                g.pass = self.pass;
                g.fail_seek = self.faults.rewinds.contains(&(KEY, self.pass));
            }
            let ll = ll.rewind()?;
            self.lines = Some((ll, st));
            return Ok(self);
        }
        if self.faults.rewinds.contains(&(KEY, self.pass)) {
            return Err(io::Error::other(format!("key:rewind:{}", self.pass)));
        }
        self.pos = 0;
        Ok(self)
    }
}

// ---- value lender ------------------------------------------------------------
struct ValLender<W> {
    f: ValFn,
    faults: Arc<Faults>,
    seen: Arc<Mutex<Seen>>,
    pass: usize,
    pos: usize,
    cur: W,
}

trait WordOf: Copy + 'static {
    fn of_u64(x: u64) -> Self;
}
macro_rules! word_of {
    ($($t:ty),*) => {$(
        impl WordOf for $t {
            fn of_u64(x: u64) -> Self {
                <$t>::try_from(x).expect("script value does not fit the value word")
            }
        }
    )*};
}
word_of!(u8, u16, u32, u64, usize);

impl<'lend, W: WordOf> Lending<'lend> for ValLender<W> {
    type Lend = Result<&'lend W, io::Error>;
}

impl<W: WordOf> Lender for ValLender<W> {
    fn next(&mut self) -> Option<Result<&'_ W, io::Error>> {
        bump(&mut self.seen.lock().unwrap().vreads, self.pass);
        let pos = self.pos;
        if self.faults.reads.contains(&(VAL, self.pass, pos)) {
            self.pos += 1;
            let kind = *self.faults.dkinds.get(&(VAL, self.pass, pos)).unwrap_or(&io::ErrorKind::Other);
            return Some(Err(io::Error::new(kind, format!("val:{}:{}", self.pass, pos))));
        }
        if self.f.vn.map_or(false, |vn| pos >= vn) {
            return None;
        }
        self.pos += 1;
        self.cur = W::of_u64(self.f.at(pos));
        Some(Ok(&self.cur))
    }
}

impl<W: WordOf> RewindableIoLender<W> for ValLender<W> {
    type Error = io::Error;
    fn rewind(mut self) -> Result<Self, io::Error> {
        self.pass += 1;
        self.seen.lock().unwrap().vrewinds += 1;
        if self.faults.rewinds.contains(&(VAL, self.pass)) {
            return Err(io::Error::other(format!("val:rewind:{}", self.pass)));
        }
        self.pos = 0;
        Ok(self)
    }
}

// --------------------------------------------------------------------------
// type-erased queries
// --------------------------------------------------------------------------
trait Q {
    fn is_filter(&self) -> bool;
    fn is_bfv(&self) -> bool;
    fn q_len(&self) -> usize;
    fn q_is_empty(&self) -> bool;
    fn q_get(&self, k: &HKey) -> u128;
    fn q_get_unaligned(&self, k: &HKey) -> Option<u128>;
    fn q_contains(&self, k: &HKey) -> Option<bool>;
    fn q_contains_unaligned(&self, k: &HKey) -> Option<bool>;
    fn q_index(&self, k: &HKey) -> Option<bool>;
    fn q_hash_bits(&self) -> Option<u32>;
    fn q_mem(&self) -> usize;
}

/// Owned instances can be serialized and loaded back.
trait Owned: Q {
    fn as_q(&self) -> &dyn Q;
    fn reload(&self, mode: &str) -> Result<Loaded, String>;
}

enum Loaded {
    Full(Box<dyn Owned>),
    View(Box<dyn Q>),
}

impl<W, D, S, E> Q for VFunc<HKey, W, D, S, E>
where
    HKey: ToSig<S>,
    W: ZeroCopy + Word + UpcastableInto<u128>,
    D: BitFieldSlice<W>,
    S: Sig,
    E: ShardEdge<S, 3>,
    VFunc<HKey, W, D, S, E>: MemSize + BfvExt,
{
    fn is_filter(&self) -> bool {
        false
    }
    fn is_bfv(&self) -> bool {
        <Self as BfvExt>::IS_BFV
    }
    fn q_len(&self) -> usize {
        self.len()
    }
    fn q_is_empty(&self) -> bool {
        self.is_empty()
    }
    fn q_get(&self, k: &HKey) -> u128 {
        self.get(k).upcast()
    }
    fn q_get_unaligned(&self, k: &HKey) -> Option<u128> {
        self.ext_get_unaligned(k)
    }
    fn q_contains(&self, _k: &HKey) -> Option<bool> {
        None
    }
    fn q_contains_unaligned(&self, _k: &HKey) -> Option<bool> {
        None
    }
    fn q_index(&self, _k: &HKey) -> Option<bool> {
        None
    }
    fn q_hash_bits(&self) -> Option<u32> {
        None
    }
    fn q_mem(&self) -> usize {
        self.mem_size(SizeFlags::default())
    }
}

impl<W, D, S, E> Q for VFilter<W, VFunc<HKey, W, D, S, E>>
where
    HKey: ToSig<S>,
    W: ZeroCopy + Word + UpcastableInto<u128>,
    D: BitFieldSlice<W>,
    S: Sig,
    E: ShardEdge<S, 3>,
    u64: CastableInto<W>,
    VFilter<W, VFunc<HKey, W, D, S, E>>: MemSize + BfvExt,
{
    fn is_filter(&self) -> bool {
        true
    }
    fn is_bfv(&self) -> bool {
        <Self as BfvExt>::IS_BFV
    }
    fn q_len(&self) -> usize {
        self.len()
    }
    fn q_is_empty(&self) -> bool {
        self.is_empty()
    }
    fn q_get(&self, k: &HKey) -> u128 {
        self.get(k).upcast()
    }
    fn q_get_unaligned(&self, _k: &HKey) -> Option<u128> {
        None
    }
    fn q_contains(&self, k: &HKey) -> Option<bool> {
        Some(self.contains(k))
    }
    fn q_contains_unaligned(&self, k: &HKey) -> Option<bool> {
        self.ext_contains_unaligned(k)
    }
    fn q_index(&self, k: &HKey) -> Option<bool> {
        Some(self[k])
    }
    fn q_hash_bits(&self) -> Option<u32> {
        Some(self.hash_bits())
    }
    fn q_mem(&self) -> usize {
        self.mem_size(SizeFlags::default())
    }
}

/// The unaligned query variants exist on owned bit-field-vector backends only.
trait BfvExt {
    const IS_BFV: bool;
    fn ext_get_unaligned(&self, _k: &HKey) -> Option<u128> {
        None
    }
    fn ext_contains_unaligned(&self, _k: &HKey) -> Option<bool> {
        None
    }
}

macro_rules! plain_ext {
    ($bfv:expr, $($B:ty),*) => {$(
        impl<'a, W: ZeroCopy + Word, S: Sig, E: ShardEdge<S, 3>> BfvExt for VFunc<HKey, W, $B, S, E>
        where
            HKey: ToSig<S>,
            $B: BitFieldSlice<W>,
        {
            const IS_BFV: bool = $bfv;
        }
        impl<'a, W: ZeroCopy + Word, S: Sig, E: ShardEdge<S, 3>> BfvExt for VFilter<W, VFunc<HKey, W, $B, S, E>>
        where
            HKey: ToSig<S>,
            $B: BitFieldSlice<W>,
        {
            const IS_BFV: bool = $bfv;
        }
    )*};
}
plain_ext!(false, Box<[W]>, &'a [W]);
// zero-copy instances over a bit-field vector: the unaligned variants are not
// implemented for borrowed backends
plain_ext!(true, BitFieldVec<W, &'a [W]>);

impl<W: ZeroCopy + Word + UpcastableInto<u128>, S: Sig, E: ShardEdge<S, 3>> BfvExt
    for VFunc<HKey, W, BitFieldVec<W>, S, E>
where
    HKey: ToSig<S>,
{
    const IS_BFV: bool = true;
    fn ext_get_unaligned(&self, k: &HKey) -> Option<u128> {
        Some(self.get_unaligned(k).upcast())
    }
}
impl<W: ZeroCopy + Word, S: Sig, E: ShardEdge<S, 3>> BfvExt for VFilter<W, VFunc<HKey, W, BitFieldVec<W>, S, E>>
where
    HKey: ToSig<S>,
    u64: CastableInto<W>,
{
    const IS_BFV: bool = true;
    fn ext_contains_unaligned(&self, k: &HKey) -> Option<bool> {
        Some(self.contains_unaligned(k))
    }
}

macro_rules! delegate_q {
    ($target:ident) => {
        fn is_filter(&self) -> bool {
            self.$target().is_filter()
        }
        fn is_bfv(&self) -> bool {
            self.$target().is_bfv()
        }
        fn q_len(&self) -> usize {
            self.$target().q_len()
        }
        fn q_is_empty(&self) -> bool {
            self.$target().q_is_empty()
        }
        fn q_get(&self, k: &HKey) -> u128 {
            self.$target().q_get(k)
        }
        fn q_get_unaligned(&self, k: &HKey) -> Option<u128> {
            self.$target().q_get_unaligned(k)
        }
        fn q_contains(&self, k: &HKey) -> Option<bool> {
            self.$target().q_contains(k)
        }
        fn q_contains_unaligned(&self, k: &HKey) -> Option<bool> {
            self.$target().q_contains_unaligned(k)
        }
        fn q_index(&self, k: &HKey) -> Option<bool> {
            self.$target().q_index(k)
        }
        fn q_hash_bits(&self) -> Option<u32> {
            self.$target().q_hash_bits()
        }
        fn q_mem(&self) -> usize {
            self.$target().q_mem()
        }
    };
}

trait Inner {
    type X: Q;
    fn inner(&self) -> &Self::X;
}
impl<X: Q> Inner for MemCase<X> {
    type X = X;
    fn inner(&self) -> &X {
        self
    }
}
impl<X: Q> Q for MemCase<X> {
    delegate_q!(inner);
}

/// A zero-copy instance together with the buffer it borrows from.
struct EpsView<X> {
    x: X, // dropped before the buffer
    _buf: Vec<u128>,
}

impl<X: Q> Inner for EpsView<X> {
    type X = X;
    fn inner(&self) -> &X {
        &self.x
    }
}
impl<X: Q> Q for EpsView<X> {
    delegate_q!(inner);
}

impl<F> Owned for F
where
    F: Q + Serialize + Deserialize + 'static,
    for<'a> DeserType<'a, F>: Q,
{
    fn as_q(&self) -> &dyn Q {
        self
    }
    fn reload(&self, mode: &str) -> Result<Loaded, String> {
        match mode {
            "full" => {
                let mut bytes: Vec<u8> = Vec::new();
                self.serialize(&mut bytes).map_err(|e| format!("serialize: {e}"))?;
                let mut cur = std::io::Cursor::new(bytes);
                let f = F::deserialize_full(&mut cur).map_err(|e| format!("deserialize_full: {e}"))?;
                Ok(Loaded::Full(Box::new(f)))
            }
            "eps" => {
                let mut bytes: Vec<u8> = Vec::new();
                self.serialize(&mut bytes).map_err(|e| format!("serialize: {e}"))?;
                // 16-byte aligned copy of the serialized form
                let mut buf: Vec<u128> = vec![0; bytes.len().div_ceil(16)];
                let slice: &mut [u8] =
                    unsafe { std::slice::from_raw_parts_mut(buf.as_mut_ptr() as *mut u8, bytes.len()) };
                slice.copy_from_slice(&bytes);
                // SAFETY: the view is dropped before the buffer (field order of
                // EpsView) and the buffer is never moved out or modified.
                let st: &'static [u8] = unsafe { std::slice::from_raw_parts(buf.as_ptr() as *const u8, bytes.len()) };
                let x = F::deserialize_eps(st).map_err(|e| format!("deserialize_eps: {e}"))?;
                Ok(Loaded::View(Box::new(EpsView { x, _buf: buf })))
            }
            "eps8" => {
                // the same bytes placed at 8 modulo 16 (a legitimate buffer for ε-serde; leaked)
                let mut bytes: Vec<u8> = Vec::new();
                self.serialize(&mut bytes).map_err(|e| format!("serialize: {e}"))?;
                let st = leak_aligned(&bytes, true);
                let x = F::deserialize_eps(st).map_err(|e| format!("deserialize_eps: {e}"))?;
                Ok(Loaded::View(Box::new(EpsView { x, _buf: Vec::new() })))
            }
            "mmap" => {
                let dir = tempfile::tempdir().map_err(|e| e.to_string())?;
                let path = dir.path().join("s.bin");
                self.store(&path).map_err(|e| format!("store: {e}"))?;
                let m = F::mmap(&path, Flags::empty()).map_err(|e| format!("mmap: {e}"))?;
                // the mapping stays valid after the file is unlinked
                Ok(Loaded::View(Box::new(m)))
            }
            m => Err(format!("unknown reload mode {m}")),
        }
    }
}

// --------------------------------------------------------------------------
// building
// --------------------------------------------------------------------------
struct BuildOut {
    built: Option<Box<dyn Owned>>,
    err: Option<(String, String)>,
}

fn classify(e: anyhow::Error) -> (String, String) {
    match e.downcast::<BuildError>() {
        Ok(BuildError::DuplicateKey) => ("DuplicateKey".into(), String::new()),
        Ok(BuildError::DuplicateLocalSignatures) => ("DuplicateLocalSignatures".into(), String::new()),
        Ok(BuildError::ValueTooLarge) => ("ValueTooLarge".into(), String::new()),
        Err(e) => match e.downcast::<io::Error>() {
            Ok(ioe) => ("io".into(), ioe.to_string()),
            Err(e) => ("other".into(), format!("{e}")),
        },
    }
}

fn opt_u64(v: &Value) -> Option<u64> {
    match v {
        Value::Array(a) => a.first().and_then(|x| x.as_u64()),
        Value::Number(n) => n.as_u64(),
        _ => None,
    }
}

fn opt_bool(v: &Value) -> Option<bool> {
    match v {
        Value::Array(a) => a.first().and_then(|x| x.as_bool()),
        Value::Bool(b) => Some(*b),
        _ => None,
    }
}

macro_rules! configure {
    ($b:expr, $op:expr) => {{
        let op: &Value = $op;
        let mut b = $b;
        if let Some(h) = opt_u64(&op["hint"]) {
            b = b.expected_num_keys(h as usize);
        }
        if let Some(t) = opt_u64(&op["threads"]) {
            b = b.max_num_threads(t as usize);
        }
        if let Some(o) = opt_bool(&op["offline"]) {
            b = b.offline(o);
        }
        if let Some(c) = opt_bool(&op["check_dups"]) {
            b = b.check_dups(c);
        }
        if let Some(l) = opt_bool(&op["low_mem"]) {
            b = b.low_mem(l);
        }
        if let Some(s) = opt_u64(&op["seed"]) {
            b = b.seed(s);
        }
        if let Some(l) = opt_u64(&op["log2_buckets"]) {
            b = b.log2_buckets(l as u32);
        }
        if let Some(e) = op["eps"].as_str() {
            b = b.eps(e.parse::<f64>().expect("eps"));
        }
        b
    }};
}

struct Inputs {
    seq: Arc<KeySeq>,
    kt: Kt,
    faults: Arc<Faults>,
    seen: Arc<Mutex<Seen>>,
    vf: ValFn,
}

fn key_lender(inp: &Inputs) -> KeyLender {
    let lines = if inp.faults.lines {
        // the text of the keys: LF and CRLF terminators alternate
        let mut data = Vec::new();
        let mut starts = Vec::new();
        let mut s = String::new();
        for pos in 0..inp.seq.n {
            starts.push(data.len());
            inp.seq.f.str_key(inp.seq.idx_at(pos), &mut s);
            data.extend_from_slice(s.as_bytes());
            data.extend_from_slice(if pos % 2 == 0 { b"\n" } else { b"\r\n" });
        }
        starts.push(data.len());
        let st = Arc::new(Mutex::new(FailState { pass: 0, fail_seek: false, fired: HashSet::new() }));
        let rd = FailRead { data: Arc::new(data), starts: Arc::new(starts), pos: 0, st: st.clone(), faults: inp.faults.clone() };
        Some((sux::utils::LineLender::new(rd), st))
    } else {
        None
    };
    KeyLender {
        lines,
        seq: inp.seq.clone(),
        kt: inp.kt,
        faults: inp.faults.clone(),
        seen: inp.seen.clone(),
        pass: 0,
        pos: 0,
        cur: HKey::Usize(0),
    }
}

fn val_lender<W: WordOf>(inp: &Inputs) -> ValLender<W> {
    ValLender {
        f: inp.vf.clone(),
        faults: inp.faults.clone(),
        seen: inp.seen.clone(),
        pass: 0,
        pos: 0,
        cur: W::of_u64(0),
    }
}

fn wrap<F: Owned + 'static>(r: anyhow::Result<F>) -> BuildOut {
    match r {
        Ok(f) => BuildOut { built: Some(Box::new(f)), err: None },
        Err(e) => BuildOut { built: None, err: Some(classify(e)) },
    }
}

macro_rules! func_box {
    ($op:expr, $inp:expr, $W:ty, $S:ty, $E:ty) => {
        wrap(configure!(VBuilder::<$W, Box<[$W]>, $S, $E>::default(), $op).try_build_func::<HKey>(
            key_lender($inp),
            val_lender::<$W>($inp),
            no_logging![],
        ))
    };
}
macro_rules! func_bfv {
    ($op:expr, $inp:expr, $W:ty, $S:ty, $E:ty) => {
        wrap(configure!(VBuilder::<$W, BitFieldVec<$W>, $S, $E>::default(), $op).try_build_func::<HKey>(
            key_lender($inp),
            val_lender::<$W>($inp),
            no_logging![],
        ))
    };
}
macro_rules! filter_box {
    ($op:expr, $inp:expr, $W:ty, $S:ty, $E:ty) => {
        wrap(
            configure!(VBuilder::<$W, Box<[$W]>, $S, $E>::default(), $op)
                .try_build_filter::<HKey>(key_lender($inp), no_logging![]),
        )
    };
}
macro_rules! filter_bfv {
    ($op:expr, $inp:expr, $W:ty, $S:ty, $E:ty) => {
        wrap(configure!(VBuilder::<$W, BitFieldVec<$W>, $S, $E>::default(), $op).try_build_filter::<HKey>(
            key_lender($inp),
            get_usize($op, "bits"),
            no_logging![],
        ))
    };
}

/// The instantiations of the builder compiled into the executor. Each one
/// costs more than two seconds of compile time (the whole solver is generic),
/// so the table is sparse: with the default logic every slice word for
/// functions and filters and the bit-field backend on the widest and the
/// narrowest word; with the other three logics a bit-field function over
/// `usize` and a `Box<[u8]>` filter (what the crate's own tests build); the
/// MWHC logics (a feature of sux) with one function and one filter.
/// `COMBOS` in lib/gen_vbuild.py lists the same table.
fn do_build(op: &Value, inp: &Inputs) -> BuildOut {
    type S2 = [u64; 2];
    type S1 = [u64; 1];
    let kind = op["kind"].as_str().unwrap_or("func");
    let backend = op["backend"].as_str().unwrap_or("box");
    let wt = op["wt"].as_str().unwrap_or("usize");
    let logic = op["logic"].as_str().unwrap_or("shards");
    let sig = op["sig"].as_u64().unwrap_or(2);
    match (logic, sig, kind, backend, wt) {
        ("shards", 2, "func", "box", "u8") => func_box!(op, inp, u8, S2, FuseLge3Shards),
        ("shards", 2, "func", "box", "u16") => func_box!(op, inp, u16, S2, FuseLge3Shards),
        ("shards", 2, "func", "box", "u32") => func_box!(op, inp, u32, S2, FuseLge3Shards),
        ("shards", 2, "func", "box", "u64") => func_box!(op, inp, u64, S2, FuseLge3Shards),
        ("shards", 2, "func", "box", "usize") => func_box!(op, inp, usize, S2, FuseLge3Shards),
        ("shards", 2, "func", "bfv", "usize") => func_bfv!(op, inp, usize, S2, FuseLge3Shards),
        ("shards", 2, "func", "bfv", "u8") => func_bfv!(op, inp, u8, S2, FuseLge3Shards),
        ("shards", 2, "filter", "box", "u8") => filter_box!(op, inp, u8, S2, FuseLge3Shards),
        ("shards", 2, "filter", "box", "u16") => filter_box!(op, inp, u16, S2, FuseLge3Shards),
        ("shards", 2, "filter", "box", "u32") => filter_box!(op, inp, u32, S2, FuseLge3Shards),
        ("shards", 2, "filter", "box", "u64") => filter_box!(op, inp, u64, S2, FuseLge3Shards),
        ("shards", 2, "filter", "bfv", "u64") => filter_bfv!(op, inp, u64, S2, FuseLge3Shards),
        ("shards", 2, "filter", "bfv", "u8") => filter_bfv!(op, inp, u8, S2, FuseLge3Shards),

        ("noshards", 2, "func", "bfv", "usize") => func_bfv!(op, inp, usize, S2, FuseLge3NoShards),
        ("noshards", 2, "filter", "box", "u8") => filter_box!(op, inp, u8, S2, FuseLge3NoShards),
        ("noshards", 1, "func", "bfv", "usize") => func_bfv!(op, inp, usize, S1, FuseLge3NoShards),
        ("noshards", 1, "filter", "box", "u8") => filter_box!(op, inp, u8, S1, FuseLge3NoShards),
        ("fullsigs", 2, "func", "bfv", "usize") => func_bfv!(op, inp, usize, S2, FuseLge3FullSigs),
        ("fullsigs", 2, "filter", "box", "u8") => filter_box!(op, inp, u8, S2, FuseLge3FullSigs),
        // MWHC logics (feature `mwhc` of sux): finely sharded peeling at moderate sizes
        #[cfg(feature = "mwhc")]
        ("mwhc", 2, "func", "bfv", "usize") => func_bfv!(op, inp, usize, S2, Mwhc3Shards),
        #[cfg(feature = "mwhc")]
        ("mwhc", 2, "filter", "box", "u8") => filter_box!(op, inp, u8, S2, Mwhc3Shards),
        #[cfg(feature = "mwhc")]
        ("mwhcnoshards", 2, "func", "bfv", "usize") => func_bfv!(op, inp, usize, S2, Mwhc3NoShards),
        c => panic!("builder instantiation not compiled into the executor: {c:?}"),
    }
}

// --------------------------------------------------------------------------
// interpreter
// --------------------------------------------------------------------------
fn wide_or_plain(x: u128, wide: bool) -> Value {
    if wide {
        json!(limbs(x))
    } else {
        json!(x as u64)
    }
}

fn idx_list(op: &Value) -> Vec<u64> {
    // either an explicit list "idx" or a range "from", "count"
    if let Some(a) = op["idx"].as_array() {
        a.iter().map(|x| x.as_u64().unwrap()).collect()
    } else {
        let from = op["from"].as_u64().unwrap();
        let count = op["count"].as_u64().unwrap();
        (from..from + count).collect()
    }
}

fn short(msg: &str) -> String {
    msg.chars().take(120).collect::<String>().replace('"', "'")
}

/// Number of `hang` events already in the trace being written (the runner
/// restarts the executor after each hang). A hang is a violation whatever
/// follows; once three builds have hung, the remaining *small* builds of the
/// trace run under a short watchdog so that a change that makes a whole class
/// of builds loop forever does not cost the full budget hundreds of times.
fn hangs_so_far() -> usize {
    static N: std::sync::OnceLock<usize> = std::sync::OnceLock::new();
    *N.get_or_init(|| {
        std::env::args()
            .nth(2)
            .and_then(|p| std::fs::read_to_string(p).ok())
            .map(|t| t.lines().filter(|l| l.contains("\"out\":\"hang\"")).count())
            .unwrap_or(0)
    })
}

fn with_dup_at_rank(op: &Value, kf: &KeyFn, kt: Kt) -> Value {
    use rand::{rngs::SmallRng, Rng, SeedableRng};
    let n = get_usize(op, "n");
    let rank = op["dup_rank"].as_u64().unwrap() as usize;
    let builder_seed = op.get("seed").and_then(|v| v.as_u64()).unwrap_or(0);
    // VBuilder::build_loop: prng = SmallRng::seed_from_u64(self.seed); seed = prng.random()
    let seed: u64 = SmallRng::seed_from_u64(builder_seed).random();
    let wide = op["sig"].as_u64().unwrap_or(2) == 2;
    let mut key = HKey::Usize(0);
    let mut sigs: Vec<([u64; 2], u64)> = (0..n as u64)
        .map(|i| {
            kt.set(kf, i, &mut key);
            let sig = if wide {
                <HKey as ToSig<[u64; 2]>>::to_sig(&key, seed)
            } else {
                [<HKey as ToSig<[u64; 1]>>::to_sig(&key, seed)[0], 0]
            };
            (sig, i)
        })
        .collect();
    sigs.sort();
    let mut op2 = op.clone();
    if n > 0 {
        let idx = sigs[rank.min(n - 1)].1;
        op2["n"] = json!(n + 1);
        let mut subst = op["subst"].as_array().cloned().unwrap_or_default();
        subst.push(json!([n, idx]));
        op2["subst"] = Value::Array(subst);
    }
    op2
}

pub fn run(ep: &Value, ctx: &mut Ctx) {
    sux::verif::set_build_event(hook);
    let kf = KeyFn::parse(&ep["keyfn"]);
    let kt = Kt::parse(ep["kt"].as_str().unwrap_or("usize"));
    let mut owned: Option<Box<dyn Owned>> = None;
    let mut view: Option<Box<dyn Q>> = None;
    let mut key = HKey::Usize(0);

    let hdr = json!({"op": "BEGIN", "fam": "vbuild", "src": ep.get("src").cloned().unwrap_or(json!("?")),
                     "kt": ep.get("kt").cloned().unwrap_or(json!("usize")), "keyfn": ep["keyfn"].clone()});
    ctx.begin(&hdr);
    ctx.emit(&hdr, "ret", json!({}));

    for op in ep["ops"].as_array().unwrap() {
        // `dup_rank: r` on a build: one more position is appended to the key
        // sequence, holding a second copy of the key whose signature (under the
        // seed of the first construction attempt) has rank r among the
        // signatures of the n keys, i.e. the duplicate pair sits at positions
        // r, r+1 of the sorted shard. The executor only chooses the input: the
        // rewritten op (n + 1 positions, one substitution) is what is executed
        // and logged, and the specification judges it as any other duplicate.
        let rewritten;
        let op = if op["op"] == "build" && op.get("dup_rank").and_then(|v| v.as_u64()).is_some() {
            rewritten = with_dup_at_rank(op, &kf, kt);
            &rewritten
        } else {
            op
        };
        ctx.begin(op);
        let name = op["op"].as_str().unwrap();
        if name == "build" {
            view = None;
            owned = None;
            if hangs_so_far() >= 3 {
                let n = get_usize(op, "n");
                let cap = if n < 100 { 2_000 } else if n < 5000 { 15_000 } else { 120_000 };
                ctx.set_budget_ms(ep.get("budget_ms").and_then(|v| v.as_u64()).unwrap_or(20_000).min(cap));
            }
            let mut subst = HashMap::new();
            if let Some(a) = op["subst"].as_array() {
                for s in a {
                    subst.insert(s[0].as_u64().unwrap() as usize, s[1].as_u64().unwrap());
                }
            }
            let inp = Inputs {
                seq: Arc::new(KeySeq { f: kf.clone(), n: get_usize(op, "n"), subst }),
                kt,
                faults: Arc::new(Faults::parse(op)),
                seen: Arc::new(Mutex::new(Seen::default())),
                vf: ValFn::parse(&op["vals"]),
            };
            EVENTS.lock().unwrap().clear();
            let r = guard(|| do_build(op, &inp));
            let events: Vec<Value> = EVENTS.lock().unwrap().iter().map(|(k, v)| json!([k, v])).collect();
            let seen = inp.seen.lock().unwrap();
            let mut fields = json!({"events": events, "kreads": seen.kreads, "vreads": seen.vreads,
                                    "krewinds": seen.krewinds, "vrewinds": seen.vrewinds});
            match r {
                Ok(b) => {
                    let (res, err, emsg) = match &b.err {
                        None => ("ok", json!([]), String::new()),
                        Some((k, m)) => ("err", json!([k]), m.clone()),
                    };
                    fields["res"] = json!(res);
                    fields["err"] = err;
                    fields["emsg"] = json!(short(&emsg));
                    owned = b.built;
                    ctx.emit(op, "ret", fields);
                }
                Err(msg) => {
                    fields["msg"] = json!(short(&msg));
                    ctx.emit(op, "panic", fields);
                }
            }
            continue;
        }
        if name == "reload" {
            let mode = op["mode"].as_str().unwrap_or("full");
            let r = match owned.as_ref() {
                None => Ok(None),
                Some(o) => guard(|| o.reload(mode)).map(Some),
            };
            match r {
                Ok(None) => ctx.emit(op, "na", json!({})),
                Ok(Some(Ok(Loaded::Full(f)))) => {
                    view = None;
                    owned = Some(f);
                    ctx.emit(op, "ret", json!({"res": "ok"}));
                }
                Ok(Some(Ok(Loaded::View(v)))) => {
                    view = Some(v);
                    ctx.emit(op, "ret", json!({"res": "ok"}));
                }
                Ok(Some(Err(e))) => ctx.emit(op, "ret", json!({"res": format!("error {}", short(&e))})),
                Err(msg) => ctx.emit(op, "panic", json!({"msg": short(&msg)})),
            }
            continue;
        }
        // ---- queries on the structure under test (the loaded copy after a reload)
        let q: Option<&dyn Q> = match (&view, &owned) {
            (Some(v), _) => Some(v.as_ref()),
            (None, Some(o)) => Some(o.as_q()),
            _ => None,
        };
        let Some(q) = q else {
            ctx.emit(op, "na", json!({}));
            continue;
        };
        let wide = op["wide"].as_bool().unwrap_or(false);
        let key = &mut key;
        let r: Result<Option<Value>, String> = match name {
            "len" => guard(|| Some(json!(q.q_len()))),
            "is_empty" => guard(|| Some(json!(q.q_is_empty()))),
            "hash_bits" => guard(|| q.q_hash_bits().map(|b| json!(b))),
            "mem_size" => guard(|| Some(json!(q.q_mem()))),
            "get" => guard(|| {
                let mut out = Vec::new();
                for i in idx_list(op) {
                    kt.set(&kf, i, key);
                    out.push(wide_or_plain(q.q_get(key), wide));
                }
                Some(Value::Array(out))
            }),
            "get_unaligned" => guard(|| {
                let mut out = Vec::new();
                for i in idx_list(op) {
                    kt.set(&kf, i, key);
                    out.push(wide_or_plain(q.q_get_unaligned(key)?, wide));
                }
                Some(Value::Array(out))
            }),
            "contains" | "contains_unaligned" | "index" => guard(|| {
                let mut out = Vec::new();
                for i in idx_list(op) {
                    kt.set(&kf, i, key);
                    out.push(json!(match name {
                        "contains" => q.q_contains(key)?,
                        "index" => q.q_index(key)?,
                        _ => q.q_contains_unaligned(key)?,
                    }));
                }
                Some(Value::Array(out))
            }),
            // number of positives among the key indices from .. from + m
            "probe" => guard(|| {
                let from = op["from"].as_u64().unwrap();
                let m = op["m"].as_u64().unwrap();
                let mut pos = 0u64;
                for i in from..from + m {
                    kt.set(&kf, i, key);
                    pos += q.q_contains(key)? as u64;
                }
                Some(json!(pos))
            }),
            other => panic!("unknown vbuild op {other}"),
        };
        match r {
            Ok(Some(v)) => ctx.emit(op, "ret", json!({"res": v})),
            Ok(None) => ctx.emit(op, "na", json!({})),
            Err(msg) => ctx.emit(op, "panic", json!({"msg": short(&msg)})),
        }
    }
}
