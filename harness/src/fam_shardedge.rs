//! Family "shardedge": the shard/edge logics of `sux::func::shard_edge`
//! (property C16, with C12 for arbitrary signatures).
//!
//! Episode: `{"fam":"shardedge","logic":"FuseLge3Shards","sigw":2,"ops":[...]}`.
//! `logic` x `sigw` selects one `ShardEdge<[u64; sigw], 3>` implementation;
//! the instance starts as `Default::default()`. Operations:
//!
//! * `shards {n, eps}`      -> `set_up_shards(n, eps)`
//! * `graphs {n, ms}`       -> `set_up_graphs(n, max_shard)`; `ms` is a recipe
//!   `{"k":"avg"|"max"|"mid","i":..}` (smallest / largest / intermediate size of
//!   the largest shard that `VBuilder::try_seed` accepts for `n` keys in the
//!   current number of shards), `{"k":"over","i":..}` / `{"k":"all"}` (larger
//!   than that, up to all keys in one shard: `try_seed` sets up the graphs
//!   before it rejects such a shard) or `{"k":"abs","v":limbs}`
//! * `reload {mode}`, `mem_size`, `state`
//! * `edge {sig}`           -> everything the logic says about one signature
//!
//! Numbers that may exceed 2^31 are base-2^15 limb lists, signature words are
//! lists of set-bit positions. Nothing is judged here.

use crate::util::*;
use crate::{guard, Ctx};
use serde_json::{json, Value};
use epserde::prelude::*;
use sux::func::shard_edge::*;
use sux::utils::Sig;

/// Serializes the logic with ε-serde and loads it back in one of three ways
/// (C15): the loaded copy replaces the instance under test.
macro_rules! reloader {
    ($t:ty) => {{
        fn f(e: &$t, mode: &str) -> Result<$t, String> {
            let mut buf: Vec<u8> = Vec::new();
            e.serialize(&mut buf).map_err(|x| format!("serialize: {x}"))?;
            match mode {
                "full" => <$t>::deserialize_full(&mut std::io::Cursor::new(&buf)).map_err(|x| format!("full: {x}")),
                "eps" => {
                    let mut al = vec![0u128; buf.len() / 16 + 1];
                    let bytes = unsafe { std::slice::from_raw_parts_mut(al.as_mut_ptr() as *mut u8, buf.len()) };
                    bytes.copy_from_slice(&buf);
                    let r = <$t>::deserialize_eps(bytes).map_err(|x| format!("eps: {x}"))?;
                    Ok(r)
                }
                "mmap" => {
                    // a failing temporary directory is a tool failure, not an observation
                    let dir = tempfile::tempdir().unwrap_or_else(|x| tool_fail(&x.to_string()));
                    let path = dir.path().join("logic.bin");
                    e.store(&path).unwrap_or_else(|x| tool_fail(&format!("store: {x}")));
                    let m = <$t>::mmap(&path, Flags::empty()).map_err(|x| format!("mmap: {x}"))?;
                    let r: $t = *m;
                    Ok(r)
                }
                _ => Err("unknown reload mode".into()),
            }
        }
        f
    }};
}

fn tool_fail(msg: &str) -> ! {
    eprintln!("shardedge: {msg}");
    std::process::exit(2)
}

fn lim(x: usize) -> Value {
    json!(limbs(x as u128))
}

fn words_of<T: Copy>(x: &T) -> Vec<u64> {
    let n = std::mem::size_of::<T>() / 8;
    // SAFETY: signatures are `[u64; 1]` or `[u64; 2]`
    unsafe { std::slice::from_raw_parts(x as *const T as *const u64, n) }.to_vec()
}

fn sig_bits(words: &[u64]) -> Value {
    Value::Array(words.iter().map(|&w| json!(bits_of_u128(w as u128))).collect())
}

/// "... Segment size: 2^9 Number of segments: 114" / "... vertices per shard: 369"
fn geometry(disp: &str) -> Value {
    fn after<'a>(s: &'a str, key: &str) -> Option<&'a str> {
        s.find(key).map(|k| {
            let t = &s[k + key.len()..];
            let e = t.find(|c: char| !c.is_ascii_digit()).unwrap_or(t.len());
            &t[..e]
        })
    }
    if let (Some(s), Some(k)) = (after(disp, "Segment size: 2^"), after(disp, "Number of segments: ")) {
        if let (Ok(s), Ok(k)) = (s.parse::<u64>(), k.parse::<u128>()) {
            return json!({"kind": "fuse", "s": s, "segs": limbs(k)});
        }
    }
    if let Some(v) = after(disp, "Number of vertices per shard: ") {
        if let Ok(v) = v.parse::<u128>() {
            return json!({"kind": "mwhc", "per": limbs(v)});
        }
    }
    json!({"kind": "unknown"})
}

/// Size of the largest shard passed to `set_up_graphs`, chosen inside what
/// `try_seed` accepts: ceil(n / shards) <= ms <= 1.01 * n / shards (as f64).
fn max_shard(n: usize, bits: u32, recipe: &Value) -> usize {
    let k = recipe["k"].as_str().unwrap_or("avg");
    if k == "abs" {
        return of_limbs(&recipe["v"]) as usize;
    }
    let shards = 1u128 << bits;
    let lo = ((n as u128 + shards - 1) / shards) as usize;
    if bits == 0 {
        return n;
    }
    let mut hi = (1.01 * n as f64 / shards as f64).floor() as usize;
    while hi > lo && hi as f64 > 1.01 * n as f64 / shards as f64 {
        hi -= 1;
    }
    if hi < lo {
        hi = lo;
    }
    match k {
        "avg" => lo,
        "max" => hi,
        // beyond what try_seed accepts, but still passed to set_up_graphs before the check
        "over" => {
            let i = recipe["i"].as_u64().unwrap_or(1) as usize;
            (hi + 1 + ((lo as u128 * i as u128) / 64) as usize).min(n)
        }
        "all" => n,
        _ => {
            let i = recipe["i"].as_u64().unwrap_or(1) as usize;
            lo + ((hi - lo) as u128 * (i.min(16) as u128) / 16) as usize
        }
    }
}

fn state<S: Sig + Copy, E: ShardEdge<S, 3>>(e: &E) -> Value {
    let nv = e.num_vertices();
    let ns = e.num_shards();
    let disp = format!("{}", e);
    json!({
        "bits": e.shard_high_bits(),
        "nshards": lim(ns),
        "nv": lim(nv),
        "nsk": lim(e.num_sort_keys()),
        "blen": limbs(nv as u128 * ns as u128),
        "geom": geometry(&disp),
        "disp": disp,
    })
}

/// The projection calls the code under test (`num_vertices()` multiplies):
/// a panic there is an observation of the operation that led to this state.
fn proj<S: Sig + Copy, E: ShardEdge<S, 3>>(e: &E) -> Result<Value, String> {
    guard(|| state::<S, E>(e)).map_err(|m| format!("projection: {m}"))
}

fn merge(mut a: Value, b: Value) -> Value {
    if let (Value::Object(x), Value::Object(y)) = (&mut a, b) {
        for (k, v) in y {
            x.insert(k, v);
        }
    }
    a
}

fn drive<S: Sig + Copy, E: ShardEdge<S, 3> + mem_dbg::MemSize>(
    ep: &Value,
    ctx: &mut Ctx,
    mk: fn(&[u64]) -> S,
    reload: fn(&E, &str) -> Result<E, String>,
) {
    let mut e = E::default();
    for op in ep["ops"].as_array().unwrap() {
        ctx.begin(op);
        let name = op["op"].as_str().unwrap();
        let r: Result<Value, String> = match name {
            "shards" => {
                let n = of_limbs(&op["n"]) as usize;
                let eps: f64 = op["eps"].as_str().unwrap().parse().unwrap();
                let mut t = e;
                let r = guard(|| {
                    t.set_up_shards(n, eps);
                    t
                });
                r.and_then(|t| {
                    e = t;
                    proj::<S, E>(&e)
                })
            }
            "graphs" => {
                let n = of_limbs(&op["n"]) as usize;
                let ms = max_shard(n, e.shard_high_bits(), &op["ms"]);
                let mut t = e;
                let r = guard(|| {
                    let (c, lge) = t.set_up_graphs(n, ms);
                    (t, c, lge)
                });
                match r {
                    Ok((t, c, lge)) => {
                        e = t;
                        match proj::<S, E>(&e) {
                            Ok(st) => Ok(merge(st, json!({"msv": lim(ms), "c": format!("{}", c), "lge": lge}))),
                            Err(m) => {
                                ctx.emit(op, "panic", json!({"msv": lim(ms), "msg": m}));
                                continue;
                            }
                        }
                    }
                    // a panicking set-up leaves the instance as it was (Copy type)
                    Err(m) => {
                        ctx.emit(op, "panic", json!({"msv": lim(ms), "msg": m}));
                        continue;
                    }
                }
            }
            "state" => proj::<S, E>(&e),
            "reload" => {
                let mode = op["mode"].as_str().unwrap_or("full").to_string();
                match guard(|| reload(&e, &mode)) {
                    Ok(Ok(t)) => {
                        e = t;
                        proj::<S, E>(&e)
                    }
                    Ok(Err(m)) => Ok(json!({"ioerr": m})),
                    Err(m) => Err(m),
                }
            }
            "mem_size" => guard(|| e.mem_size(mem_dbg::SizeFlags::default())).map(|r| json!({"res": r})),
            "edge" => {
                let words: Vec<u64> = op["sig"]
                    .as_array()
                    .unwrap()
                    .iter()
                    .map(|w| u128_of_bits(w) as u64)
                    .collect();
                let sig = mk(&words);
                guard(|| {
                    let bits = e.shard_high_bits();
                    let edge = e.edge(sig);
                    let ls = e.local_sig(sig);
                    let le = e.local_edge(ls);
                    let sh = e.shard(sig);
                    let sk = e.sort_key(sig);
                    let hb = sig.high_bits(bits, (1u64 << bits) - 1);
                    let eh = e.edge_hash(ls);
                    json!({
                        "edge": [lim(edge[0]), lim(edge[1]), lim(edge[2])],
                        "ledge": [lim(le[0]), lim(le[1]), lim(le[2])],
                        "lsig": sig_bits(&words_of(&ls)),
                        "sh": lim(sh),
                        "sk": lim(sk),
                        "hb": limbs(hb as u128),
                        "eh": bits_of_u128(eh as u128),
                    })
                })
            }
            // Signatures on both sides of a point where the first vertex changes, found by
            // binary search on the logic's own edge() (inputs only: the specification
            // judges every item as it judges an `edge` event). `var` says which 64-bit
            // quantity is varied: "r" = sig[0] rotated left by the shard bits, "w0" = sig[0],
            // "w1" = sig[1]; `frac` (per mille) picks the point.
            "boundary" => {
                let base: Vec<u64> = op["sig"].as_array().unwrap().iter().map(|w| u128_of_bits(w) as u64).collect();
                let var = op["var"].as_str().unwrap_or("r").to_string();
                let frac = op["frac"].as_u64().unwrap_or(500) as u128;
                guard(|| {
                    let h = e.shard_high_bits();
                    let make = |x: u64| -> Vec<u64> {
                        let mut w = base.clone();
                        match var.as_str() {
                            "w1" if w.len() > 1 => w[1] = x,
                            "w0" => w[0] = x,
                            _ => w[0] = x.rotate_right(h),
                        }
                        w
                    };
                    let v0 = |x: u64| e.edge(mk(&make(x)))[0] as u128;
                    let (a, z) = (v0(0), v0(u64::MAX));
                    let t = if z > a { a + (z - a) * frac / 1000 } else { a };
                    let (mut lo, mut hi) = (0u64, u64::MAX);
                    while lo < hi {
                        let mid = lo + (hi - lo) / 2;
                        if v0(mid) >= t {
                            hi = mid;
                        } else {
                            lo = mid + 1;
                        }
                    }
                    let mask = if h == 0 { 0 } else { (1u64 << h) - 1 };
                    let mut xs = vec![lo.wrapping_sub(2), lo.wrapping_sub(1), lo, lo.wrapping_add(1), lo & !mask, lo | mask,
                                      lo.wrapping_sub(1) & !mask, lo.wrapping_sub(1) | mask];
                    xs.dedup();
                    let items: Vec<Value> = xs
                        .into_iter()
                        .map(|x| {
                            let words = make(x);
                            let sig = mk(&words);
                            let bits = e.shard_high_bits();
                            let edge = e.edge(sig);
                            let ls = e.local_sig(sig);
                            let le = e.local_edge(ls);
                            json!({
                                "op": "edge", "out": "ret",
                                "sig": sig_bits(&words),
                                "edge": [lim(edge[0]), lim(edge[1]), lim(edge[2])],
                                "ledge": [lim(le[0]), lim(le[1]), lim(le[2])],
                                "sh": lim(e.shard(sig)),
                                "sk": lim(e.sort_key(sig)),
                                "hb": limbs(sig.high_bits(bits, (1u64 << bits) - 1) as u128),
                            })
                        })
                        .collect();
                    json!({"items": items})
                })
            }
            _ => Err("na".into()),
        };
        match r {
            Ok(f) => ctx.emit(op, "ret", f),
            Err(m) if m == "na" => ctx.emit(op, "na", json!({})),
            Err(m) => ctx.emit(op, "panic", json!({"msg": m})),
        }
    }
}

fn mk1(w: &[u64]) -> [u64; 1] {
    [w[0]]
}
fn mk2(w: &[u64]) -> [u64; 2] {
    [w[0], w[1]]
}

pub fn run(ep: &Value, ctx: &mut Ctx) {
    let logic = ep["logic"].as_str().unwrap_or("?").to_string();
    let sigw = ep["sigw"].as_u64().unwrap_or(0);
    let hdr = json!({"op": "BEGIN", "fam": "shardedge", "src": ep.get("src").cloned().unwrap_or(json!("?")),
                     "logic": logic, "sigw": sigw});
    ctx.begin(&hdr);
    ctx.emit(&hdr, "ret", json!({}));
    match (logic.as_str(), sigw) {
        ("FuseLge3Shards", 2) => drive::<[u64; 2], FuseLge3Shards>(ep, ctx, mk2, reloader!(FuseLge3Shards)),
        ("FuseLge3FullSigs", 2) => drive::<[u64; 2], FuseLge3FullSigs>(ep, ctx, mk2, reloader!(FuseLge3FullSigs)),
        ("FuseLge3NoShards", 2) => drive::<[u64; 2], FuseLge3NoShards>(ep, ctx, mk2, reloader!(FuseLge3NoShards)),
        ("FuseLge3NoShards", 1) => drive::<[u64; 1], FuseLge3NoShards>(ep, ctx, mk1, reloader!(FuseLge3NoShards)),
        #[cfg(feature = "mwhc")]
        ("Mwhc3Shards", 2) => drive::<[u64; 2], Mwhc3Shards>(ep, ctx, mk2, reloader!(Mwhc3Shards)),
        #[cfg(feature = "mwhc")]
        ("Mwhc3NoShards", 2) => drive::<[u64; 2], Mwhc3NoShards>(ep, ctx, mk2, reloader!(Mwhc3NoShards)),
        _ => {
            // a logic this build does not contain: every op is "na"
            for op in ep["ops"].as_array().unwrap() {
                ctx.begin(op);
                ctx.emit(op, "na", json!({}));
            }
        }
    }
}
