//! Family "ranksel": every rank / select structure of sux::rank_sel, in every
//! nesting of a compiled menu, driven by an operation script (properties C01,
//! C02 and the ranksel parts of C11, C12, C15).
//!
//! Episode = `vec` (the bit vector: length, runs of ones, tail treatment
//! applied to the real `BitVec` through push/pop/resize/from_raw_parts), then
//! any number of `build` (a stack of layers over a clone of the vector; the
//! structure built last is the structure under test), queries (batched: one
//! event carries a list of arguments and the list of results), `mem_size`,
//! `reload` (serialize with ε-serde, load back, query the loaded instance).
//!
//! The executor never judges: which traits a stack implements is decided by
//! the Rust compiler (autoref probes below: an operation the type does not
//! implement is logged as `out:"na"`), every result is logged verbatim.
//!
//! Numbers: arguments below zero stand for huge values (-1 = usize::MAX,
//! -2 = 2^63, -3 = 2^32); `None` results of batched selects are logged as -1.

use crate::util::*;
use crate::{guard, Ctx};
use epserde::prelude::*;
use mem_dbg::{MemSize, SizeFlags};
use serde_json::{json, Value};
use std::mem::ManuallyDrop;
use std::ops::Index;
use sux::prelude::*;

// ---------------------------------------------------------------------------
// compile-time capability probes (autoref specialisation): `(&P(x)).p_m(..)`
// is Some(result) when the concrete type of `x` implements the trait of `m`,
// None otherwise.
// ---------------------------------------------------------------------------
struct P<'a, T>(&'a T);

macro_rules! probe {
    ($yes:ident, $no:ident, $m:ident ( $($a:ident : $t:ty),* ) -> $r:ty, [$($bound:tt)+], |$s:ident| $body:expr) => {
        trait $yes { fn $m(&self $(, $a: $t)*) -> Option<$r>; }
        impl<'a, T: $($bound)+> $yes for P<'a, T> {
            #[inline]
            fn $m(&self $(, $a: $t)*) -> Option<$r> { let $s = self.0; Some($body) }
        }
        trait $no {
            #[inline]
            fn $m(&self $(, $a: $t)*) -> Option<$r> { $(let _ = $a;)* None }
        }
        impl<'a, T> $no for &P<'a, T> {}
    };
}

probe!(YLen, NLen, p_len() -> usize, [BitLength], |s| BitLength::len(s));
probe!(YIdx, NIdx, p_index(i: usize) -> bool, [Index<usize, Output = bool>], |s| s[i]);
probe!(YCo, NCo, p_count_ones() -> usize, [BitCount], |s| s.count_ones());
probe!(YCz, NCz, p_count_zeros() -> usize, [BitCount], |s| s.count_zeros());
probe!(YNo, NNo, p_num_ones() -> usize, [NumBits], |s| s.num_ones());
probe!(YNz, NNz, p_num_zeros() -> usize, [NumBits], |s| s.num_zeros());
probe!(YRk, NRk, p_rank(p: usize) -> usize, [Rank], |s| s.rank(p));
probe!(YRu, NRu, p_rank_u(p: usize) -> usize, [RankUnchecked], |s| unsafe { s.rank_unchecked(p) });
probe!(YRz, NRz, p_rank_zero(p: usize) -> usize, [RankZero], |s| s.rank_zero(p));
probe!(YRzu, NRzu, p_rank_zero_u(p: usize) -> usize, [RankZero], |s| unsafe { s.rank_zero_unchecked(p) });
probe!(YRh, NRh, p_rank_hinted(p: usize, hp: usize, hr: usize) -> usize, [RankHinted<64>],
       |s| unsafe { RankHinted::<64>::rank_hinted(s, p, hp, hr) });
probe!(YSe, NSe, p_select(r: usize) -> Option<usize>, [Select], |s| s.select(r));
probe!(YSu, NSu, p_select_u(r: usize) -> usize, [SelectUnchecked], |s| unsafe { s.select_unchecked(r) });
probe!(YSz, NSz, p_select_zero(r: usize) -> Option<usize>, [SelectZero], |s| s.select_zero(r));
probe!(YSzu, NSzu, p_select_zero_u(r: usize) -> usize, [SelectZeroUnchecked], |s| unsafe { s.select_zero_unchecked(r) });
probe!(YSh, NSh, p_select_hinted(r: usize, hp: usize, hr: usize) -> usize, [SelectHinted],
       |s| unsafe { s.select_hinted(r, hp, hr) });
probe!(YSzh, NSzh, p_select_zero_hinted(r: usize, hp: usize, hr: usize) -> usize, [SelectZeroHinted],
       |s| unsafe { s.select_zero_hinted(r, hp, hr) });
probe!(YMs, NMs, p_mem_size() -> usize, [MemSize], |s| s.mem_size(SizeFlags::default()));

/// The structure under test, whatever its type.
pub(crate) trait Dyn {
    fn len(&self) -> Option<usize>;
    fn index(&self, i: usize) -> Option<bool>;
    fn count_ones(&self) -> Option<usize>;
    fn count_zeros(&self) -> Option<usize>;
    fn num_ones(&self) -> Option<usize>;
    fn num_zeros(&self) -> Option<usize>;
    fn rank(&self, p: usize) -> Option<usize>;
    fn rank_u(&self, p: usize) -> Option<usize>;
    fn rank_zero(&self, p: usize) -> Option<usize>;
    fn rank_zero_u(&self, p: usize) -> Option<usize>;
    fn rank_hinted(&self, p: usize, hp: usize, hr: usize) -> Option<usize>;
    fn select(&self, r: usize) -> Option<Option<usize>>;
    fn select_u(&self, r: usize) -> Option<usize>;
    fn select_zero(&self, r: usize) -> Option<Option<usize>>;
    fn select_zero_u(&self, r: usize) -> Option<usize>;
    fn select_hinted(&self, r: usize, hp: usize, hr: usize) -> Option<usize>;
    fn select_zero_hinted(&self, r: usize, hp: usize, hr: usize) -> Option<usize>;
    fn mem_size(&self) -> Option<usize>;
    /// serialize + load back; Ok(None): not applicable to this instance
    fn reload(&self, mode: &str) -> Result<Option<Box<dyn Dyn>>, String>;
}

macro_rules! dyn_queries {
    (|$me:ident| $acc:expr) => {
        fn len(&self) -> Option<usize> { let $me = self; (&P($acc)).p_len() }
        fn index(&self, i: usize) -> Option<bool> { let $me = self; (&P($acc)).p_index(i) }
        fn count_ones(&self) -> Option<usize> { let $me = self; (&P($acc)).p_count_ones() }
        fn count_zeros(&self) -> Option<usize> { let $me = self; (&P($acc)).p_count_zeros() }
        fn num_ones(&self) -> Option<usize> { let $me = self; (&P($acc)).p_num_ones() }
        fn num_zeros(&self) -> Option<usize> { let $me = self; (&P($acc)).p_num_zeros() }
        fn rank(&self, p: usize) -> Option<usize> { let $me = self; (&P($acc)).p_rank(p) }
        fn rank_u(&self, p: usize) -> Option<usize> { let $me = self; (&P($acc)).p_rank_u(p) }
        fn rank_zero(&self, p: usize) -> Option<usize> { let $me = self; (&P($acc)).p_rank_zero(p) }
        fn rank_zero_u(&self, p: usize) -> Option<usize> { let $me = self; (&P($acc)).p_rank_zero_u(p) }
        fn rank_hinted(&self, p: usize, hp: usize, hr: usize) -> Option<usize> {
            let $me = self; (&P($acc)).p_rank_hinted(p, hp, hr)
        }
        fn select(&self, r: usize) -> Option<Option<usize>> { let $me = self; (&P($acc)).p_select(r) }
        fn select_u(&self, r: usize) -> Option<usize> { let $me = self; (&P($acc)).p_select_u(r) }
        fn select_zero(&self, r: usize) -> Option<Option<usize>> { let $me = self; (&P($acc)).p_select_zero(r) }
        fn select_zero_u(&self, r: usize) -> Option<usize> { let $me = self; (&P($acc)).p_select_zero_u(r) }
        fn select_hinted(&self, r: usize, hp: usize, hr: usize) -> Option<usize> {
            let $me = self; (&P($acc)).p_select_hinted(r, hp, hr)
        }
        fn select_zero_hinted(&self, r: usize, hp: usize, hr: usize) -> Option<usize> {
            let $me = self; (&P($acc)).p_select_zero_hinted(r, hp, hr)
        }
        fn mem_size(&self) -> Option<usize> { let $me = self; (&P($acc)).p_mem_size() }
    };
}

/// An instance built by a constructor or loaded by `deserialize_full`.
struct Own<T>(T);
/// An instance ε-copy deserialized from an aligned byte buffer kept alive here.
struct Eps<T: DeserializeInner + 'static> {
    obj: ManuallyDrop<DeserType<'static, T>>,
    buf: ManuallyDrop<Box<AlignedCursor>>,
}
impl<T: DeserializeInner + 'static> Drop for Eps<T> {
    fn drop(&mut self) {
        unsafe {
            ManuallyDrop::drop(&mut self.obj);
            ManuallyDrop::drop(&mut self.buf);
        }
    }
}
/// An instance ε-copy deserialized from a memory-mapped file.
struct Mm<T: DeserializeInner + 'static>(MemCase<DeserType<'static, T>>);

static FILE_SEQ: std::sync::atomic::AtomicUsize = std::sync::atomic::AtomicUsize::new(0);

fn reload_own<T>(x: &T, mode: &str) -> Result<Option<Box<dyn Dyn>>, String>
where
    T: Serialize + Deserialize + 'static,
    Own<T>: Dyn,
    Eps<T>: Dyn,
    Mm<T>: Dyn,
{
    match mode {
        "full" => {
            let mut buf: Vec<u8> = Vec::new();
            x.serialize(&mut buf).map_err(|e| format!("serialize: {e}"))?;
            let mut cur = std::io::Cursor::new(buf);
            let y = T::deserialize_full(&mut cur).map_err(|e| format!("deserialize_full: {e}"))?;
            Ok(Some(Box::new(Own(y))))
        }
        "eps" => {
            let mut cur: Box<AlignedCursor> = Box::new(AlignedCursor::new());
            x.serialize(&mut *cur).map_err(|e| format!("serialize: {e}"))?;
            // the buffer lives on the heap for as long as the Eps value
            let bytes: &'static [u8] = unsafe { std::mem::transmute::<&[u8], &'static [u8]>(cur.as_bytes()) };
            let y = T::deserialize_eps(bytes).map_err(|e| format!("deserialize_eps: {e}"))?;
            Ok(Some(Box::new(Eps::<T> { obj: ManuallyDrop::new(y), buf: ManuallyDrop::new(cur) })))
        }
        "eps8" => {
            // the same bytes placed at 8 modulo 16 (a legitimate buffer for ε-serde; leaked)
            let mut bytes: Vec<u8> = Vec::new();
            x.serialize(&mut bytes).map_err(|e| format!("serialize: {e}"))?;
            let st = crate::util::leak_aligned(&bytes, true);
            let y = T::deserialize_eps(st).map_err(|e| format!("deserialize_eps: {e}"))?;
            Ok(Some(Box::new(Eps::<T> { obj: ManuallyDrop::new(y), buf: ManuallyDrop::new(Box::new(AlignedCursor::new())) })))
        }
        "mmap" => {
            let dir = std::env::temp_dir();
            let path = dir.join(format!(
                "sux-verif-{}-{}.eps",
                std::process::id(),
                FILE_SEQ.fetch_add(1, std::sync::atomic::Ordering::SeqCst)
            ));
            x.store(&path).map_err(|e| format!("store: {e}"))?;
            let y = T::mmap(&path, Flags::empty()).map_err(|e| format!("mmap: {e}"));
            let _ = std::fs::remove_file(&path);
            Ok(Some(Box::new(Mm::<T>(y?))))
        }
        _ => Err(format!("bad reload mode {mode}")),
    }
}

macro_rules! stack_types {
    ($($t:ty),* $(,)?) => { $(
        impl Dyn for Own<$t> {
            dyn_queries!(|me| &me.0);
            fn reload(&self, mode: &str) -> Result<Option<Box<dyn Dyn>>, String> { reload_own::<$t>(&self.0, mode) }
        }
        impl Dyn for Eps<$t> {
            dyn_queries!(|me| &*me.obj);
            fn reload(&self, _mode: &str) -> Result<Option<Box<dyn Dyn>>, String> { Ok(None) }
        }
        impl Dyn for Mm<$t> {
            dyn_queries!(|me| &*me.0);
            fn reload(&self, _mode: &str) -> Result<Option<Box<dyn Dyn>>, String> { Ok(None) }
        }
    )* };
}

// ---------------------------------------------------------------------------
// the compiled menu of stacks
// ---------------------------------------------------------------------------
type BV = BitVec<Vec<usize>>;
type ANB<X> = AddNumBits<X>;
type R9<X> = Rank9<X>;
type RS0<X> = RankSmall<2, 9, X>;
type RS1<X> = RankSmall<1, 9, X>;
type RS2<X> = RankSmall<1, 10, X>;
type RS3<X> = RankSmall<1, 11, X>;
type RS4<X> = RankSmall<3, 13, X>;
type S9<X> = Select9<Rank9<X>>;
type SA<X> = SelectAdapt<X>;
type SZA<X> = SelectZeroAdapt<X>;
type SAC<X, const L: usize, const M: usize> = SelectAdaptConst<X, Box<[usize]>, L, M>;
type SZAC<X, const L: usize, const M: usize> = SelectZeroAdaptConst<X, Box<[usize]>, L, M>;
type SS0<X> = SelectSmall<2, 9, X>;
type SS1<X> = SelectSmall<1, 9, X>;
type SS2<X> = SelectSmall<1, 10, X>;
type SS3<X> = SelectSmall<1, 11, X>;
type SS4<X> = SelectSmall<3, 13, X>;
type SZS0<X> = SelectZeroSmall<2, 9, X>;
type SZS1<X> = SelectZeroSmall<1, 9, X>;
type SZS2<X> = SelectZeroSmall<1, 10, X>;
type SZS3<X> = SelectZeroSmall<1, 11, X>;
type SZS4<X> = SelectZeroSmall<3, 13, X>;

stack_types!(
    BV, ANB<BV>,
    R9<BV>, RS0<BV>, RS1<BV>, RS2<BV>, RS3<BV>, RS4<BV>,
    R9<ANB<BV>>, RS2<ANB<BV>>, ANB<R9<BV>>, ANB<RS1<BV>>,
    SA<BV>, SZA<BV>, SA<ANB<BV>>, SZA<ANB<BV>>, SZA<SA<ANB<BV>>>, SA<SZA<ANB<BV>>>,
    SA<R9<BV>>, SZA<R9<BV>>, SZA<SA<R9<BV>>>, SA<SZA<R9<BV>>>,
    S9<BV>, SZA<S9<BV>>, SZAC<S9<BV>, 12, 3>, S9<ANB<BV>>,
    SA<RS0<BV>>, SZA<SA<RS1<BV>>>, SZA<RS2<BV>>, SA<RS3<BV>>, SA<SZA<RS4<BV>>>,
    R9<SA<ANB<BV>>>, RS3<SZA<SA<ANB<BV>>>>, RS0<SZA<ANB<BV>>>, S9<SA<ANB<BV>>>,
    SA<R9<ANB<BV>>>, SZA<RS1<ANB<BV>>>,
    SAC<R9<ANB<BV>>, 8, 1>, SAC<R9<ANB<BV>>, 12, 3>,
    SZAC<RS2<ANB<BV>>, 6, 2>, SZAC<RS2<ANB<BV>>, 12, 3>,
    // (the result type of `map` is whatever the library declares: the instantiations in which one or both
    // const parameters are the defaults are accepted too, so that such a declaration still builds and is judged
    // by its answers)
    SAC<R9<ANB<BV>>, 8, 3>, SAC<R9<ANB<BV>>, 12, 1>, SZAC<RS2<ANB<BV>>, 6, 3>, SZAC<RS2<ANB<BV>>, 12, 2>,
    SAC<ANB<BV>, 12, 3>, SAC<ANB<BV>, 13, 0>, SAC<ANB<BV>, 10, 4>, SAC<ANB<BV>, 8, 1>,
    SAC<ANB<BV>, 6, 2>, SAC<ANB<BV>, 3, 0>, SAC<ANB<BV>, 1, 1>, SAC<ANB<BV>, 0, 0>,
    SZAC<ANB<BV>, 12, 3>, SZAC<ANB<BV>, 13, 0>, SZAC<ANB<BV>, 8, 1>,
    SZAC<ANB<BV>, 6, 2>, SZAC<ANB<BV>, 3, 0>, SZAC<ANB<BV>, 0, 0>,
    SZAC<SAC<R9<BV>, 12, 3>, 12, 3>, SAC<SZAC<R9<BV>, 8, 1>, 8, 1>,
    SS0<RS0<BV>>, SS1<RS1<BV>>, SS2<RS2<BV>>, SS3<RS3<BV>>, SS4<RS4<BV>>,
    SZS0<RS0<BV>>, SZS1<RS1<BV>>, SZS2<RS2<BV>>, SZS3<RS3<BV>>, SZS4<RS4<BV>>,
    SZS0<SS0<RS0<BV>>>, SZS1<SS1<RS1<BV>>>, SZS2<SS2<RS2<BV>>>, SZS3<SS3<RS3<BV>>>, SZS4<SS4<RS4<BV>>>,
    SS0<SZS0<RS0<BV>>>, SS1<SZS1<RS1<BV>>>, SS2<SZS2<RS2<BV>>>, SS3<SZS3<RS3<BV>>>, SS4<SZS4<RS4<BV>>>,
    SS1<RS1<ANB<BV>>>, SZA<SS2<RS2<BV>>>,
);

fn own<T>(t: T) -> Box<dyn Dyn>
where
    Own<T>: Dyn + 'static,
{
    Box::new(Own(t))
}

fn pu(l: &Value, k: &str) -> usize {
    l[k].as_u64().unwrap_or_else(|| panic!("layer parameter {k} missing in {l}")) as usize
}

fn sa<B: AsRef<[usize]> + BitCount>(b: B, l: &Value) -> SelectAdapt<B> {
    match l["m"].as_str().unwrap_or("new") {
        "new" => SelectAdapt::new(b, pu(l, "b")),
        "span" => SelectAdapt::with_span(b, pu(l, "a"), pu(l, "b")),
        "inv" => SelectAdapt::with_inv(b, pu(l, "a"), pu(l, "b")),
        m => panic!("sa: bad mode {m}"),
    }
}

fn sza<B: AsRef<[usize]> + BitCount>(b: B, l: &Value) -> SelectZeroAdapt<B> {
    match l["m"].as_str().unwrap_or("new") {
        "new" => SelectZeroAdapt::new(b, pu(l, "b")),
        "span" => SelectZeroAdapt::with_span(b, pu(l, "a"), pu(l, "b")),
        "inv" => SelectZeroAdapt::with_inv(b, pu(l, "a"), pu(l, "b")),
        m => panic!("sza: bad mode {m}"),
    }
}

macro_rules! small_ctors {
    ($ss:ident, $szs:ident, $n:literal, $w:literal) => {
        fn $ss<C: SmallCounters<$n, $w> + AsRef<[usize]> + BitLength + NumBits + SelectHinted>(
            c: C,
            l: &Value,
        ) -> SelectSmall<$n, $w, C> {
            match l["m"].as_str().unwrap_or("new") {
                "new" => SelectSmall::<$n, $w, C>::new(c),
                _ => SelectSmall::<$n, $w, C>::with_inv(c, pu(l, "a")),
            }
        }
        fn $szs<C: SmallCounters<$n, $w> + AsRef<[usize]> + BitLength + NumBits + SelectZeroHinted>(
            c: C,
            l: &Value,
        ) -> SelectZeroSmall<$n, $w, C> {
            match l["m"].as_str().unwrap_or("new") {
                "new" => SelectZeroSmall::<$n, $w, C>::new(c),
                _ => SelectZeroSmall::<$n, $w, C>::with_inv(c, pu(l, "a")),
            }
        }
    };
}
small_ctors!(ss0, szs0, 2, 9);
small_ctors!(ss1, szs1, 1, 9);
small_ctors!(ss2, szs2, 1, 10);
small_ctors!(ss3, szs3, 1, 11);
small_ctors!(ss4, szs4, 3, 13);

fn rs0<B: AsRef<[usize]> + BitLength + RankHinted<64>>(b: B) -> RS0<B> { sux::rank_small![0; b] }
fn rs1<B: AsRef<[usize]> + BitLength + RankHinted<64>>(b: B) -> RS1<B> { sux::rank_small![1; b] }
fn rs2<B: AsRef<[usize]> + BitLength + RankHinted<64>>(b: B) -> RS2<B> { sux::rank_small![2; b] }
fn rs3<B: AsRef<[usize]> + BitLength + RankHinted<64>>(b: B) -> RS3<B> { sux::rank_small![3; b] }
fn rs4<B: AsRef<[usize]> + BitLength + RankHinted<64>>(b: B) -> RS4<B> { sux::rank_small![4; b] }
fn anb<B: BitCount>(b: B) -> ANB<B> { b.into() }
fn r9<B: AsRef<[usize]> + BitLength>(b: B) -> R9<B> { Rank9::new(b) }

/// Builds the stack named by the layer names (bottom-up) over `bv`.
pub(crate) fn build(key: &str, l: &[Value], bv: BV) -> Box<dyn Dyn> {
    match key {
        "" => own(bv),
        "anb" => own(anb(bv)),
        "r9" => own(r9(bv)),
        "rs0" => own(rs0(bv)),
        "rs1" => own(rs1(bv)),
        "rs2" => own(rs2(bv)),
        "rs3" => own(rs3(bv)),
        "rs4" => own(rs4(bv)),
        "anb/r9" => own(r9(anb(bv))),
        "anb/rs2" => own(rs2(anb(bv))),
        "r9/anb" => own(anb(r9(bv))),
        "rs1/anb" => own(anb(rs1(bv))),
        "sa" => own(sa(bv, &l[0])),
        "sza" => own(sza(bv, &l[0])),
        "anb/sa" => own(sa(anb(bv), &l[1])),
        "anb/sza" => own(sza(anb(bv), &l[1])),
        "anb/sa/sza" => own(sza(sa(anb(bv), &l[1]), &l[2])),
        "anb/sza/sa" => own(sa(sza(anb(bv), &l[1]), &l[2])),
        "r9/sa" => own(sa(r9(bv), &l[1])),
        "r9/sza" => own(sza(r9(bv), &l[1])),
        "r9/sa/sza" => own(sza(sa(r9(bv), &l[1]), &l[2])),
        "r9/sza/sa" => own(sa(sza(r9(bv), &l[1]), &l[2])),
        "r9/s9" => own(Select9::new(r9(bv))),
        "r9/s9/sza" => own(sza(Select9::new(r9(bv)), &l[2])),
        "r9/s9/szac12_3" => own(SZAC::<_, 12, 3>::new(Select9::new(r9(bv)))),
        "anb/r9/s9" => own(Select9::new(r9(anb(bv)))),
        "rs0/sa" => own(sa(rs0(bv), &l[1])),
        "rs1/sa/sza" => own(sza(sa(rs1(bv), &l[1]), &l[2])),
        "rs2/sza" => own(sza(rs2(bv), &l[1])),
        "rs3/sa" => own(sa(rs3(bv), &l[1])),
        "rs4/sza/sa" => own(sa(sza(rs4(bv), &l[1]), &l[2])),
        // rank structures outside selection structures
        "anb/sa/r9" => own(r9(sa(anb(bv), &l[1]))),
        "anb/sa/sza/rs3" => own(rs3(sza(sa(anb(bv), &l[1]), &l[2]))),
        "anb/sza/rs0" => own(rs0(sza(anb(bv), &l[1]))),
        "anb/sa/r9/s9" => own(Select9::new(r9(sa(anb(bv), &l[1])))),
        // direct construction and construction through map()
        "anb/r9/sa" => own(sa(r9(anb(bv)), &l[2])),
        "anb/sa/map:r9" => own(unsafe { sa(anb(bv), &l[1]).map(Rank9::new) }),
        "anb/sza/map:rs1" => own(unsafe { sza(anb(bv), &l[1]).map(rs1) }),
        "r9/map:anb+sa" => own(unsafe { r9(bv).map(|x| sa(anb(x), &l[1]["ins"][1])) }),
        "anb/sac8_1/map:r9" => own(unsafe { SAC::<_, 8, 1>::new(anb(bv)).map(Rank9::new) }),
        "anb/szac6_2/map:rs2" => own(unsafe { SZAC::<_, 6, 2>::new(anb(bv)).map(rs2) }),
        "anb/r9/sac8_1" => own(SAC::<_, 8, 1>::new(r9(anb(bv)))),
        "anb/rs2/szac6_2" => own(SZAC::<_, 6, 2>::new(rs2(anb(bv)))),
        // const-parameter variants
        "anb/sac12_3" => own(SAC::<_, 12, 3>::new(anb(bv))),
        "anb/sac13_0" => own(SAC::<_, 13, 0>::new(anb(bv))),
        "anb/sac10_4" => own(SAC::<_, 10, 4>::new(anb(bv))),
        "anb/sac8_1" => own(SAC::<_, 8, 1>::new(anb(bv))),
        "anb/sac6_2" => own(SAC::<_, 6, 2>::new(anb(bv))),
        "anb/sac3_0" => own(SAC::<_, 3, 0>::new(anb(bv))),
        "anb/sac1_1" => own(SAC::<_, 1, 1>::new(anb(bv))),
        "anb/sac0_0" => own(SAC::<_, 0, 0>::new(anb(bv))),
        "anb/szac12_3" => own(SZAC::<_, 12, 3>::new(anb(bv))),
        "anb/szac13_0" => own(SZAC::<_, 13, 0>::new(anb(bv))),
        "anb/szac8_1" => own(SZAC::<_, 8, 1>::new(anb(bv))),
        "anb/szac6_2" => own(SZAC::<_, 6, 2>::new(anb(bv))),
        "anb/szac3_0" => own(SZAC::<_, 3, 0>::new(anb(bv))),
        "anb/szac0_0" => own(SZAC::<_, 0, 0>::new(anb(bv))),
        "r9/sac12_3/szac12_3" => own(SZAC::<_, 12, 3>::new(SAC::<_, 12, 3>::new(r9(bv)))),
        "r9/szac8_1/sac8_1" => own(SAC::<_, 8, 1>::new(SZAC::<_, 8, 1>::new(r9(bv)))),
        // RankSmall-based selection
        "rs0/ss0" => own(ss0(rs0(bv), &l[1])),
        "rs1/ss1" => own(ss1(rs1(bv), &l[1])),
        "rs2/ss2" => own(ss2(rs2(bv), &l[1])),
        "rs3/ss3" => own(ss3(rs3(bv), &l[1])),
        "rs4/ss4" => own(ss4(rs4(bv), &l[1])),
        "rs0/szs0" => own(szs0(rs0(bv), &l[1])),
        "rs1/szs1" => own(szs1(rs1(bv), &l[1])),
        "rs2/szs2" => own(szs2(rs2(bv), &l[1])),
        "rs3/szs3" => own(szs3(rs3(bv), &l[1])),
        "rs4/szs4" => own(szs4(rs4(bv), &l[1])),
        "rs0/ss0/szs0" => own(szs0(ss0(rs0(bv), &l[1]), &l[2])),
        "rs1/ss1/szs1" => own(szs1(ss1(rs1(bv), &l[1]), &l[2])),
        "rs2/ss2/szs2" => own(szs2(ss2(rs2(bv), &l[1]), &l[2])),
        "rs3/ss3/szs3" => own(szs3(ss3(rs3(bv), &l[1]), &l[2])),
        "rs4/ss4/szs4" => own(szs4(ss4(rs4(bv), &l[1]), &l[2])),
        "rs0/szs0/ss0" => own(ss0(szs0(rs0(bv), &l[1]), &l[2])),
        "rs1/szs1/ss1" => own(ss1(szs1(rs1(bv), &l[1]), &l[2])),
        "rs2/szs2/ss2" => own(ss2(szs2(rs2(bv), &l[1]), &l[2])),
        "rs3/szs3/ss3" => own(ss3(szs3(rs3(bv), &l[1]), &l[2])),
        "rs4/szs4/ss4" => own(ss4(szs4(rs4(bv), &l[1]), &l[2])),
        "anb/rs1/ss1" => own(ss1(rs1(anb(bv)), &l[2])),
        "rs2/ss2/sza" => own(sza(ss2(rs2(bv), &l[1]), &l[2])),
        _ => {
            eprintln!("ranksel: stack {key} is not in the compiled menu");
            std::process::exit(2);
        }
    }
}

// ---------------------------------------------------------------------------
// the bit vector of an episode
// ---------------------------------------------------------------------------
fn garbage_bit(g: &str, seed: u64, pos: usize) -> bool {
    match g {
        "ones" => true,
        "zeros" => false,
        "alt" => pos % 2 == 0,
        _ => {
            // "rnd": a fixed mixing function of (seed, pos)
            let mut x = (pos as u64).wrapping_add(seed).wrapping_mul(0x9E3779B97F4A7C15);
            x ^= x >> 29;
            x = x.wrapping_mul(0xBF58476D1CE4E5B9);
            x ^= x >> 32;
            x & 1 == 1
        }
    }
}

fn set_range(words: &mut [usize], s: usize, e: usize) {
    // sets bits [s, e)
    let mut p = s;
    while p < e {
        let w = p / 64;
        let b = p % 64;
        let n = (64 - b).min(e - p);
        let mask = if n == 64 { usize::MAX } else { ((1usize << n) - 1) << b };
        words[w] |= mask;
        p += n;
    }
}

fn make_vec(op: &Value) -> BV {
    let len = get_usize(op, "len");
    let s: Vec<usize> = op["s"].as_array().unwrap().iter().map(|x| x.as_u64().unwrap() as usize).collect();
    let e: Vec<usize> = op["e"].as_array().unwrap().iter().map(|x| x.as_u64().unwrap() as usize).collect();
    let tail = &op["tail"];
    let t = tail["t"].as_str().unwrap_or("clean");
    let k = tail["k"].as_u64().unwrap_or(0) as usize;
    let g = tail["g"].as_str().unwrap_or("ones");
    let seed = tail["seed"].as_u64().unwrap_or(0);
    match t {
        "clean" | "pop" | "trunc" => {
            let longer = if t == "clean" { len } else { len + k };
            let mut b = BitVec::new(longer);
            {
                let w: &mut [usize] = b.as_mut();
                for (a, z) in s.iter().zip(e.iter()) {
                    set_range(w, *a, *z);
                }
            }
            for p in len..longer {
                b.set(p, garbage_bit(g, seed, p));
            }
            if t == "pop" {
                for _ in 0..k {
                    b.pop();
                }
            } else if t == "trunc" {
                b.resize(len, false);
            }
            b
        }
        "raw" | "extra" => {
            let nw = len.div_ceil(64) + if t == "extra" { k } else { 0 };
            let mut w = vec![0usize; nw];
            for (a, z) in s.iter().zip(e.iter()) {
                set_range(&mut w, *a, *z);
            }
            for p in len..nw * 64 {
                if garbage_bit(g, seed, p) {
                    w[p / 64] |= 1usize << (p % 64);
                }
            }
            unsafe { BitVec::from_raw_parts(w, len) }
        }
        "regrow" | "regrow_push" => {
            // the vector is first longer and full of garbage, is shrunk to len - k
            // (stale bits stay in the backend) and then grown back to len, by
            // resize + set or bit by bit with push: its contents are the recipe's
            let m = len.saturating_sub(k);
            let bit_at = |p: usize| s.iter().zip(e.iter()).any(|(a, z)| *a <= p && p < *z);
            let mut b = BitVec::new(len + k);
            {
                let w: &mut [usize] = b.as_mut();
                for (a, z) in s.iter().zip(e.iter()) {
                    set_range(w, *a, (*z).min(m));
                }
            }
            for p in m..len + k {
                b.set(p, garbage_bit(g, seed, p));
            }
            b.resize(m, false);
            if t == "regrow" {
                b.resize(len, false);
                for p in m..len {
                    if bit_at(p) {
                        b.set(p, true);
                    }
                }
            } else {
                for p in m..len {
                    b.push(bit_at(p));
                }
            }
            b
        }
        "push" => {
            // grown bit by bit (capacity and contents decided by push)
            let mut b = BitVec::with_capacity(k);
            let mut r = 0;
            for p in 0..len {
                while r < s.len() && e[r] <= p {
                    r += 1;
                }
                b.push(r < s.len() && s[r] <= p);
            }
            b
        }
        _ => {
            eprintln!("ranksel: bad tail treatment {t}");
            std::process::exit(2);
        }
    }
}

/// Word-level prefix counts of the base vector, used only to supply *valid
/// hints* to the hinted operations (the trace specification re-checks that
/// every hint is valid before it looks at the answer).
struct Hints {
    ones_before_word: Vec<usize>,
}

impl Hints {
    fn new(b: &BV) -> Self {
        let w: &[usize] = b.as_ref();
        let mut v = Vec::with_capacity(w.len() + 1);
        let mut c = 0usize;
        v.push(0);
        for x in w {
            c += x.count_ones() as usize;
            v.push(c);
        }
        Hints { ones_before_word: v }
    }
    /// position of the one (zero) of rank r, scanning the raw words
    fn pos_of(&self, b: &BV, r: usize, zero: bool) -> usize {
        let w: &[usize] = b.as_ref();
        let cnt = |k: usize| if zero { k * 64 - self.ones_before_word[k] } else { self.ones_before_word[k] };
        let (mut lo, mut hi) = (0usize, w.len());
        // largest k with cnt(k) <= r
        while lo < hi {
            let mid = (lo + hi + 1) / 2;
            if cnt(mid) <= r { lo = mid } else { hi = mid - 1 }
        }
        if lo >= w.len() {
            return w.len() * 64;
        }
        let mut word = if zero { !w[lo] } else { w[lo] };
        let mut rem = r - cnt(lo);
        while rem > 0 && word != 0 {
            word &= word - 1;
            rem -= 1;
        }
        if word == 0 { w.len() * 64 } else { lo * 64 + word.trailing_zeros() as usize }
    }
}

fn arg(v: &Value) -> usize {
    match v.as_i64() {
        Some(-1) => usize::MAX,
        Some(-2) => 1usize << 63,
        Some(-3) => 1usize << 32,
        Some(x) if x >= 0 => x as usize,
        _ => v.as_u64().unwrap_or_else(|| panic!("bad argument {v}")) as usize,
    }
}

fn args(op: &Value, k: &str) -> Vec<usize> {
    op[k].as_array().unwrap_or_else(|| panic!("script field {k} missing in {op}")).iter().map(arg).collect()
}

fn optpos(o: Option<usize>) -> Value {
    match o {
        None => json!(-1),
        Some(x) => json!(x),
    }
}

enum Q {
    Na,
    Ret(Value),
    Panic(String),
}

/// Applies `f` to every argument; the first `None` means the operation does
/// not exist on this type, a panic is reported with the index it happened at.
fn batch<A: Copy>(xs: &[A], f: impl Fn(A) -> Option<Value>) -> Q {
    let mut out = Vec::with_capacity(xs.len());
    for (k, x) in xs.iter().enumerate() {
        match guard(|| f(*x)) {
            Ok(None) => return Q::Na,
            Ok(Some(v)) => out.push(v),
            Err(m) => return Q::Panic(format!("at {k}: {m}")),
        }
    }
    Q::Ret(json!({ "res": out }))
}

fn scalar(r: Result<Option<usize>, String>) -> Q {
    match r {
        Ok(None) => Q::Na,
        Ok(Some(v)) => Q::Ret(json!({ "res": v })),
        Err(m) => Q::Panic(m),
    }
}

pub fn run(ep: &Value, ctx: &mut Ctx) {
    let hdr = json!({"op": "BEGIN", "fam": "ranksel", "src": ep.get("src").cloned().unwrap_or(json!("?"))});
    ctx.begin(&hdr);
    ctx.emit(&hdr, "ret", json!({}));
    let mut base: Option<BV> = None;
    let mut hints: Option<Hints> = None;
    let mut cur: Option<Box<dyn Dyn>> = None;
    for op in ep["ops"].as_array().unwrap() {
        ctx.begin(op);
        let name = op["op"].as_str().unwrap();
        if name != "vec" && base.is_none() {
            eprintln!("ranksel: {name} before vec");
            std::process::exit(2);
        }
        if !matches!(name, "vec" | "build") && cur.is_none() {
            // the constructor did not return: there is nothing to query
            ctx.emit(op, "na", json!({"nobuild": true}));
            continue;
        }
        let q: Q = match name {
            "vec" => {
                cur = None;
                hints = None;
                match guard(|| make_vec(op)) {
                    Ok(b) => {
                        let w: &[usize] = b.as_ref();
                        let len = b.len();
                        let mut dirty = 0usize;
                        for (k, x) in w.iter().enumerate() {
                            if (k + 1) * 64 <= len {
                                continue;
                            }
                            let lo = if k * 64 >= len { 0 } else { len - k * 64 };
                            dirty += (x >> lo).count_ones() as usize;
                        }
                        let r = json!({"vlen": len, "nw": w.len(), "dirty": dirty});
                        base = Some(b);
                        Q::Ret(r)
                    }
                    Err(m) => Q::Panic(m),
                }
            }
            "build" => {
                let layers: Vec<Value> = op["kind"].as_array().unwrap().clone();
                let key: Vec<&str> = layers.iter().map(|l| l["l"].as_str().unwrap()).collect();
                let key = key.join("/");
                let bv = base.as_ref().unwrap().clone();
                cur = None;
                match guard(|| build(&key, &layers, bv)) {
                    Ok(d) => {
                        cur = Some(d);
                        Q::Ret(json!({}))
                    }
                    Err(m) => Q::Panic(m),
                }
            }
            _ => {
                let d: &dyn Dyn = cur.as_ref().unwrap().as_ref();
                let b = base.as_ref().unwrap();
                match name {
                    "len" => scalar(guard(|| d.len())),
                    "num_ones" => scalar(guard(|| d.num_ones())),
                    "num_zeros" => scalar(guard(|| d.num_zeros())),
                    "count_ones" => scalar(guard(|| d.count_ones())),
                    "count_zeros" => scalar(guard(|| d.count_zeros())),
                    "rank" => batch(&args(op, "ps"), |p| d.rank(p).map(|x| json!(x))),
                    "rank_zero" => batch(&args(op, "ps"), |p| d.rank_zero(p).map(|x| json!(x))),
                    "rank_u" => batch(&args(op, "ps"), |p| d.rank_u(p).map(|x| json!(x))),
                    "rank_zero_u" => batch(&args(op, "ps"), |p| d.rank_zero_u(p).map(|x| json!(x))),
                    "index" => batch(&args(op, "ps"), |p| d.index(p).map(|x| json!(x))),
                    "select" => batch(&args(op, "rs"), |r| d.select(r).map(optpos)),
                    "select_zero" => batch(&args(op, "rs"), |r| d.select_zero(r).map(optpos)),
                    "select_u" => batch(&args(op, "rs"), |r| d.select_u(r).map(|x| json!(x))),
                    "select_zero_u" => batch(&args(op, "rs"), |r| d.select_zero_u(r).map(|x| json!(x))),
                    "rank_hinted" => {
                        // hs: hint positions in words; the hint rank is read off the raw words
                        let ps = args(op, "ps");
                        let hs = args(op, "hs");
                        let h = hints.get_or_insert_with(|| Hints::new(b));
                        let hr: Vec<usize> = hs.iter().map(|&k| h.ones_before_word[k]).collect();
                        let idx: Vec<usize> = (0..ps.len()).collect();
                        match batch(&idx, |k| d.rank_hinted(ps[k], hs[k], hr[k]).map(|x| json!(x))) {
                            Q::Ret(mut v) => {
                                v["hr"] = json!(hr);
                                Q::Ret(v)
                            }
                            o => o,
                        }
                    }
                    "select_hinted" | "select_zero_hinted" => {
                        // hrs: ranks of the hinted ones (zeros); their positions are read off the raw words
                        let zero = name == "select_zero_hinted";
                        let rs = args(op, "rs");
                        let hrs = args(op, "hrs");
                        let h = hints.get_or_insert_with(|| Hints::new(b));
                        let hp: Vec<usize> = hrs.iter().map(|&r| h.pos_of(b, r, zero)).collect();
                        let idx: Vec<usize> = (0..rs.len()).collect();
                        let q = if zero {
                            batch(&idx, |k| d.select_zero_hinted(rs[k], hp[k], hrs[k]).map(|x| json!(x)))
                        } else {
                            batch(&idx, |k| d.select_hinted(rs[k], hp[k], hrs[k]).map(|x| json!(x)))
                        };
                        match q {
                            Q::Ret(mut v) => {
                                v["hp"] = json!(hp);
                                Q::Ret(v)
                            }
                            o => o,
                        }
                    }
                    "mem_size" => match guard(|| d.mem_size()) {
                        Ok(None) => Q::Na,
                        Ok(Some(t)) => {
                            let inner = b.clone().mem_size(SizeFlags::default());
                            Q::Ret(json!({"res": t, "inner": inner}))
                        }
                        Err(m) => Q::Panic(m),
                    },
                    "reload" => {
                        let mode = op["mode"].as_str().unwrap();
                        match guard(|| d.reload(mode)) {
                            Ok(Ok(None)) => Q::Na,
                            Ok(Ok(Some(n))) => {
                                cur = Some(n);
                                Q::Ret(json!({}))
                            }
                            Ok(Err(m)) => Q::Panic(format!("error: {m}")),
                            Err(m) => Q::Panic(m),
                        }
                    }
                    _ => {
                        eprintln!("ranksel: unknown op {name}");
                        std::process::exit(2);
                    }
                }
            }
        };
        match q {
            Q::Ret(f) => ctx.emit(op, "ret", f),
            Q::Na => ctx.emit(op, "na", json!({})),
            Q::Panic(m) => ctx.emit(op, "panic", json!({ "msg": m })),
        }
    }
}
