//! Family "rcl": RearCodedListBuilder / RearCodedList driven by an operation
//! script (property C09; rear-coded-list parts of C12 and C15).
//!
//! Strings travel as lists of byte values (TLC has no characters). Every
//! event carries `phase` ("none" | "builder" | "built") and `len` (the
//! builder's or the list's `len()`), iteration events carry the yielded
//! strings plus the `len()` / `size_hint()` values sampled before every call
//! of `next()` (the last one being the call that returned `None`).
//!
//! `reload` serializes the list with ε-serde, loads it back in the requested
//! way and *replaces* the list under test by the loaded instance.

use crate::util::*;
use crate::{guard, Ctx};
use epserde::deser::{Deserialize, Flags, MemCase};
use epserde::ser::Serialize;
use epserde::utils::AlignedCursor;
use lender::{ExactSizeLender, IntoLender, IteratorExt, Lender};
use mem_dbg::{MemSize, SizeFlags};
use serde_json::{json, Value};
use sux::dict::{RearCodedList, RearCodedListBuilder};
use sux::traits::{IndexedDict, IndexedSeq, IntoIteratorFrom};

type Owned = RearCodedList<Box<[u8]>, Box<[usize]>>;
type OwnedVec = RearCodedList<Vec<u8>, Vec<usize>>;
type Borrowed = RearCodedList<&'static [u8], &'static [usize]>;

enum St {
    None,
    Builder(RearCodedListBuilder),
    Owned(Owned),
    /// full deserialization of a file written from a slice-backed instance
    OwnedVec(OwnedVec),
    /// zero-copy deserialization from a (leaked) aligned byte buffer
    Eps(Borrowed),
    /// memory-mapped / memory-loaded instance; the file is kept alive
    Case(MemCase<Borrowed>, Option<tempfile::NamedTempFile>),
}

fn bytes_of(v: &Value) -> Vec<u8> {
    v.as_array()
        .unwrap_or_else(|| panic!("string field is not a list: {v}"))
        .iter()
        .map(|x| x.as_u64().unwrap() as u8)
        .collect()
}

fn string_of(v: &Value) -> String {
    String::from_utf8(bytes_of(v)).expect("script strings must be valid UTF-8")
}

/// No correct answer is longer than the longest string of the script: longer
/// items (a decoder gone wrong can produce megabytes of garbage per item) are
/// logged cut to this many bytes, which still differs from every correct answer.
static ITEM_CAP: std::sync::atomic::AtomicUsize = std::sync::atomic::AtomicUsize::new(usize::MAX);

fn longest_list(v: &Value) -> usize {
    match v {
        Value::Array(a) => {
            if a.iter().all(|x| x.is_number()) {
                a.len()
            } else {
                a.iter().map(longest_list).max().unwrap_or(0)
            }
        }
        Value::Object(o) => o.values().map(longest_list).max().unwrap_or(0),
        _ => 0,
    }
}

fn enc(s: &[u8]) -> Value {
    let cap = ITEM_CAP.load(std::sync::atomic::Ordering::Relaxed);
    let s = if s.len() > cap { &s[..cap] } else { s };
    Value::Array(s.iter().map(|&b| json!(b)).collect())
}

/// Drives an exact-size iterator, recording what it yields and its hints.
macro_rules! drive {
    ($it:expr, $cap:expr, |$x:ident| $bytes:expr) => {{
        let mut it = $it;
        let cap: usize = $cap;
        let mut res: Vec<Value> = Vec::new();
        let mut hints: Vec<Value> = Vec::new();
        let mut lo: Vec<Value> = Vec::new();
        let mut hi: Vec<Value> = Vec::new();
        loop {
            hints.push(json!(it.len()));
            let (a, b) = it.size_hint();
            lo.push(json!(a));
            hi.push(match b {
                Some(x) => json!(x),
                None => json!(-1),
            });
            if res.len() >= cap {
                // a runaway iterator: stop recording (the trace shows too many items)
                break;
            }
            match it.next() {
                Some($x) => res.push(enc($bytes)),
                None => break,
            }
        }
        json!({"res": res, "hints": hints, "lo": lo, "hi": hi})
    }};
}

/// Read-only operations, generic over the backends.
fn query<D: AsRef<[u8]> + Clone, P: AsRef<[usize]> + Clone>(
    rcl: &RearCodedList<D, P>,
    name: &str,
    op: &Value,
) -> Result<Value, String>
where
    RearCodedList<D, P>: MemSize,
{
    // more items than this from one iteration means the iterator does not stop
    let cap = rcl.len().saturating_add(4);
    match name {
        "len" => guard(|| rcl.len()).map(|r| json!({"res": r})),
        "len_trait" => guard(|| IndexedSeq::len(rcl)).map(|r| json!({"res": r})),
        "is_empty" => guard(|| rcl.is_empty()).map(|r| json!({"res": r})),
        "get" => guard(|| rcl.get(get_usize(op, "i"))).map(|r| json!({"res": enc(r.as_bytes())})),
        "get_unchecked" => {
            // documented as unchecked: called only inside its precondition
            let i = get_usize(op, "i");
            if i >= rcl.len() {
                return Err("na".into());
            }
            guard(|| unsafe { rcl.get_unchecked(i) }).map(|r| json!({"res": enc(r.as_bytes())}))
        }
        "get_in_place" => guard(|| {
            // the buffer is handed over dirty: the call must clear it
            let mut buf: Vec<u8> = bytes_of(op.get("dirty").unwrap_or(&json!([])));
            rcl.get_in_place(get_usize(op, "i"), &mut buf);
            buf
        })
        .map(|r| json!({"res": enc(&r)})),
        "iter" => guard(|| drive!(rcl.iter(), cap, |s| s.as_bytes())),
        "into_iter" => guard(|| drive!(rcl.into_iter(), cap, |s| s.as_bytes())),
        "iter_from" => guard(|| drive!(rcl.iter_from(get_usize(op, "j")), cap, |s| s.as_bytes())),
        "into_iter_from" => {
            guard(|| drive!(rcl.into_iter_from(get_usize(op, "j")), cap, |s| s.as_bytes()))
        }
        "lend" => guard(|| drive!(rcl.lend(), cap, |s| s.as_bytes())),
        "into_lender" => guard(|| drive!(rcl.into_lender(), cap, |s| s.as_bytes())),
        // Clone: the copy is iterated (and dropped) here; the list under test stays
        "clone" => guard(|| {
            let c = rcl.clone();
            let r = drive!((&c).into_lender(), cap, |s| s.as_bytes());
            r
        }),
        "lend_from" => guard(|| drive!(rcl.lend_from(get_usize(op, "j")), cap, |s| s.as_bytes())),
        "index_of" => {
            let s = string_of(&op["s"]);
            guard(|| rcl.index_of(s.as_str())).map(|r| json!({"res": opt(r)}))
        }
        "contains" => {
            let s = string_of(&op["s"]);
            guard(|| rcl.contains(s.as_str())).map(|r| json!({"res": r}))
        }
        "mem_size" => guard(|| rcl.mem_size(SizeFlags::default())).map(|r| json!({"res": r})),
        _ => unreachable!(),
    }
}

const OPS: &[&str] = &[
    "new", "push", "extend", "blen", "print_stats", "build", "clone", "reload", "len", "len_trait", "is_empty", "get",
    "get_unchecked", "get_in_place", "iter", "into_iter", "iter_from", "into_iter_from", "lend",
    "into_lender", "lend_from", "index_of", "contains", "mem_size",
];

/// Serializes `rcl` and loads it back in the requested way. `T` is the type
/// named at deserialization time: ε-serde records `Box<[u8]>` and `Vec<u8>`
/// backends under different type hashes, and an instance whose backends are
/// slices (one that was itself loaded without copying) is recorded as the
/// `Vec` form, so the caller names the type that matches the instance.
fn save<S: Serialize, T>(rcl: &S, mode: &str, own: fn(T) -> St) -> Result<St, String>
where
    T: Deserialize + for<'a> epserde::deser::DeserializeInner<DeserType<'a> = RearCodedList<&'a [u8], &'a [usize]>>,
{
    let r: anyhow::Result<St> = (|| {
        Ok(match mode {
            "full" => {
                let mut c = <AlignedCursor>::new();
                rcl.serialize(&mut c)?;
                c.set_position(0);
                own(T::deserialize_full(&mut c)?)
            }
            "eps8" => {
                // the same bytes placed at 8 modulo 16 (a legitimate buffer for ε-serde)
                let mut bytes: Vec<u8> = Vec::new();
                rcl.serialize(&mut bytes)?;
                St::Eps(T::deserialize_eps(crate::util::leak_aligned(&bytes, true))?)
            }
            "eps" => {
                let mut c = <AlignedCursor>::new();
                rcl.serialize(&mut c)?;
                // the loaded instance borrows the buffer: the buffer is leaked
                let c: &'static mut AlignedCursor = Box::leak(Box::new(c));
                let b: &'static [u8] = c.as_bytes();
                St::Eps(T::deserialize_eps(b)?)
            }
            _ => {
                let f = tempfile::NamedTempFile::new()?;
                rcl.store(f.path())?;
                match mode {
                    "mmap" => St::Case(T::mmap(f.path(), Flags::empty())?, Some(f)),
                    "load_mmap" => St::Case(T::load_mmap(f.path(), Flags::empty())?, None),
                    "load_mem" => St::Case(T::load_mem(f.path())?, None),
                    "load_full" => own(T::load_full(f.path())?),
                    m => anyhow::bail!("unknown reload mode {m}"),
                }
            }
        })
    })();
    r.map_err(|e| format!("reload error: {e}"))
}

impl St {
    fn proj(&self) -> Value {
        match self {
            St::None => json!({"phase": "none", "len": 0}),
            St::Builder(b) => json!({"phase": "builder", "len": b.len()}),
            St::Owned(r) => json!({"phase": "built", "len": r.len()}),
            St::OwnedVec(r) => json!({"phase": "built", "len": r.len()}),
            St::Eps(r) => json!({"phase": "built", "len": r.len()}),
            St::Case(r, _) => json!({"phase": "built", "len": r.len()}),
        }
    }
}

fn merge(mut a: Value, b: Value) -> Value {
    if let (Value::Object(x), Value::Object(y)) = (&mut a, b) {
        for (k, v) in y {
            x.insert(k, v);
        }
    }
    a
}

pub fn run(ep: &Value, ctx: &mut Ctx) {
    ITEM_CAP.store(longest_list(&ep["ops"]).saturating_add(9), std::sync::atomic::Ordering::Relaxed);
    let mut st = St::None;
    let hdr = json!({"op": "BEGIN", "fam": "rcl", "src": ep.get("src").cloned().unwrap_or(json!("?"))});
    ctx.begin(&hdr);
    ctx.emit(&hdr, "ret", st.proj());
    for op in ep["ops"].as_array().unwrap() {
        ctx.begin(op);
        let name = op["op"].as_str().unwrap();
        if !OPS.contains(&name) {
            eprintln!("rcl: unknown op {name}");
            std::process::exit(2);
        }
        let r: Result<Value, String> = match name {
            // ------------------------------------------------ builder
            "new" => guard(|| RearCodedListBuilder::new(get_usize(op, "k"))).map(|b| {
                st = St::Builder(b);
                json!({})
            }),
            "push" => match &mut st {
                St::Builder(b) => {
                    let s = string_of(&op["s"]);
                    guard(|| b.push(s.as_str())).map(|_| json!({}))
                }
                _ => Err("na".into()),
            },
            "extend" => match &mut st {
                St::Builder(b) => {
                    let strs: Vec<String> = op["strs"].as_array().unwrap().iter().map(string_of).collect();
                    guard(|| b.extend(strs.iter().map(|s| s.as_str()).into_lender())).map(|_| json!({}))
                }
                _ => Err("na".into()),
            },
            "blen" => match &st {
                St::Builder(b) => guard(|| b.len()).map(|r| json!({"res": r})),
                _ => Err("na".into()),
            },
            // diagnostic output on stdout (captured by the runner, never read)
            "print_stats" => match &st {
                St::Builder(b) => guard(|| b.print_stats()).map(|_| json!({})),
                _ => Err("na".into()),
            },
            "build" => match std::mem::replace(&mut st, St::None) {
                St::Builder(b) => match guard(|| b.build()) {
                    Ok(r) => {
                        st = St::Owned(r);
                        Ok(json!({}))
                    }
                    Err(m) => Err(m),
                },
                other => {
                    st = other;
                    Err("na".into())
                }
            },
            // ------------------------------------------------ list
            "reload" => {
                let mode = op["mode"].as_str().unwrap();
                let loaded = match &st {
                    St::Owned(r) => guard(|| save::<_, Owned>(r, mode, St::Owned)),
                    St::OwnedVec(r) => guard(|| save::<_, OwnedVec>(r, mode, St::OwnedVec)),
                    St::Eps(r) => guard(|| save::<_, OwnedVec>(r, mode, St::OwnedVec)),
                    St::Case(r, _) => guard(|| save::<_, OwnedVec>(&**r, mode, St::OwnedVec)),
                    _ => Err("na".into()),
                };
                match loaded {
                    Ok(Ok(s)) => {
                        st = s;
                        Ok(json!({}))
                    }
                    // an I/O or format error is reported as a result, not as a panic
                    Ok(Err(e)) => Ok(json!({"err": e})),
                    Err(m) => Err(m),
                }
            }
            _ => match &st {
                St::Owned(r) => query(r, name, op),
                St::OwnedVec(r) => query(r, name, op),
                St::Eps(r) => query(r, name, op),
                St::Case(r, _) => query(&**r, name, op),
                _ => Err("na".into()),
            },
        };
        match r {
            Ok(f) => ctx.emit(op, "ret", merge(f, st.proj())),
            Err(m) if m == "na" => ctx.emit(op, "na", st.proj()),
            Err(m) => ctx.emit(op, "panic", merge(json!({"msg": m.chars().take(120).collect::<String>()}), st.proj())),
        }
    }
}
