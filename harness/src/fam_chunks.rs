//! Family "chunks": sux::utils::FairChunks driven by an Elias–Fano cumulative
//! weight function (spec/FairChunks.tla). Episode fields: `wts` (weights),
//! `target`, `kind` ("new": Succ-capable dictionary, "new_with": dictionary
//! with unchecked successor only). Each `next` op logs the returned range.

use crate::{guard, Ctx};
use serde_json::{json, Value};
use sux::dict::EliasFanoBuilder;
use sux::utils::FairChunks;

pub fn run(ep: &Value, ctx: &mut Ctx) {
    let wts: Vec<usize> = ep["wts"]
        .as_array()
        .map(|a| a.iter().map(|x| x.as_u64().unwrap() as usize).collect())
        .unwrap_or_default();
    let target = ep["target"].as_u64().unwrap() as usize;
    let kind = ep.get("kind").and_then(|k| k.as_str()).unwrap_or("new").to_string();
    let hdr = json!({"op": "BEGIN", "fam": "chunks", "src": ep.get("src").cloned().unwrap_or(json!("?")),
                     "wts": wts, "target": target, "kind": kind});
    ctx.begin(&hdr);
    let mut cwf = vec![0usize];
    for w in &wts {
        cwf.push(cwf.last().unwrap() + w);
    }
    let last = *cwf.last().unwrap();
    let n = wts.len();
    let built = guard(|| {
        let mut efb = EliasFanoBuilder::new(cwf.len(), last);
        efb.extend(cwf.iter().copied());
        efb
    });
    let efb = match built {
        Ok(b) => b,
        Err(m) => {
            ctx.emit(&hdr, "panic", json!({"msg": m}));
            return;
        }
    };
    ctx.emit(&hdr, "ret", json!({}));
    let ops = ep["ops"].as_array().unwrap();
    macro_rules! drive {
        ($it:expr) => {{
            let mut it = $it;
            for op in ops {
                ctx.begin(op);
                match guard(|| it.next()) {
                    Ok(None) => ctx.emit(op, "ret", json!({"res": []})),
                    Ok(Some(r)) => ctx.emit(op, "ret", json!({"res": [r.start, r.end]})),
                    Err(m) => ctx.emit(op, "panic", json!({"msg": m})),
                }
            }
        }};
    }
    if kind == "new" {
        let ef = efb.build_with_seq_and_dict();
        drive!(FairChunks::new(target, &ef));
    } else {
        let ef = efb.build_with_dict();
        drive!(FairChunks::new_with(target, &ef, n, last));
    }
}
