//! Script -> trace executor.
//!
//! usage: exec <script.ndjson> <trace.ndjson> [--from E] [--to E] [--only E]
//!
//! A script is NDJSON, one *episode* per line: `{"fam": "...", "ops": [...], ...}`.
//! For every operation exactly one trace event (one line, one `write` call)
//! is appended to the trace. The executor never judges a result: it records
//! `(op, arguments, outcome, result, projected state)`; TLC decides.
//!
//! Crash isolation: a panic that unwinds is caught and recorded as
//! `out:"panic"`. A non-unwinding death (ub_checks abort, SIGSEGV) kills this
//! process; the Python parent sees the signal, synthesises the `abort` event
//! for the operation in flight and restarts at the next episode. A watchdog
//! thread converts an operation that exceeds its time budget into a `hang`
//! event and exits with status 3.

use serde_json::{json, Map, Value};
use std::fs::{File, OpenOptions};
use std::io::{BufRead, BufReader, Write};
use std::panic::{catch_unwind, AssertUnwindSafe};
use std::sync::atomic::{AtomicU64, Ordering};
use std::sync::{Arc, Mutex};
use std::time::{SystemTime, UNIX_EPOCH};

pub mod util;
mod fam_bitvec;
mod fam_bitfield;
mod fam_ranksel;
mod fam_ef;
mod fam_rcl;
mod fam_sigstore;
mod fam_shardedge;
mod fam_mod2;
mod fam_lender;
mod fam_vbuild;
mod fam_atomic;
mod fam_chunks;
mod fam_sliceseq;
mod fam_rsbig;

pub struct Ctx {
    out: Arc<Mutex<File>>,
    pub e: usize,
    pub i: usize,
    pending: Arc<Mutex<String>>,
    started_ms: Arc<AtomicU64>,
    budget_ms: Arc<AtomicU64>,
}

fn now_ms() -> u64 {
    SystemTime::now()
        .duration_since(UNIX_EPOCH)
        .unwrap()
        .as_millis() as u64
}

impl Ctx {
    /// Called before an operation is executed: arms the watchdog.
    pub fn begin(&mut self, op: &Value) {
        let mut m = Map::new();
        m.insert("ep".into(), json!(self.e));
        m.insert("seq".into(), json!(self.i));
        if let Value::Object(o) = op {
            for (k, v) in o {
                m.insert(k.clone(), v.clone());
            }
        }
        m.insert("out".into(), json!("hang"));
        let mut v = Value::Object(m);
        clamp(&mut v);
        *self.pending.lock().unwrap() = v.to_string();
        self.started_ms.store(now_ms(), Ordering::SeqCst);
    }

    /// Emits the event of the operation begun last. `fields` are merged after
    /// the script's own fields.
    pub fn emit(&mut self, op: &Value, out: &str, fields: Value) {
        self.started_ms.store(0, Ordering::SeqCst);
        let mut m = Map::new();
        m.insert("ep".into(), json!(self.e));
        m.insert("seq".into(), json!(self.i));
        if let Value::Object(o) = op {
            for (k, v) in o {
                m.insert(k.clone(), v.clone());
            }
        }
        m.insert("out".into(), json!(out));
        if let Value::Object(o) = fields {
            for (k, v) in o {
                m.insert(k, v);
            }
        }
        let mut v = Value::Object(m);
        clamp(&mut v);
        let mut line = v.to_string();
        line.push('\n');
        self.out.lock().unwrap().write_all(line.as_bytes()).unwrap();
        self.i += 1;
    }

    pub fn set_budget_ms(&self, ms: u64) {
        self.budget_ms.store(ms, Ordering::SeqCst);
    }
}

/// TLC integers are 32-bit and its JSON reader silently truncates: every
/// integer >= 2^31-1 is logged as the sentinel 2147483647 ("huge"). Families
/// that need the magnitude of large numbers log them as limb lists instead.
pub const HUGE: u64 = 2147483647;
pub fn clamp(v: &mut Value) {
    match v {
        Value::Number(n) => {
            if let Some(u) = n.as_u64() {
                if u >= HUGE {
                    *v = json!(HUGE);
                }
            } else if let Some(i) = n.as_i64() {
                if i <= -(HUGE as i64) {
                    *v = json!(-(HUGE as i64));
                }
            } else {
                // floats never reach TLC as numbers
                *v = json!(n.to_string());
            }
        }
        Value::Array(a) => a.iter_mut().for_each(clamp),
        Value::Object(o) => o.values_mut().for_each(clamp),
        _ => {}
    }
}

/// Runs `f`, turning an unwinding panic into `Err(message)`.
pub fn guard<T>(f: impl FnOnce() -> T) -> Result<T, String> {
    match catch_unwind(AssertUnwindSafe(f)) {
        Ok(v) => Ok(v),
        Err(p) => {
            let msg = if let Some(s) = p.downcast_ref::<&str>() {
                s.to_string()
            } else if let Some(s) = p.downcast_ref::<String>() {
                s.clone()
            } else {
                "?".to_string()
            };
            Err(msg)
        }
    }
}

fn main() {
    let args: Vec<String> = std::env::args().collect();
    if args.len() < 3 {
        eprintln!("usage: exec <script.ndjson> <trace.ndjson> [--from E] [--to E] [--only E]");
        std::process::exit(2);
    }
    let mut from = 0usize;
    let mut only: Option<usize> = None;
    let mut to = usize::MAX;
    let mut k = 3;
    while k < args.len() {
        match args[k].as_str() {
            "--from" => {
                from = args[k + 1].parse().unwrap();
                k += 2;
            }
            "--to" => {
                to = args[k + 1].parse().unwrap();
                k += 2;
            }
            "--only" => {
                only = Some(args[k + 1].parse().unwrap());
                k += 2;
            }
            _ => {
                eprintln!("bad arg {}", args[k]);
                std::process::exit(2);
            }
        }
    }
    std::panic::set_hook(Box::new(|_| {}));
    let out = Arc::new(Mutex::new(
        OpenOptions::new()
            .create(true)
            .append(true)
            .open(&args[2])
            .unwrap(),
    ));
    let pending = Arc::new(Mutex::new(String::new()));
    let started_ms = Arc::new(AtomicU64::new(0));
    let budget_ms = Arc::new(AtomicU64::new(20_000));
    {
        let out = out.clone();
        let pending = pending.clone();
        let started_ms = started_ms.clone();
        let budget_ms = budget_ms.clone();
        std::thread::spawn(move || loop {
            std::thread::sleep(std::time::Duration::from_millis(50));
            let s = started_ms.load(Ordering::SeqCst);
            if s != 0 && now_ms().saturating_sub(s) > budget_ms.load(Ordering::SeqCst) {
                // re-check under the output lock so that we never race a completing op
                let mut f = out.lock().unwrap();
                if started_ms.load(Ordering::SeqCst) == s {
                    let mut line = pending.lock().unwrap().clone();
                    line.push('\n');
                    let _ = f.write_all(line.as_bytes());
                    let _ = f.flush();
                    unsafe { libc::_exit(3) };
                }
            }
        });
    }
    let mut ctx = Ctx {
        out,
        e: 0,
        i: 0,
        pending,
        started_ms,
        budget_ms,
    };
    let rd = BufReader::new(File::open(&args[1]).expect("script"));
    for (e, line) in rd.lines().enumerate() {
        let line = line.unwrap();
        if e < from || e >= to || only.map_or(false, |o| o != e) {
            continue;
        }
        if line.trim().is_empty() {
            continue;
        }
        let ep: Value = serde_json::from_str(&line).expect("episode json");
        ctx.e = e;
        ctx.i = 0;
        ctx.set_budget_ms(ep.get("budget_ms").and_then(|v| v.as_u64()).unwrap_or(20_000));
        let fam = ep["fam"].as_str().unwrap_or("");
        match fam {
            "bitvec" => fam_bitvec::run(&ep, &mut ctx),
            "bitfield" => fam_bitfield::run(&ep, &mut ctx),
            "ranksel" => fam_ranksel::run(&ep, &mut ctx),
            "ef" => fam_ef::run(&ep, &mut ctx),
            "rcl" => fam_rcl::run(&ep, &mut ctx),
            "sigstore" => fam_sigstore::run(&ep, &mut ctx),
            "shardedge" => fam_shardedge::run(&ep, &mut ctx),
            "mod2" => fam_mod2::run(&ep, &mut ctx),
            "lender" => fam_lender::run(&ep, &mut ctx),
            "vbuild" => fam_vbuild::run(&ep, &mut ctx),
            "atomic" => fam_atomic::run(&ep, &mut ctx),
            "chunks" => fam_chunks::run(&ep, &mut ctx),
            "sliceseq" => fam_sliceseq::run(&ep, &mut ctx),
            "rsbig" => fam_rsbig::run(&ep, &mut ctx),
            _ => {
                eprintln!("unknown family {fam}");
                std::process::exit(2);
            }
        }
    }
}
