//! Family "mod2": `sux::utils::mod2_sys::{Modulo2Equation, Modulo2System}`
//! (property C19, with C12 for systems outside the documented domain).
//!
//! Episode: `{"fam":"mod2","wt":"u8","nv":N,"eqs":[{"v":[vars],"c":[set bits]},...],"ops":[...]}`.
//! The system of the episode is immutable; every operation works on a fresh
//! instance built from it (the solvers mutate their receiver):
//!
//! * `solve {alg:"gauss"|"lazy", ctor:"push"|"parts"}` -> result `Ok(assignment)`
//!   / `Err`, plus what `check` says about the returned assignment on a pristine
//!   copy (`chk`) and on the instance the solver has worked on (`chkm`), and the
//!   dimensions afterwards
//! * `check {a}`  -> `check(a)` on a pristine instance
//! * `dims`       -> `num_vars()`, `num_equations()`
//! * `add {i, j}` -> `eqs[i].add(&eqs[j])`, observed through `Debug`
//!
//! Words (constants, assigned values) are lists of set-bit positions.

use crate::util::*;
use crate::{guard, Ctx};
use serde_json::{json, Value};
use sux::traits::Word;
use sux::utils::mod2_sys::{Modulo2Equation, Modulo2System};

trait HW: Word + std::fmt::Debug {
    fn from_u128(x: u128) -> Self;
    fn to_u128(self) -> u128;
}
macro_rules! hw {
    ($($t:ty),*) => {$(
        impl HW for $t {
            fn from_u128(x: u128) -> Self { x as $t }
            fn to_u128(self) -> u128 { self as u128 }
        }
    )*};
}
hw!(u8, u16, u32, u64, u128, usize);

fn eqs_of<W: HW>(ep: &Value) -> Vec<(Vec<u32>, W)> {
    ep["eqs"]
        .as_array()
        .unwrap()
        .iter()
        .map(|e| {
            let v: Vec<u32> = e["v"].as_array().unwrap().iter().map(|x| x.as_u64().unwrap() as u32).collect();
            (v, W::from_u128(u128_of_bits(&e["c"])))
        })
        .collect()
}

fn sorted(v: &[u32]) -> bool {
    v.windows(2).all(|w| w[0] <= w[1])
}

/// Builds the system of the episode. `from_parts` of an equation is unsafe
/// with the contract "variables sorted": unsorted lists are never passed.
fn build<W: HW>(nv: usize, eqs: &[(Vec<u32>, W)], parts: bool) -> Modulo2System<W> {
    let it = eqs.iter().map(|(v, c)| {
        assert!(sorted(v), "script error: unsorted variable list");
        unsafe { Modulo2Equation::from_parts(v.clone(), *c) }
    });
    if parts {
        unsafe { Modulo2System::from_parts(nv, it.collect()) }
    } else {
        let mut s = Modulo2System::<W>::new(nv);
        for e in it {
            s.push(e);
        }
        s
    }
}

fn words<W: HW>(a: &[W]) -> Value {
    Value::Array(a.iter().map(|w| json!(bits_of_u128(w.to_u128()))).collect())
}

fn assignment<W: HW>(v: &Value) -> Vec<W> {
    v.as_array().unwrap().iter().map(|x| W::from_u128(u128_of_bits(x))).collect()
}

fn chk<W: HW>(s: &Modulo2System<W>, a: &[W]) -> Value {
    match guard(|| s.check(a)) {
        Ok(true) => json!("true"),
        Ok(false) => json!("false"),
        Err(_) => json!("panic"),
    }
}

/// `Modulo2Equation { vars: [0, 3], c: 5 }`
fn parse_eq(d: &str) -> Option<(Vec<u64>, u128)> {
    let a = d.find("vars: [")? + 7;
    let b = a + d[a..].find(']')?;
    let vars: Vec<u64> = d[a..b]
        .split(',')
        .map(|x| x.trim())
        .filter(|x| !x.is_empty())
        .map(|x| x.parse().ok())
        .collect::<Option<Vec<u64>>>()?;
    let c0 = d.find("c: ")? + 3;
    let t = &d[c0..];
    let e = t.find(|c: char| !c.is_ascii_digit()).unwrap_or(t.len());
    Some((vars, t[..e].parse().ok()?))
}

fn drive<W: HW>(ep: &Value, ctx: &mut Ctx) {
    let nv = get_usize(ep, "nv");
    let eqs = eqs_of::<W>(ep);
    for op in ep["ops"].as_array().unwrap() {
        ctx.begin(op);
        let name = op["op"].as_str().unwrap();
        let r: Result<Value, String> = match name {
            "solve" => {
                let parts = op["ctor"].as_str() == Some("parts");
                let lazy = op["alg"].as_str() == Some("lazy");
                let pristine = build::<W>(nv, &eqs, parts);
                let mut sys = build::<W>(nv, &eqs, parts);
                let r = guard(|| {
                    if lazy {
                        sys.lazy_gaussian_elimination()
                    } else {
                        sys.gaussian_elimination()
                    }
                });
                r.map(|res| match res {
                    Ok(a) => json!({
                        "ok": true,
                        "a": words(&a),
                        "chk": chk(&pristine, &a),
                        "chkm": chk(&sys, &a),
                        "nvars": sys.num_vars(),
                        "neqs": sys.num_equations(),
                    }),
                    Err(e) => json!({
                        "ok": false,
                        "a": [],
                        "chk": "none",
                        "chkm": "none",
                        "err": format!("{}", e),
                        "nvars": sys.num_vars(),
                        "neqs": sys.num_equations(),
                    }),
                })
            }
            "check" => {
                let sys = build::<W>(nv, &eqs, false);
                let a = assignment::<W>(&op["a"]);
                guard(|| sys.check(&a)).map(|b| json!({"res": b}))
            }
            "dims" => {
                let sys = build::<W>(nv, &eqs, op["ctor"].as_str() == Some("parts"));
                guard(|| (sys.num_vars(), sys.num_equations()))
                    .map(|(a, b)| json!({"nvars": a, "neqs": b}))
            }
            "add" => {
                let (i, j) = (get_usize(op, "i"), get_usize(op, "j"));
                if i >= eqs.len() || j >= eqs.len() || !sorted(&eqs[i].0) || !sorted(&eqs[j].0) {
                    Err("na".into())
                } else {
                    let mut a = unsafe { Modulo2Equation::from_parts(eqs[i].0.clone(), eqs[i].1) };
                    let b = unsafe { Modulo2Equation::from_parts(eqs[j].0.clone(), eqs[j].1) };
                    guard(|| {
                        a.add(&b);
                        format!("{:?}", a)
                    })
                    .map(|d| match parse_eq(&d) {
                        Some((v, c)) => json!({"res": {"v": v, "c": bits_of_u128(c)}, "dbg": true}),
                        None => json!({"res": {"v": [], "c": []}, "dbg": false, "text": d}),
                    })
                }
            }
            _ => Err("na".into()),
        };
        match r {
            Ok(f) => ctx.emit(op, "ret", f),
            Err(m) if m == "na" => ctx.emit(op, "na", json!({})),
            Err(m) => ctx.emit(op, "panic", json!({"msg": m})),
        }
    }
}

pub fn run(ep: &Value, ctx: &mut Ctx) {
    let wt = ep["wt"].as_str().unwrap_or("usize").to_string();
    let bits = match wt.as_str() {
        "u8" => 8,
        "u16" => 16,
        "u32" => 32,
        "u128" => 128,
        _ => 64,
    };
    let hdr = json!({"op": "BEGIN", "fam": "mod2", "src": ep.get("src").cloned().unwrap_or(json!("?")),
                     "wt": wt, "W": bits, "nv": ep["nv"], "eqs": ep["eqs"]});
    ctx.begin(&hdr);
    ctx.emit(&hdr, "ret", json!({}));
    match wt.as_str() {
        "u8" => drive::<u8>(ep, ctx),
        "u16" => drive::<u16>(ep, ctx),
        "u32" => drive::<u32>(ep, ctx),
        "u64" => drive::<u64>(ep, ctx),
        "u128" => drive::<u128>(ep, ctx),
        _ => drive::<usize>(ep, ctx),
    }
}
