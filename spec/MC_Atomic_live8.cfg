SPECIFICATION MCLive
CONSTANTS
  InstOf <- Ident
  W = 8
  Widths = {3, 5}
  NThreads = {3}
  Menu = {"near", "ef"}
  AllValues = FALSE
  Rots = {0}
  PatSet = {"alt"}
  Boundaries = {1}
  NearFields = 5
  EFN = {3}
  EFMaxThreads = 3
  MaxT = 3
  Export = FALSE
INVARIANTS TypeOK
PROPERTY Termination
CHECK_DEADLOCK FALSE
