\* with nexts(2) (several items per call), depth 3, cursor kinds
SPECIFICATION MCSpec
CONSTANTS
  Depth = 3
  KindMenu = {"line_cursor", "zstd_cursor", "gzip_cursor", "range"}
  TakeMenu <- Takes5
  WithNexts = TRUE
  LinesLen = 2
  Export = TRUE
INVARIANTS Inv LinesOK Emit
CHECK_DEADLOCK FALSE
