-------------------------------- MODULE Mod2 --------------------------------
(***************************************************************************)
(* sux::utils::mod2_sys -- systems of equations over GF(2)^W (property     *)
(* C19; C12 for systems outside the documented domain).                    *)
(*                                                                         *)
(* A *word* (constant term, value of a variable) is the set of its set-bit *)
(* positions 0 .. W-1; bit position p is "plane" p, and an equation over   *)
(* words is W independent equations over GF(2), one per plane.  In scripts *)
(* and traces a word is the list of its set-bit positions.                 *)
(*                                                                         *)
(* A system is a record  [nv |-> N, eqs |-> <<e_1, ..., e_m>>]  with       *)
(* e_k = [v |-> <<variables>>, c |-> <<set bits of the constant>>]; the    *)
(* variables are 0-based, an assignment is a sequence of N words (variable *)
(* x is element x + 1).                                                    *)
(*                                                                         *)
(* The abstract object of the property:                                    *)
(*   Sat(a, sys, W)   a satisfies every equation in every plane            *)
(*   Solvable(sys)    some assignment does -- defined by a textbook        *)
(*                    elimination on sets (ElimSolvable), and by brute     *)
(*                    force (BruteSolvable); MC_Mod2 checks them equal.    *)
(*   SolveWhy(..)     admissible results of the two solvers                *)
(***************************************************************************)
EXTENDS Naturals, Sequences, FiniteSets

M2Rng(s)       == {s[k] : k \in DOMAIN s}            \* elements of a sequence
M2Sym(A, B)    == (A \ B) \cup (B \ A)               \* XOR of two words
M2Str(b)       == IF b THEN "true" ELSE "false"

(***************************************************************************)
(* The domain of C19: non-empty strictly increasing variable lists below   *)
(* the declared number of variables.                                       *)
(***************************************************************************)
EqInDomain(e, nv) ==
    /\ Len(e.v) >= 1
    /\ \A i \in 1 .. Len(e.v) - 1 : e.v[i] < e.v[i + 1]
    /\ \A i \in 1 .. Len(e.v) : e.v[i] < nv
InDomain(sys) == \A k \in DOMAIN sys.eqs : EqInDomain(sys.eqs[k], sys.nv)

\* the planes that occur in some constant (all other planes are homogeneous)
Planes(sys) == UNION {M2Rng(sys.eqs[k].c) : k \in DOMAIN sys.eqs}

WordOK(w, W) == \A k \in DOMAIN w : w[k] \in 0 .. W - 1
AssignmentOK(a, sys, W) == Len(a) = sys.nv /\ \A x \in DOMAIN a : WordOK(a[x], W)

(***************************************************************************)
(* Satisfaction, one bit plane at a time (the definition).                 *)
(***************************************************************************)
Parity(S) == Cardinality(S) % 2
SatPlane(a, sys, p) ==
    \A k \in DOMAIN sys.eqs :
        LET e == sys.eqs[k]
        IN  Parity({i \in DOMAIN e.v : p \in M2Rng(a[e.v[i] + 1])})
                = (IF p \in M2Rng(e.c) THEN 1 ELSE 0)
Sat(a, sys, W) == Len(a) = sys.nv /\ \A p \in 0 .. W - 1 : SatPlane(a, sys, p)

(***************************************************************************)
(* The same, all planes at once: XOR of words = symmetric difference.      *)
(* (MC_Mod2 checks SatW = Sat on the exhaustive set; the trace             *)
(* specification evaluates SatW.)                                          *)
(***************************************************************************)
RECURSIVE XorVals(_, _, _)
XorVals(A, v, k) == IF k > Len(v) THEN {} ELSE M2Sym(A[v[k] + 1], XorVals(A, v, k + 1))
SatW(a, sys) ==
    /\ Len(a) = sys.nv
    /\ LET A == [x \in DOMAIN a |-> M2Rng(a[x])]
       IN  \A k \in DOMAIN sys.eqs : XorVals(A, sys.eqs[k].v, 1) = M2Rng(sys.eqs[k].c)

(***************************************************************************)
(* Solvability by elimination on sets.  An equation is [v: set of          *)
(* variables, c: set of planes]; adding two equations is the symmetric     *)
(* difference of both components.  Pick any equation with a variable,      *)
(* pick one of its variables, add the equation to every other equation     *)
(* containing that variable, set it aside (it can always be satisfied by   *)
(* choosing the pivot last).  What remains without variables must have a   *)
(* zero constant in every plane.                                           *)
(***************************************************************************)
SetEq(e) == [v |-> M2Rng(e.v), c |-> M2Rng(e.c)]
RECURSIVE Elim(_)
Elim(E) ==
    IF \E e \in E : e.v = {} /\ e.c # {} THEN FALSE
    ELSE LET N == {e \in E : e.v # {}}
         IN  IF N = {} THEN TRUE
             ELSE LET e == CHOOSE f \in N : TRUE
                      x == CHOOSE y \in e.v : TRUE
                  IN  Elim({ IF x \in f.v THEN [v |-> M2Sym(f.v, e.v), c |-> M2Sym(f.c, e.c)] ELSE f :
                             f \in N \ {e} })
ElimSolvable(sys) == Elim({SetEq(sys.eqs[k]) : k \in DOMAIN sys.eqs})

(***************************************************************************)
(* Solvability by brute force (small numbers of variables only): planes    *)
(* are independent, so it is enough to find a 0/1 assignment per plane.    *)
(***************************************************************************)
BruteSolvable(sys) ==
    \A p \in Planes(sys) :
        \E b \in SUBSET (0 .. sys.nv - 1) :
            \A k \in DOMAIN sys.eqs :
                Parity(M2Rng(sys.eqs[k].v) \cap b) = (IF p \in M2Rng(sys.eqs[k].c) THEN 1 ELSE 0)

Solvable(sys) == ElimSolvable(sys)

(***************************************************************************)
(* Operations.  `ev` is the logged event (same field names as the trace).  *)
(* Each operator returns the first reason for which the event is not       *)
(* admissible, or "ok".                                                    *)
(*                                                                         *)
(* solve {alg, ctor}: in the domain the call must return; Ok(a) must       *)
(* satisfy the system (which proves it solvable), Err is admissible only   *)
(* for an unsolvable system.  check(a) as reported by the code on a        *)
(* pristine copy (chk) and on the instance the solver has worked on (chkm) *)
(* must both be true.  Outside the domain (C12) the call returns or        *)
(* panics; nothing else is required.                                       *)
(***************************************************************************)
Algs == {"gauss", "lazy"}

SolveWhy(ev, sys, W) ==
    IF ~InDomain(sys) THEN (IF ev.out \in {"ret", "panic"} THEN "ok" ELSE "outcome")
    ELSE IF ev.out # "ret" THEN "outcome"
    ELSE IF ev.nvars # sys.nv THEN "num_vars"
    ELSE IF ev.ok THEN
             IF ~AssignmentOK(ev.a, sys, W) THEN "assignment-shape"
             ELSE IF ~SatW(ev.a, sys) THEN "violating-assignment"
             ELSE IF ev.chk # "true" THEN "check-pristine"
             ELSE IF ev.chkm # "true" THEN "check-after-solve"
             ELSE "ok"
    ELSE IF Solvable(sys) THEN "error-on-solvable"
    ELSE "ok"

\* check(a): true iff a satisfies the system; a wrong length or an
\* out-of-domain system may panic
CheckWhy(ev, sys, W) ==
    IF ~InDomain(sys) \/ Len(ev.a) # sys.nv
    THEN (IF ev.out \in {"ret", "panic"} THEN "ok" ELSE "outcome")
    ELSE IF ev.out # "ret" THEN "outcome"
    ELSE IF ev.res # SatW(ev.a, sys) THEN "result"
    ELSE "ok"

DimsWhy(ev, sys) ==
    IF ev.out # "ret" THEN "outcome"
    ELSE IF ev.nvars # sys.nv THEN "num_vars"
    ELSE IF ev.neqs # Len(sys.eqs) THEN "num_equations"
    ELSE "ok"

\* Modulo2Equation::add: variables = sorted symmetric difference, constant = XOR
RECURSIVE SortedSeq(_)
SortedSeq(S) == IF S = {} THEN <<>>
                ELSE LET m == CHOOSE x \in S : \A y \in S : x <= y
                     IN  <<m>> \o SortedSeq(S \ {m})
AddEq(e, f) == [v |-> SortedSeq(M2Sym(M2Rng(e.v), M2Rng(f.v))), c |-> M2Sym(M2Rng(e.c), M2Rng(f.c))]

AddWhy(ev, sys) ==
    IF ev.i >= Len(sys.eqs) \/ ev.j >= Len(sys.eqs) THEN (IF ev.out = "na" THEN "ok" ELSE "outcome")
    ELSE LET e == sys.eqs[ev.i + 1]
             f == sys.eqs[ev.j + 1]
         IN  IF ~(EqInDomain(e, sys.nv) /\ EqInDomain(f, sys.nv))
             THEN (IF ev.out \in {"ret", "panic"} THEN "ok" ELSE "outcome")
             ELSE IF ev.out # "ret" THEN "outcome"
             ELSE IF ~ev.dbg THEN "ok"          \* Debug output not in the derive format: unobservable
             ELSE IF ev.res.v # AddEq(e, f).v THEN "add-vars"
             ELSE IF M2Rng(ev.res.c) # AddEq(e, f).c THEN "add-const"
             ELSE "ok"

Why(ev, sys, W) ==
    CASE ev.op = "solve" -> (IF ev.alg \in Algs THEN SolveWhy(ev, sys, W) ELSE "unknown-alg")
      [] ev.op = "check" -> CheckWhy(ev, sys, W)
      [] ev.op = "dims"  -> DimsWhy(ev, sys)
      [] ev.op = "add"   -> AddWhy(ev, sys)
      [] OTHER -> "unknown-op"
=============================================================================
