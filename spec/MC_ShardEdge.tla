---------------------------- MODULE MC_ShardEdge ----------------------------
(***************************************************************************)
(* Bounded instances of ShardEdge.                                         *)
(*                                                                         *)
(* MCSpec (MC_ShardEdge_small.cfg / _thorough.cfg): every small geometry   *)
(* (up to 2^MaxBits shards; fuse: l <= MaxL, segments of 2^s cells with    *)
(* s <= MaxS; mwhc: thirds of t <= MaxT cells), every implementation that  *)
(* can have it, and                                                        *)
(*   DesignEdge  every edge of the design, in every shard                  *)
(*   CodeEdge    every signature of two B-bit words through the scaled     *)
(*               transcription of the implementation's edge function       *)
(* with the invariants: a design edge satisfies the property (pairwise     *)
(* distinct, inside the array, inside the slice of its shard); the code's  *)
(* edge is a design edge of shard(sig), equals the shifted local edge, its *)
(* sort key is below num_sort_keys.                                        *)
(*                                                                         *)
(* ExportSpec (MC_ShardEdge_export*.cfg): TLC as the systematic generator  *)
(* of scripts for the real (64-bit) code: implementations x key counts at  *)
(* the regime boundaries x eps x largest-shard recipe, each followed by    *)
(* the boundary signatures (all zero, all ones, each 16-bit limb cleared   *)
(* or alone, every single bit).                                            *)
(***************************************************************************)
EXTENDS ShardEdge, TLC, Json, Sequences

CONSTANTS MaxBits, MaxL, MaxS, MaxT, B,    \* design model
          NMenu, BigN, Export,             \* export
          XImpls                           \* implementations to export (<- XAll / XFuse)

VARIABLES impl, g, r,
          xn, xeps, xms          \* export only
mcvars == <<impl, g, r>>
xvars == <<impl, g, r, xn, xeps, xms>>
XIdle == xn = 0 /\ xeps = "" /\ xms = [k |-> "avg"]

FuseGeoms == { [kind |-> "fuse", bits |-> b, s |-> s, l |-> l] : b \in 0 .. MaxBits, s \in 0 .. MaxS, l \in 1 .. MaxL }
MwhcGeoms == { [kind |-> "mwhc", bits |-> b, t |-> t] : b \in 0 .. MaxBits, t \in 1 .. MaxT }
GeomsOf(im) == { x \in (IF KindOf(im[1]) = "fuse" THEN FuseGeoms ELSE MwhcGeoms) : Sharding(im[1]) \/ x.bits = 0 }

\* every edge of the design of one shard, in parametric form
LocalEdges(x) ==
    IF x.kind = "fuse"
    THEN { <<f * 2^x.s + a, (f + 1) * 2^x.s + b, (f + 2) * 2^x.s + c>> :
             f \in 0 .. x.l - 1, a \in 0 .. 2^x.s - 1, b \in 0 .. 2^x.s - 1, c \in 0 .. 2^x.s - 1 }
    ELSE { <<a, x.t + b, 2 * x.t + c>> : a \in 0 .. x.t - 1, b \in 0 .. x.t - 1, c \in 0 .. x.t - 1 }

MCInit == /\ impl \in Impls
          /\ g \in GeomsOf(impl)
          /\ r = [k |-> "none"]
          /\ XIdle

DesignEdge == /\ r.k = "none"
              /\ \E sh \in 0 .. NShards(g) - 1 : \E e \in LocalEdges(g) :
                    r' = [k |-> "design", sh |-> sh, e |-> [i \in 1 .. 3 |-> e[i] + sh * NV(g)]]
              /\ UNCHANGED <<impl, g, xn, xeps, xms>>

CodeEdge == /\ r.k = "none"
            /\ \E x \in 0 .. 2^B - 1 : \E y \in (IF impl[2] = 2 THEN 0 .. 2^B - 1 ELSE {0}) :
                  r' = [k |-> "code"] @@ Code(impl[1], impl[2], g, x, y, B)
            /\ UNCHANGED <<impl, g, xn, xeps, xms>>

MCNext == DesignEdge \/ CodeEdge
MCSpec == MCInit /\ [][MCNext]_xvars

\* the parametric form is exactly the design predicate (checked on the
\* geometries small enough to enumerate all triples)
ParametricIsDesign ==
    (r.k = "none" /\ NV(g) <= 12) =>
        LocalEdges(g) = { e \in (0 .. NV(g) + 1) \X (0 .. NV(g) + 1) \X (0 .. NV(g) + 1) : LocalDesign(g, e) }

DesignImpliesProperty == r.k = "design" => (Design(g, r.sh, r.e) /\ Contract(g, r.sh, r.e))
CodeRefinesDesign     == r.k = "code" => (CodeOK(g, r) /\ Contract(g, r.sh, r.e))

\* Wide helpers used by the trace contract agree with plain arithmetic
WideOK == r.k = "none" =>
            /\ \A k \in 0 .. 30 : \A n \in {0, 1, 5, 32767, 32768, 40000, 1000000} :
                  WShr(WOfNat(n), k) = WOfNat(n \div 2^k)
            /\ \A S \in SUBSET {0, 1, 14, 15, 16, 29} :
                  WOfBits(S) = WOfNat(LET F[U \in SUBSET S] == IF U = {} THEN 0
                                                               ELSE LET p == CHOOSE z \in U : TRUE IN 2^p + F[U \ {p}]
                                      IN  F[S])
            /\ \A k \in {0, 1, 14, 15, 16, 29, 30} : WPow2(k) = WOfNat(2^k)

\* ----- export -------------------------------------------------------------
Ones64     == 0 .. 63
LimbPos(k) == (16 * k) .. (16 * k + 15)
Asc(S)     == IF S = {} THEN <<>> ELSE LET F[U \in SUBSET S] ==
                  IF U = {} THEN <<>> ELSE LET m == CHOOSE x \in U : \A y \in U : x <= y IN <<m>> \o F[U \ {m}]
              IN F[S]
\* patterns of one word
WordMenu == {{}, Ones64} \cup {LimbPos(k) : k \in 0 .. 3} \cup {Ones64 \ LimbPos(k) : k \in 0 .. 3}
SingleBits == {{p} : p \in Ones64}
SigMenu(w) ==
    IF w = 1 THEN { <<Asc(a)>> : a \in WordMenu \cup SingleBits }
    ELSE { <<Asc(a), Asc(b)>> : a \in WordMenu, b \in {{}, Ones64} }
         \cup { <<Asc(a), Asc(b)>> : a \in {{}, Ones64}, b \in WordMenu }
         \cup { <<Asc(a), <<>>>> : a \in SingleBits } \cup { <<<<>>, Asc(a)>> : a \in SingleBits }
         \cup { <<Asc(a), Asc(Ones64)>> : a \in SingleBits }

SetSeq(S) == LET F[U \in SUBSET S] == IF U = {} THEN <<>> ELSE LET m == CHOOSE x \in U : TRUE IN <<m>> \o F[U \ {m}]
             IN F[S]

Script ==
    LET n   == WOfNat(xn)
        sg  == SetSeq(SigMenu(impl[2]))
        one == [op |-> "edge", sig |-> sg[1]]
    IN  [fam |-> "shardedge", src |-> "tlc", logic |-> impl[1], sigw |-> impl[2],
         ops |-> <<[op |-> "shards", n |-> n, eps |-> xeps],
                   [op |-> "graphs", n |-> n, ms |-> xms]>>
                 \o [k \in DOMAIN sg |-> [op |-> "edge", sig |-> sg[k]]]
                 \o <<[op |-> "reload", mode |-> "full"], one, [op |-> "mem_size"]>>]

XAll  == Impls
XFuse == {i \in Impls : KindOf(i[1]) = "fuse"}
XInit == /\ impl \in XImpls
         /\ g = [kind |-> "none"] /\ r = [k |-> "none"]
         /\ xn \in NMenu
         /\ xeps \in (IF xn \in BigN THEN {"0.001", "0.01", "0.1"} ELSE {"0.001"})
         /\ xms \in (IF Sharding(impl[1]) /\ xn >= 100000
                     THEN {[k |-> "avg"], [k |-> "max"], [k |-> "mid", i |-> 7]} ELSE {[k |-> "avg"]})
ExportSpec == XInit /\ [][UNCHANGED xvars]_xvars

Emit == Export => PrintT(<<"SCRIPT", ToJson(Script)>>)
=============================================================================
