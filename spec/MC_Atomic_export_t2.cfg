SPECIFICATION MCSpec
CONSTANTS
  InstOf <- Ident
  W = 64
  Widths = {1, 3, 5, 7, 13, 31, 33, 63}
  NThreads = {2}
  Menu = {"field"}
  AllValues = TRUE
  Rots = {0}
  PatSet = {"zeros", "ones", "alt"}
  Boundaries = {1}
  NearFields = 0
  EFN = {}
  EFMaxThreads = 3
  MaxT = 3
  Export = TRUE
INVARIANTS Emit
CHECK_DEADLOCK FALSE
