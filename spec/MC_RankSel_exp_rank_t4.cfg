SPECIFICATION MCSpec
CONSTANTS
  Export = TRUE
  MaxLen = 0
  Lens = {1, 64, 65, 512, 1024, 8192}
  MaxRuns = 4
  PerVec = 3
  What = "rank"
INVARIANTS Emit
CHECK_DEADLOCK FALSE
