SPECIFICATION MCSpec
CONSTANTS
  InstOf <- Ident
  W = 64
  Widths = {1, 3, 5, 7, 13, 31, 33, 63, 64}
  NThreads = {2, 3}
  Menu = {"field", "field2", "bit"}
  AllValues = TRUE
  Rots = {0}
  PatSet = {"zeros", "ones", "alt"}
  Boundaries = {1, 2}
  NearFields = 0
  EFN = {}
  EFMaxThreads = 3
  MaxT = 3
  Export = FALSE
VIEW View
INVARIANTS InstancesOK TypeOK NoOOB Frame NoInterference SwapLinearizable EqualsSequential
CHECK_DEADLOCK FALSE
