------------------------------ MODULE SigStore ------------------------------
(***************************************************************************)
(* sux::utils::sig_store -- SigStore / ShardStore / ShardIterator, online  *)
(* (in memory) and offline (one file per bucket)  (property C18, and C12   *)
(* for this family).                                                       *)
(*                                                                         *)
(* Abstract state: `pushed`, the sequence of signature/value pairs pushed  *)
(* so far (as a multiset: the order is only used to name a pair by its     *)
(* index).  A signature is a sequence of one or two 64-bit words, most     *)
(* significant first; a word is a base-2^15 little-endian limb sequence    *)
(* (Wide.tla), exactly as logged by the executor.  The shard of a pair is  *)
(* *computed here* from those limbs: the top b bits of the first word.     *)
(*                                                                         *)
(* Part 1 is the contract of every public operation (used by the trace     *)
(* specification to judge recorded executions of the real code).  Part 2   *)
(* is a design-level transcription of the code: bucket sort on push with   *)
(* per-bucket and per-finest-shard counters, aggregation of the counters   *)
(* in into_shard_store, and the three branches (equal / aggregate / split) *)
(* of the shard iterators of both back-ends, with every indexed access     *)
(* bounds-checked (`oob`).  Part 3 states, as invariants of the design,    *)
(* what C18 says.  MC_SigStore explores part 2 exhaustively on small       *)
(* instances and exports its behaviours as scripts.                        *)
(***************************************************************************)
EXTENDS Naturals, Sequences, FiniteSets, SequencesExt, Bitwise, Wide

CONSTANT RB          \* records per read buffer of the offline split branch (1024 in the code)

VARIABLES cfg,       \* [kind: "online"|"offline", bb: bucket bits, mb: max shard bits]
          phase,     \* "none" | "sig" | "shard" | "iter" | "into" | "done" | "dead"
          pushed,    \* sequence of <<sig, val>> in push order
          sbits,     \* shard bits requested by into_shard_store
          ssz,       \* shard_sizes() of the shard store
          \* ---- design state (not used by the trace specification)
          buckets,   \* bucket -> sequence of pairs (a Vec or a file)
          bsz,       \* bucket -> number of pairs pushed into it
          fine,      \* finest shard (mb bits) -> number of pairs
          it,        \* iterator: [borrowed, nb (next bucket), ns (next shard), pend (split shards not yet emitted)]
          emitted,   \* shards returned so far by the current iterator
          ref,       \* history: the longest sequence of shards any iteration has returned so far
          passok,    \* history: every iteration that ran to its end returned the whole store
          oob        \* some indexed access of the transcription was out of range

absvars == <<cfg, phase, pushed, sbits, ssz>>
desvars == <<buckets, bsz, fine, it, emitted, ref, passok, oob>>
ssvars  == <<cfg, phase, pushed, sbits, ssz, buckets, bsz, fine, it, emitted, ref, passok, oob>>

Pow2(n)     == 2 ^ n
Min2(a, b)  == IF a < b THEN a ELSE b
SumSeq(s)   == FoldLeft(LAMBDA a, b : a + b, 0, s)
Flat(ss)    == FoldLeft(LAMBDA a, b : a \o b, <<>>, ss)
BagOf(s)    == [x \in {s[i] : i \in DOMAIN s} |-> Cardinality({i \in DOMAIN s : s[i] = x})]
Zeros(n)    == [k \in 1 .. n |-> 0]

(***************************************************************************)
(* Signatures.  Bits of a 64-bit word w given by limbs l1..l5: bit i is    *)
(* bit (i % 15) of limb (i \div 15) + 1; the top 19 bits are l5 * 2^15 +   *)
(* l4.  Sig::high_bits(b, 2^b - 1) = rotate_left(b) & mask = top b bits.   *)
(***************************************************************************)
MaxTop == 19
HiBits(sig)     == WLimb(sig[1], 5) * 32768 + WLimb(sig[1], 4)
TopBits(sig, b) == HiBits(sig) \div Pow2(MaxTop - b)            \* 0 <= b <= 19

\* the same for any 0 <= b <= 63, as the set of positions of the result that are 1
WordBits(w)    == {i \in 0 .. 63 : (WLimb(w, (i \div 15) + 1) \div Pow2(i % 15)) % 2 = 1}
TopSet(sig, b) == {i - (64 - b) : i \in {j \in WordBits(sig[1]) : j >= 64 - b}}
SetVal(S)      == FoldLeft(LAMBDA a, i : a + Pow2(i), 0, SetToSeq(S))
\* the two definitions agree (checked by TLC on the signatures of MC_SigStore)
TopAgree(sig)  == \A b \in 0 .. MaxTop : SetVal(TopSet(sig, b)) = TopBits(sig, b)

\* limb-wise xor of two words, and of two values below 2^31
WordXor(a, b) == WNorm([k \in 1 .. WMaxLen(a, b) |-> WLimb(a, k) ^^ WLimb(b, k)])
SigXor(s, t)  == [k \in 1 .. Len(s) |-> WordXor(s[k], t[k])]

(***************************************************************************)
(* PART 1 -- the contract.                                                 *)
(***************************************************************************)
\* number of pairs per value of the top b bits (what shard_sizes() must be)
CountTops(items, b) ==
    FoldLeft(LAMBDA f, x : [f EXCEPT ![TopBits(x[1], b) + 1] = @ + 1], Zeros(Pow2(b)), items)

\* First reason for which `sh`, a sequence of <<sig, val, id>> returned as the
\* k-th shard (k = 1 ..), is not exactly the sub-multiset of `pushed` whose top
\* `sbits` bits are k - 1.  `id` is a witness supplied by the recorder: the
\* index in `pushed` of the returned pair; it is checked, not trusted.  All
\* five conditions together say: sh is, as a multiset, {pushed[i] : top = k-1}.
ShardWhy(k, sh) ==
    IF Len(sh) # ssz[k] THEN "shard-size"
    ELSE IF \E j \in 1 .. Len(sh) : ~(sh[j][3] \in 1 .. Len(pushed)) THEN "pair-not-pushed"
    ELSE IF \E j \in 1 .. Len(sh) : pushed[sh[j][3]] # <<sh[j][1], sh[j][2]>> THEN "pair-not-pushed"
    ELSE IF \E j \in 1 .. Len(sh) : TopBits(sh[j][1], sbits) # k - 1 THEN "wrong-shard"
    ELSE IF Cardinality({sh[j][3] : j \in 1 .. Len(sh)}) # Len(sh) THEN "pair-twice"
    ELSE "ok"

\* One iteration (borrowed or consuming) as recorded: `shards` returned by the
\* first min(take, ..) calls of next(), `ended` = a call returned None,
\* `hints` = size_hint() before the first call and after every returned shard,
\* `extra_some` = number of Some among the `extra` calls made after None.
IterWhy(ev) ==
    LET m == Len(ev.shards)
        n == Pow2(sbits)
        bad == {k \in 1 .. Min2(m, n) : ShardWhy(k, ev.shards[k]) # "ok"}
    IN  IF m > n THEN "too-many-shards"
        ELSE IF ev.ended /\ m # n THEN "too-few-shards"
        ELSE IF ~ev.ended /\ m # ev.take THEN "stopped-early"
        ELSE IF bad # {} THEN ShardWhy(CHOOSE k \in bad : \A j \in bad : k <= j,
                                       ev.shards[CHOOSE k \in bad : \A j \in bad : k <= j])
        ELSE IF ev.hints # [j \in 1 .. m + 1 |-> <<n - (j - 1), <<n - (j - 1)>>>>] THEN "size-hint"
        ELSE IF ev.extra_some # 0 THEN "some-after-none"
        ELSE "ok"

SigOps   == {"push", "push_many", "len", "is_empty", "max_shard_high_bits", "temp_dir", "into_shard_store"}
ShardOps == {"shard_sizes", "store_len", "iter", "into_iter"}
FreeOps  == {"high_bits", "sv_xor", "sv_xor_assign", "sv_eq"}      \* no store involved

Applicable(op) == \/ op.op \in FreeOps
                  \/ op.op \in SigOps /\ phase = "sig"
                  \/ op.op \in ShardOps /\ phase = "shard"

\* rk: how the logged result is compared ("none", "val": ev.res = res,
\* "set": ToSet(ev.res) = res, "store": sizes and length of the new shard
\* store, "iter": IterWhy); ph/pu/sb/sz: next phase, pushed, sbits, ssz
R(out, rk, res, ph, pu, sb, sz) ==
    [out |-> out, rk |-> rk, res |-> res, ph |-> ph, pu |-> pu, sb |-> sb, sz |-> sz]
Same(out, rk, res) == R(out, rk, res, phase, pushed, sbits, ssz)

Eff(op) ==
    LET o == op.op IN
    IF ~Applicable(op) THEN Same("na", "none", <<>>)
    ELSE CASE
       o = "push"      -> R("ret", "val", Len(pushed) + 1, phase, Append(pushed, <<op.sig, op.val>>), sbits, ssz)
    [] o = "push_many" -> R("ret", "val", Len(pushed) + Len(op.items), phase, pushed \o op.items, sbits, ssz)
    [] o = "len"       -> Same("ret", "val", Len(pushed))
    [] o = "is_empty"  -> Same("ret", "val", Len(pushed) = 0)
    [] o = "max_shard_high_bits" -> Same("ret", "val", cfg.mb)
    [] o = "temp_dir"  -> Same("ret", "val", cfg.kind = "offline")
    \* documented: panics when more than max_shard_high_bits bits are requested;
    \* the store is consumed either way
    [] o = "into_shard_store" ->
         IF op.s <= cfg.mb
         THEN R("ret", "store", <<>>, "shard", pushed, op.s, CountTops(pushed, op.s))
         ELSE R("panic", "none", <<>>, "dead", pushed, sbits, ssz)
    [] o = "shard_sizes" -> Same("ret", "val", ssz)
    [] o = "store_len"   -> Same("ret", "val", Len(pushed))
    [] o = "iter"        -> Same("ret", "iter", <<>>)
    [] o = "into_iter"   -> R("ret", "iter", <<>>, "done", pushed, sbits, ssz)
    [] o = "high_bits"   -> Same("ret", "set", TopSet(op.sig, op.b))
    [] o \in {"sv_xor", "sv_xor_assign"} ->
         Same("ret", "val", <<SigXor(op.a[1], op.b[1]), op.a[2] ^^ op.b[2]>>)
    [] o = "sv_eq"       -> Same("ret", "val", op.a[1] = op.b[1])     \* PartialEq looks at the signature only

(***************************************************************************)
(* PART 2 -- the design: a transcription of sig_store.rs.                  *)
(***************************************************************************)
NB      == Pow2(cfg.bb)
NoIter  == [borrowed |-> FALSE, nb |-> 0, ns |-> 0, pend |-> <<>>]
Offline == cfg.kind = "offline"

SSInit(c) ==
    /\ cfg = c /\ phase = "sig" /\ pushed = <<>> /\ sbits = 0 /\ ssz = <<>>
    /\ buckets = [b \in 1 .. Pow2(c.bb) |-> <<>>]
    /\ bsz = Zeros(Pow2(c.bb))
    /\ fine = Zeros(Pow2(c.mb))
    /\ it = NoIter /\ emitted = <<>> /\ ref = <<>> /\ passok = TRUE /\ oob = FALSE

\* try_push (both back-ends)
Push(x) ==
    /\ phase = "sig"
    /\ LET b == TopBits(x[1], cfg.bb) + 1
           f == TopBits(x[1], cfg.mb) + 1
       IN  /\ buckets' = [buckets EXCEPT ![b] = Append(@, x)]
           /\ bsz' = [bsz EXCEPT ![b] = @ + 1]
           /\ fine' = [fine EXCEPT ![f] = @ + 1]
    /\ pushed' = Append(pushed, x)
    /\ UNCHANGED <<cfg, phase, sbits, ssz, it, emitted, ref, passok, oob>>

\* into_shard_store: shard_sizes.chunks(1 << (max - s)).map(sum)
IntoShardStore(s) ==
    /\ phase = "sig"
    /\ IF s <= cfg.mb
       THEN LET c == Pow2(cfg.mb - s) IN
            /\ ssz' = [k \in 1 .. (Len(fine) + c - 1) \div c |->
                         SumSeq(SubSeq(fine, (k - 1) * c + 1, Min2(k * c, Len(fine))))]
            /\ sbits' = s
            /\ phase' = "shard"
       ELSE /\ phase' = "dead"                          \* assert!: panic, store dropped
            /\ UNCHANGED <<sbits, ssz>>
    /\ UNCHANGED <<cfg, pushed, buckets, bsz, fine, it, emitted, ref, passok, oob>>

\* iter() / into_iter()
IterNew(borrowed) ==
    /\ phase = "shard"
    /\ it' = [borrowed |-> borrowed, nb |-> 0, ns |-> 0, pend |-> <<>>]
    /\ emitted' = <<>>
    /\ phase' = IF borrowed THEN "iter" ELSE "into"
    /\ UNCHANGED <<cfg, pushed, sbits, ssz, buckets, bsz, fine, ref, passok, oob>>

\* file-backed bucket: seek(0), then `n` records read in chunks of at most RB
RECURSIVE ReadChunks(_, _, _)
ReadChunks(file, pos, n) ==
    IF n = 0 THEN [data |-> <<>>, ok |-> TRUE]
    ELSE LET t == Min2(RB, n) IN
         IF pos + t > Len(file) THEN [data |-> <<>>, ok |-> FALSE]       \* read_exact fails
         ELSE LET r == ReadChunks(file, pos + t, n - t)
              IN  [data |-> SubSeq(file, pos + 1, pos + t) \o r.data, ok |-> r.ok]

\* "We move each signature/value pair into its shard"
RECURSIVE Distribute(_, _, _, _)
Distribute(recs, j, pend, off) ==
    IF j > Len(recs) THEN [pend |-> pend, ok |-> TRUE]
    ELSE LET t == TopBits(recs[j][1], sbits) IN
         IF t < off \/ t - off >= Len(pend) THEN [pend |-> pend, ok |-> FALSE]   \* usize underflow / VecDeque index
         ELSE Distribute(recs, j + 1, [pend EXCEPT ![t - off + 1] = Append(@, recs[j])], off)

None       == [some |-> FALSE, shard |-> <<>>, buckets |-> buckets, it |-> it, oob |-> FALSE]
OutOfRange == [some |-> FALSE, shard |-> <<>>, buckets |-> buckets, it |-> it, oob |-> TRUE]
Some(sh, bk, i, bad) == [some |-> TRUE, shard |-> sh, buckets |-> bk, it |-> i, oob |-> bad]
Emptied(lo, hi) == [i \in 1 .. Len(buckets) |-> IF i >= lo /\ i <= hi THEN <<>> ELSE buckets[i]]

\* memory-backed, bucket bits = shard bits: clone the Arc (borrowed) or take it
EqualStep ==
    IF it.nb >= Len(buckets) THEN None
    ELSE Some(buckets[it.nb + 1],
              IF it.borrowed THEN buckets ELSE Emptied(it.nb + 1, it.nb + 1),
              [it EXCEPT !.nb = @ + 1, !.ns = @ + 1], FALSE)

\* bucket bits >= shard bits (file-backed) / > shard bits (memory-backed)
AggStep ==
    IF it.nb >= Len(buckets) THEN None
    ELSE LET k  == Pow2(cfg.bb - sbits)
             lo == it.nb + 1
             hi == it.nb + k
         IN  IF it.ns + 1 > Len(ssz) \/ hi > Len(buckets) \/ hi > Len(bsz) THEN OutOfRange
             ELSE LET cap   == ssz[it.ns + 1]          \* Vec::with_capacity / set_len(len)
                      part(i) == IF Offline THEN ReadChunks(buckets[i], 0, bsz[i])
                                 ELSE [data |-> buckets[i], ok |-> TRUE]
                      data  == Flat([j \in 1 .. k |-> part(lo + j - 1).data])
                      okr   == \A i \in lo .. hi : part(i).ok
                      \* file-backed: every read goes into what is left of a buffer of `cap`
                      \* records, and the buffer must end up completely initialised
                      fits  == ~Offline \/ (SumSeq([j \in 1 .. k |-> bsz[lo + j - 1]]) = cap)
                  IN  Some(data,
                           IF it.borrowed THEN buckets ELSE Emptied(lo, hi),     \* set_len(0) / mem::take
                           [it EXCEPT !.nb = @ + k, !.ns = @ + 1],
                           ~okr \/ ~fits)

\* bucket bits < shard bits
SplitStep ==
    IF it.pend = <<>>
    THEN IF it.nb = Len(buckets) THEN None
         ELSE IF it.nb > Len(buckets) THEN OutOfRange
         ELSE LET k   == Pow2(sbits - cfg.bb)
                  off == it.nb * k
              IN  IF off + k > Len(ssz) THEN OutOfRange               \* store.shard_sizes[shard]
                  ELSE LET rd == IF Offline THEN ReadChunks(buckets[it.nb + 1], 0, bsz[it.nb + 1])
                                 ELSE [data |-> buckets[it.nb + 1], ok |-> TRUE]
                           d  == Distribute(rd.data, 1, [j \in 1 .. k |-> <<>>], off)
                       IN  Some(d.pend[1],
                                \* memory-backed consuming iteration drops the bucket; the
                                \* file-backed one leaves the file alone in this branch
                                IF it.borrowed \/ Offline THEN buckets ELSE Emptied(it.nb + 1, it.nb + 1),
                                [it EXCEPT !.nb = @ + 1, !.ns = @ + 1, !.pend = Tail(d.pend)],
                                ~rd.ok \/ ~d.ok)
    ELSE Some(it.pend[1], buckets, [it EXCEPT !.ns = @ + 1, !.pend = Tail(@)], FALSE)

NextRes ==
    IF Offline
    THEN (IF cfg.bb >= sbits THEN AggStep ELSE SplitStep)
    ELSE (IF cfg.bb = sbits THEN EqualStep ELSE IF cfg.bb > sbits THEN AggStep ELSE SplitStep)

Branch == IF cfg.bb < sbits THEN "split"
          ELSE IF ~Offline /\ cfg.bb = sbits THEN "equal" ELSE "aggregate"

\* the end of an iteration (exhausted, or the iterator dropped early): history
PassEnd(complete) ==
    /\ ref' = IF Len(emitted) > Len(ref) THEN emitted ELSE ref
    /\ passok' = (passok /\ (complete => (/\ Len(emitted) = Pow2(sbits)
                                          /\ BagOf(Flat(emitted)) = BagOf(pushed))))
    /\ emitted' = <<>>
    /\ it' = NoIter
    /\ phase' = IF it.borrowed THEN "shard" ELSE "done"

\* Iterator::next.  A None ends the pass (the iterator is dropped).
IterNext ==
    /\ phase \in {"iter", "into"}
    /\ LET r == NextRes IN
       /\ oob' = (oob \/ r.oob)
       /\ buckets' = r.buckets
       /\ IF r.some
          THEN /\ emitted' = Append(emitted, r.shard)
               /\ it' = r.it
               /\ UNCHANGED <<phase, ref, passok>>
          ELSE PassEnd(TRUE)
    /\ UNCHANGED <<cfg, pushed, sbits, ssz, bsz, fine>>

\* the iterator is dropped before it is exhausted
IterDrop ==
    /\ phase \in {"iter", "into"}
    /\ PassEnd(FALSE)
    /\ UNCHANGED <<cfg, pushed, sbits, ssz, buckets, bsz, fine, oob>>

(***************************************************************************)
(* PART 3 -- what C18 says, as invariants of the design.                   *)
(***************************************************************************)
TopIs(x, b, v) == TopBits(x[1], b) = v
Members(k)     == SelectSeq(pushed, LAMBDA x : TopIs(x, sbits, k - 1))   \* the k-th shard, in push order

TypeOK ==
    /\ phase \in {"sig", "shard", "iter", "into", "done", "dead"}
    /\ cfg.kind \in {"online", "offline"}
    /\ Len(buckets) = NB /\ Len(bsz) = NB /\ Len(fine) = Pow2(cfg.mb)
    /\ oob \in BOOLEAN

\* push: bucket sort by the top bits, counters exact (the counters and `pushed`
\* change in phase "sig" only; the buckets also during a consuming iteration)
StoreInv ==
    /\ phase = "sig" => (bsz = CountTops(pushed, cfg.bb) /\ fine = CountTops(pushed, cfg.mb))
    /\ \A b \in 1 .. NB : \A j \in 1 .. Len(buckets[b]) : TopIs(buckets[b][j], cfg.bb, b - 1)
    /\ phase \in {"sig", "shard", "iter"} =>
          /\ \A b \in 1 .. NB : Len(buckets[b]) = bsz[b]
          /\ BagOf(Flat(buckets)) = BagOf(pushed)

\* shard_sizes() = aggregated fine counters = actual number of pairs per shard; 2^s of them
\* (ssz changes in into_shard_store only; "shard" is the phase it leads to and
\* the phase every borrowed iteration returns to)
SizesInv ==
    phase = "shard" =>
        /\ Len(ssz) = Pow2(sbits)
        /\ ssz = CountTops(pushed, sbits)
        /\ SumSeq(ssz) = Len(pushed)

\* every shard returned so far is exactly the multiset of the pushed pairs with
\* that value of the top bits, and has the announced size
ShardsGood(shs) ==
    /\ Len(shs) <= Pow2(sbits)
    /\ \A k \in 1 .. Len(shs) :
          /\ \A j \in 1 .. Len(shs[k]) : TopIs(shs[k][j], sbits, k - 1)
          /\ BagOf(shs[k]) = BagOf(Members(k))
          /\ Len(shs[k]) = ssz[k]

PrefixInv == phase \in {"iter", "into"} => (ShardsGood(emitted) /\ it.ns = Len(emitted) /\ it.ns <= Len(ssz))

\* a complete iteration returns 2^s shards whose union is the pushed multiset
\* (evaluated by PassEnd when next() returns None, remembered in passok)
PassInv == passok /\ (phase \in {"shard", "done"} => ShardsGood(ref))

\* repeated borrowed iterations and the consuming one agree: whatever the
\* current iterator has returned coincides with what earlier ones returned
\* (the transcribed algorithm is deterministic: they agree as sequences)
AgreeInv ==
    LET m == Min2(Len(emitted), Len(ref)) IN
    phase \in {"iter", "into"} => SubSeq(emitted, 1, m) = SubSeq(ref, 1, m)

\* Part 1 accepts what part 2 does: the witness the recorder attaches to a
\* returned pair (the index of the c-th pushed pair equal to it, for its c-th
\* occurrence in the shard; 0 if there is none) makes ShardWhy answer "ok" for
\* every shard the transcribed iterators return.
OccIdx(x, c) ==
    LET idx == {i \in 1 .. Len(pushed) : pushed[i] = x}
        hit == {i \in idx : Cardinality({j \in idx : j <= i}) = c}
    IN  IF hit = {} THEN 0 ELSE CHOOSE i \in hit : TRUE
Witness(sh) ==
    [j \in 1 .. Len(sh) |-> <<sh[j][1], sh[j][2], OccIdx(sh[j], Cardinality({i \in 1 .. j : sh[i] = sh[j]}))>>]
WitnessInv ==
    phase \in {"iter", "into"} => \A k \in 1 .. Len(emitted) : ShardWhy(k, Witness(emitted[k])) = "ok"

\* no indexed access of the transcription is out of range, no read fails,
\* no uninitialised record is returned
NoOOB == ~oob

\* design and contract agree on what into_shard_store / shard_sizes return
ContractInv ==
    phase = "sig" =>
        \A s \in 0 .. cfg.mb :
            LET x == Eff([op |-> "into_shard_store", s |-> s]) IN
            /\ x.out = "ret" /\ x.ph = "shard"
            /\ x.sz = [k \in 1 .. Pow2(s) |->
                         SumSeq(SubSeq(fine, (k - 1) * Pow2(cfg.mb - s) + 1, k * Pow2(cfg.mb - s)))]
=============================================================================
