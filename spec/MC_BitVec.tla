------------------------------ MODULE MC_BitVec ------------------------------
(***************************************************************************)
(* Bounded instances of BitVec:                                            *)
(*  - MC_BitVec_small.cfg : W = 4, every operation with every argument,    *)
(*    every garbage pattern; all design invariants in every reachable      *)
(*    state (exhaustive; history hidden by VIEW).                          *)
(*  - MC_BitVec_w64*.cfg  : W = 64 (the real word size), argument menus at *)
(*    the word boundaries; every history of Depth mutators is exported as  *)
(*    a script for the executor (spec -> implementation direction).        *)
(***************************************************************************)
EXTENDS BitVec, TLC, Json

CONSTANTS MaxWords,      \* state constraint: backend words
          Depth,         \* number of mutating operations per exported history
          Lens,          \* menu of lengths / resize targets
          Export         \* TRUE: print scripts; FALSE: exhaustive design check

VARIABLE hist
mcvars == <<abs, store, nw, form, tight, hist>>

B == {TRUE, FALSE}

\* ----- menus ------------------------------------------------------------
Idx == {0, BLen - 1, BLen, W - 1, W, W + 1} \cap Nat

SmallIdx == Low(BLen + 1)

CtorMenu ==
    { [op |-> "new", n |-> n] : n \in Lens }
    \cup { [op |-> "with_value", n |-> n, v |-> TRUE] : n \in Lens }
    \cup { [op |-> "collect", bits |-> bs] : bs \in {<<>>, <<TRUE>>, <<FALSE, TRUE, TRUE>>} }
    \cup { [op |-> "with_capacity", c |-> c] : c \in {0, W + 1} }

\* raw constructors over dirty storage: rlen from Lens, one spare word or none,
\* garbage = everything beyond rlen set, or alternating bits everywhere
Dirty ==
    UNION { UNION { { [op |-> "raw", rlen |-> n, rnw |-> k, rstore |-> Asc(s)] :
                        s \in { Rng(n, k * W), {p \in Low(k * W) : p % 2 = 0}, Low(k * W) } } :
                    k \in {CeilDiv(n, W), CeilDiv(n, W) + 1} } :
            n \in Lens }

AllRaw ==   \* small model: every backend content of up to two words, every length
    UNION { UNION { { [op |-> "raw", rlen |-> n, rnw |-> k, rstore |-> Asc(s)] :
                        s \in SUBSET Low(k * W) } :
                    n \in 0 .. (k * W) } :
            k \in 0 .. 2 }

Mutators(I) ==
    { [op |-> "push", b |-> b] : b \in B }
    \cup { [op |-> "pop"] }
    \cup { [op |-> "set", i |-> i, b |-> b] : i \in I, b \in B }
    \cup { [op |-> "resize", n |-> n, v |-> v] : n \in Lens, v \in B }
    \cup { [op |-> "fill", v |-> v] : v \in B }
    \cup { [op |-> "flip"], [op |-> "reset"] }
    \cup { [op |-> "extend", bits |-> bs] : bs \in {<<TRUE>>, <<FALSE, TRUE>>} }
    \cup { [op |-> "into", to |-> t] : t \in {"boxed", "vec", "atomic", "atomic_boxed"} }
    \cup { [op |-> "a_set", i |-> i, b |-> b] : i \in I, b \in B }
    \cup { [op |-> "a_swap", i |-> i, b |-> b] : i \in I, b \in B }
    \cup { [op |-> "a_fill", v |-> v] : v \in B }
    \cup { [op |-> "a_flip"], [op |-> "a_reset"] }

\* observers appended to every exported history (all are checked by the trace spec)
Battery ==
    IF form \in {"vec", "boxed"}
    THEN <<[op |-> "len"], [op |-> "iter"], [op |-> "iter_ones"], [op |-> "iter_zeros"],
           [op |-> "count_ones"], [op |-> "count_zeros"], [op |-> "par_count_ones"],
           [op |-> "get", i |-> BLen], [op |-> "to_owned"], [op |-> "mem_size"],
           [op |-> "eq_other", olen |-> BLen, onw |-> nw, ostore |-> Asc(store \cap Low(BLen))],
           [op |-> "eq_other", olen |-> BLen, onw |-> nw,
            ostore |-> Asc((store \cap Low(BLen)) \cup Rng(BLen, nw * W))]>>
    ELSE <<[op |-> "a_len"], [op |-> "a_iter"], [op |-> "a_count_ones"], [op |-> "a_count_zeros"],
           [op |-> "a_par_count_ones"], [op |-> "a_get", i |-> BLen]>>

\* ----- behaviour --------------------------------------------------------
MCInit == BVInit /\ hist = <<>>

Construct == /\ form = "none"
             /\ \E op \in (IF Export THEN CtorMenu \cup Dirty ELSE CtorMenu \cup AllRaw) :
                    Do(op) /\ hist' = <<op>>

Mutate == /\ form # "none"
          /\ (~Export \/ Len(hist) <= Depth)
          /\ \E op \in Mutators(IF Export THEN Idx ELSE SmallIdx) :
               /\ Applicable(op)
               /\ Eff(op, CodeGrowth(op)).out = "ret"
               /\ Do(op)
               /\ hist' = IF Export THEN Append(hist, op) ELSE hist

MCNext == Construct \/ Mutate
MCSpec == MCInit /\ [][MCNext]_mcvars

Bound == nw <= MaxWords /\ BLen <= MaxWords * W

View == <<abs, store, nw, form, tight>>

\* one line per complete history
Emit == (Export /\ Len(hist) = Depth + 1) =>
            PrintT(<<"SCRIPT", ToJson([fam |-> "bitvec", src |-> "tlc", ops |-> hist \o Battery])>>)

\* a panic must leave everything unchanged, whatever the operation (checked on
\* the whole menu in every state, including arguments out of range)
PanicsAreClean ==
    \A op \in Mutators({0, BLen, BLen + 1}) :
        LET x == Eff(op, CodeGrowth(op)) IN x.out = "panic" => x.st = Same

\* every growth choice made by the code is admissible
CodeGrowthOK ==
    \A op \in Mutators(SmallIdx) :
        (Applicable(op) /\ Eff(op, CodeGrowth(op)).out = "ret")
            => GrowOK(op, Eff(op, CodeGrowth(op)).st.abs, CodeGrowth(op))
=============================================================================
