----------------------------- MODULE RearCoded -----------------------------
(***************************************************************************)
(* sux::dict::RearCodedListBuilder / RearCodedList as a plain list of      *)
(* strings (property C09, the rear-coded-list parts of C12 and C15).       *)
(*                                                                         *)
(* Abstract state: `strs`, the sequence of strings pushed so far (a string *)
(* is a sequence of byte values 1..255: no NUL), the block size `k` and    *)
(* the `phase` (no object yet / builder / built list).  How the strings    *)
(* are stored is not part of this module: RCLDesign.tla transcribes the    *)
(* block coding and is checked against the operators below.                *)
(*                                                                         *)
(* Every public operation is an operator  Eff(op)  giving, for the         *)
(* operation record `op` (same field names as the JSON scripts/traces),    *)
(* the set of admissible outcomes, how the result is to be compared and    *)
(* the next state.                                                         *)
(***************************************************************************)
EXTENDS Naturals, Sequences, FiniteSets, SequencesExt

VARIABLES phase, k, strs
rcvars == <<phase, k, strs>>

Phases == {"none", "builder", "built"}
N      == Len(strs)

IsString(s) == \A c \in DOMAIN s : s[c] \in 1 .. 255
TypeOK == /\ phase \in Phases
          /\ k \in Nat
          /\ \A i \in DOMAIN strs : IsString(strs[i])
          /\ (phase = "none" => strs = <<>>)

CeilDiv(a, b) == (a + b - 1) \div b
MinOf(a, b)   == IF a < b THEN a ELSE b

(***************************************************************************)
(* Which operations exist in which phase.  get_unchecked is documented as  *)
(* unchecked: it exists only inside its precondition.                      *)
(***************************************************************************)
BuilderOps == {"push", "extend", "blen", "print_stats", "build"}
WholeIter  == {"iter", "into_iter", "lend", "into_lender", "clone"}
FromIter   == {"iter_from", "into_iter_from", "lend_from"}
ListOps    == {"len", "len_trait", "is_empty", "get", "get_unchecked", "get_in_place",
               "index_of", "contains", "mem_size", "reload"} \cup WholeIter \cup FromIter

Applicable(op) ==
    \/ op.op = "new"
    \/ op.op \in BuilderOps /\ phase = "builder"
    \/ op.op \in ListOps /\ phase = "built" /\ (op.op = "get_unchecked" => op.i < N)

(***************************************************************************)
(* Results.  rk says how the logged result is compared:                    *)
(*   none   nothing to compare                                             *)
(*   val    res equals x.res                                               *)
(*   iter   the yielded strings equal x.res and the remaining-length hints *)
(*          (len(), both ends of size_hint()) sampled before every next()  *)
(*          equal x.hints                                                  *)
(*   empty  nothing is yielded (start position past the end: the property  *)
(*          fixes no hints there)                                          *)
(*   index  res is an index holding op.s iff op.s was pushed               *)
(*   bound  res <= x.res                                                   *)
(***************************************************************************)
St(p, kk, s) == [phase |-> p, k |-> kk, strs |-> s]
Same         == St(phase, k, strs)
Ret(r)       == [outs |-> {"ret"}, rk |-> "val", res |-> r, hints |-> <<>>, st |-> Same]
Unit(s)      == [outs |-> {"ret"}, rk |-> "none", res |-> <<>>, hints |-> <<>>, st |-> s]
Panic        == [outs |-> {"panic"}, rk |-> "none", res |-> <<>>, hints |-> <<>>, st |-> Same]

HasNul(s)       == \E i \in 1 .. Len(s) : s[i] = 0
Holds(s)        == \E i \in 1 .. N : strs[i] = s
IndexOK(s, r)   == IF Holds(s)
                   THEN Len(r) = 1 /\ r[1] \in 0 .. (N - 1) /\ strs[r[1] + 1] = s
                   ELSE r = <<>>

\* what an iteration started at position j yields, with the exact hints
TailFrom(j)      == SubSeq(strs, j + 1, N)
HintsFrom(j) == [t \in 1 .. (N - j + 1) |-> N - j - (t - 1)]
IterFrom(j) ==
    IF j <= N
    THEN [outs |-> {"ret"}, rk |-> "iter", res |-> TailFrom(j), hints |-> HintsFrom(j), st |-> Same]
    \* out of domain (C12): a panic, or an iteration that yields nothing
    ELSE [outs |-> {"ret", "panic"}, rk |-> "empty", res |-> <<>>, hints |-> <<>>, st |-> Same]

(***************************************************************************)
(* Space (not part of C09/C11, which do not name this structure: a sanity  *)
(* bound only).  A string costs at most its bytes, its terminator and a    *)
(* rear length of at most 9 bytes; a block costs one 8-byte pointer; the   *)
(* constant covers the struct itself: k, len, is_sorted (24 bytes) and the *)
(* two backends, 16 bytes each as boxed slices or borrowed slices, 24 as   *)
(* vectors (72 bytes at most on a 64-bit target), rounded up to 128.       *)
(***************************************************************************)
SumLen   == FoldSeq(LAMBDA s, acc : acc + Len(s), 0, strs)
Blocks   == IF N = 0 THEN 0 ELSE IF k >= N \/ k = 0 THEN 1 ELSE CeilDiv(N, k)   \* (k may be the "huge" sentinel)
MemBound == SumLen + 10 * N + 8 * Blocks + 128

(***************************************************************************)
(* Eff(op): admissible outcomes, result and next state of one public call. *)
(***************************************************************************)
Eff(op) ==
    LET o == op.op IN
    IF ~Applicable(op) THEN [outs |-> {"na"}, rk |-> "none", res |-> <<>>, hints |-> <<>>, st |-> Same]
    ELSE CASE
       o = "new"     -> Unit(St("builder", op.k, <<>>))
    [] o = "push"    -> Unit(St(phase, k, Append(strs, op.s)))
    [] o = "extend"  -> Unit(St(phase, k, strs \o op.strs))
    [] o = "blen"    -> Ret(N)
    \* diagnostic printing: the properties say nothing about it; like every call
    \* it must return or panic (C12) and it must not disturb the builder
    [] o = "print_stats" -> [outs |-> {"ret", "panic"}, rk |-> "none", res |-> <<>>, hints |-> <<>>, st |-> Same]
    [] o = "build"   -> Unit(St("built", k, strs))
    [] o \in {"len", "len_trait"} -> Ret(N)
    [] o = "is_empty" -> Ret(N = 0)
    [] o \in {"get", "get_in_place"} -> IF op.i < N THEN Ret(strs[op.i + 1]) ELSE Panic
    [] o = "get_unchecked" -> Ret(strs[op.i + 1])
    [] o \in WholeIter -> IterFrom(0)
    [] o \in FromIter  -> IterFrom(op.j)
    \* a key holding a NUL byte is outside the domain of the structure (strings
    \* without NUL; stored strings are NUL-terminated and compared as C strings,
    \* so "ab\0" may be answered like "ab"): C12 only -- the call returns or
    \* panics, whatever it answers
    [] o \in {"index_of", "contains"} /\ HasNul(op.s) ->
            [outs |-> {"ret", "panic"}, rk |-> "none", res |-> <<>>, hints |-> <<>>, st |-> Same]
    [] o = "index_of"  -> [outs |-> {"ret"}, rk |-> "index", res |-> <<>>, hints |-> <<>>, st |-> Same]
    [] o = "contains"  -> Ret(Holds(op.s))
    [] o = "mem_size"  -> [outs |-> {"ret"}, rk |-> "bound", res |-> MemBound, hints |-> <<>>, st |-> Same]
    \* serialize + load back (C15): the list is the same list
    [] o = "reload"    -> Unit(Same)

RCInit == phase = "none" /\ k = 0 /\ strs = <<>>
Install(s) == phase' = s.phase /\ k' = s.k /\ strs' = s.strs
=============================================================================
