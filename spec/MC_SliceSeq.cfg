SPECIFICATION MCSpec
CONSTANTS
  MaxN = 4
  MaxV = 2
  Export = FALSE
INVARIANTS SkipOK Total EqOK
CHECK_DEADLOCK FALSE
