SPECIFICATION MCSpec
CONSTANTS
  WT = "u8"
  Widths = {0, 1, 2, 3, 4, 5, 6, 7, 8}
  MaxWords = 3
  Depth = 2
  Export = TRUE
  Garbage = FALSE
  Heavy = FALSE
INVARIANTS Refines LargeEnough Emit
CHECK_DEADLOCK FALSE
