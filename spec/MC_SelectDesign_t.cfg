SPECIFICATION MCSpec
CONSTANTS
  W = 2
  E16 = 1
  E32 = 2
  Capped = TRUE
  MaxWords = 5
  Ls = {0, 1, 2, 3, 4}
  Ms = {0, 1, 2, 3}
INVARIANTS DesignOK
CHECK_DEADLOCK FALSE
