SPECIFICATION MCSpec
CONSTANTS
  BITS = 2
  Fixed = TRUE
  Ks = {1, 2, 3}
  Alphabet = {1, 2}
  MaxLen = 2
  MaxN = 4
  Over = 2
  CodeVals = {0}
  Export = TRUE
INVARIANTS Emit
CHECK_DEADLOCK FALSE
