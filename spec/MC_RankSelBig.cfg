SPECIFICATION MCSpec
CONSTANT N = 9
INVARIANT DefsOK
CHECK_DEADLOCK FALSE
