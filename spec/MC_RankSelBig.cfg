SPECIFICATION MCSpec
CONSTANT N = 8
INVARIANT DefsOK
CHECK_DEADLOCK FALSE
