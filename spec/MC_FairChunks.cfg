SPECIFICATION MCSpec
CONSTANTS
  MaxN = 5
  MaxWt = 3
  MaxT = 6
  Export = FALSE
INVARIANTS Consistent AllChunksOK Partition Terminates
CHECK_DEADLOCK FALSE
