SPECIFICATION MCSpec
CONSTANTS
  MaxBits = 2
  MaxL = 4
  MaxS = 2
  MaxT = 5
  B = 4
  NMenu = {}
  BigN = {}
  XImpls <- XAll
  Export = FALSE
INVARIANTS ParametricIsDesign DesignImpliesProperty CodeRefinesDesign WideOK
CHECK_DEADLOCK FALSE
