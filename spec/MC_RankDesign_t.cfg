SPECIFICATION MCSpec
CONSTANTS
  W = 4
  Masked = TRUE
  MaxWords = 3
  Layouts <- LayoutsB
INVARIANTS DesignOK SpaceDesignOK
CHECK_DEADLOCK FALSE
