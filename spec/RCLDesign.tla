----------------------------- MODULE RCLDesign -----------------------------
(***************************************************************************)
(* Design-level transcription of src/dict/rear_coded_list.rs, checked      *)
(* against the abstract list of RearCoded.tla.                             *)
(*                                                                         *)
(* Design state (what the builder / the list really hold):                 *)
(*   data    the encoded bytes: per block of k strings the first string    *)
(*           verbatim, every other string as  encode_int(rear) ++ suffix,  *)
(*           each followed by a 0 byte                                     *)
(*   ptrs    offset in data of the first string of every block             *)
(*   sorted  the is_sorted flag maintained by push                         *)
(*   last    last_str, the previous string (for the common prefix)         *)
(* `k`, `len` are the k and N of RearCoded.                                *)
(*                                                                         *)
(* A byte has BITS bits (8 in the code).  The variable-byte code of the    *)
(* rear lengths is transcribed for any BITS: level n (1..BITS) has n-1     *)
(* leading one bits, a zero bit, BITS-n payload bits in the first byte and *)
(* n-1 further bytes, and codes the values UB(n-1) .. UB(n)-1; beyond      *)
(* UB(BITS) the marker byte of all ones is followed by BITS full bytes     *)
(* holding the value itself.  With BITS = 8 these are the constants        *)
(* UPPER_BOUND_1 = 128, UPPER_BOUND_2 = 16512, ... of the code; the        *)
(* exhaustive model uses BITS = 2 (boundaries 2 and 6) so that strings of  *)
(* one or two characters already cross them.                               *)
(*                                                                         *)
(* Every array read is bounds-checked: an operator that reads outside      *)
(* `data` or `ptrs` reports it (the Rust code panics there, it contains no *)
(* unchecked access), and every subtraction of unsigned numbers reports an *)
(* underflow ("wild": a panic with overflow checks, an arbitrary length in *)
(* release builds).                                                        *)
(*                                                                         *)
(* Style note: intermediate results are passed as operator parameters      *)
(* (`XK(..., r)` called as `XK(..., F(...))`) instead of being LET-bound.  *)
(* TLC's coverage cost model (-coverage 1, used for vacuity control)       *)
(* expands a LET definition at every reference, which is exponential in    *)
(* the nesting of the transcription; parameters are expanded once.         *)
(***************************************************************************)
EXTENDS RearCoded

CONSTANTS BITS,     \* bits per byte
          Fixed     \* TRUE: Lend::new_from with the start-at-the-end guard and the
                    \* early exit of its skipping loop (the repaired code);
                    \* FALSE: the code as pinned

VARIABLES data, ptrs, sorted, last
dvars == <<data, ptrs, sorted, last>>

Pow2(n) == 2 ^ n
RAD     == 2 ^ BITS                         \* number of byte values

(***************************************************************************)
(* encode_int / decode_int / encode_int_len                                *)
(***************************************************************************)
Payload(n) == (2 ^ (BITS - n)) * (2 ^ ((n - 1) * BITS))   \* how many values level n codes
UB[n \in 0 .. BITS] == IF n = 0 THEN 0 ELSE Payload(n) + UB[n - 1]   \* UPPER_BOUND_n
Prefix(n)  == RAD - 2 ^ (BITS - n + 1)                    \* n-1 leading ones (0x00 0x80 0xC0 ...)

\* the m bytes of w, most significant first
BigEndian(w, m) == [t \in 1 .. m |-> (w \div (2 ^ ((m - t) * BITS))) % RAD]

RECURSIVE Level(_, _)      \* level whose range holds v; 0 = the marker form
Level(v, n) == IF n > BITS THEN 0 ELSE IF v < UB[n] THEN n ELSE Level(v, n + 1)

EncodeLevel(w, n) ==       \* w = v - UB[n-1], on n bytes
    <<Prefix(n) + (w \div (2 ^ ((n - 1) * BITS)))>> \o BigEndian(w % (2 ^ ((n - 1) * BITS)), n - 1)
EncodeIntK(v, n) ==
    IF n = 0 THEN <<RAD - 1>> \o BigEndian(v, BITS) ELSE EncodeLevel(v - UB[n - 1], n)
EncodeInt(v) == EncodeIntK(v, Level(v, 1))

\* encode_int_len: the loop `while value >= max { len += 1; value -= max; max <<= 7 }`
RECURSIVE EncLenLoop(_, _, _)
EncLenLoop(v, max, len) == IF v >= max THEN EncLenLoop(v - max, max * (2 ^ (BITS - 1)), len + 1) ELSE len
EncodeIntLen(v) == EncLenLoop(v, 2 ^ (BITS - 1), 1)

Bad == [ok |-> FALSE, val |-> 0, next |-> 0]
Good(v, nx) == IF v < 0 THEN Bad ELSE [ok |-> TRUE, val |-> v, next |-> nx]

RECURSIVE DLevel(_, _)     \* level announced by a first byte x; 0 = the marker
DLevel(x, n) == IF n > BITS THEN 0 ELSE IF x < Prefix(n + 1) THEN n ELSE DLevel(x, n + 1)

RECURSIVE BEVal(_, _, _, _)   \* acc extended by the m bytes at offset p (bounds-checked); -1 = out of bounds
BEVal(d, p, m, acc) == IF m = 0 THEN acc
                       ELSE IF p >= Len(d) THEN 0 - 1
                       ELSE BEVal(d, p + 1, m - 1, acc * RAD + d[p + 1])

\* decode_int(&data[p..]): the value and the offset after the code
DecodeIntK(d, p, x, n) ==
    IF n = 0 THEN Good(BEVal(d, p + 1, BITS, 0), p + BITS + 1)
    ELSE Good(BEVal(d, p + 1, n - 1, x - Prefix(n)), p + n)
AddUB(r, n) == IF r.ok /\ n > 0 THEN [ok |-> TRUE, val |-> r.val + UB[n - 1], next |-> r.next] ELSE r
DecodeIntX(d, p, x, n) == AddUB(DecodeIntK(d, p, x, n), n)
DecodeInt(d, p) == IF p >= Len(d) THEN Bad ELSE DecodeIntX(d, p, d[p + 1], DLevel(d[p + 1], 1))

\* the code is a bijection with the announced lengths (checked on a value menu)
CodeOKK(v, e) ==
    /\ \A t \in DOMAIN e : e[t] \in 0 .. (RAD - 1)
    /\ Len(e) = EncodeIntLen(v)
    /\ DecodeInt(e, 0) = [ok |-> TRUE, val |-> v, next |-> Len(e)]
    /\ DecodeInt(<<0>> \o e \o <<1, 1>>, 1) = [ok |-> TRUE, val |-> v, next |-> Len(e) + 1]
    /\ \A cut \in 0 .. (Len(e) - 1) : ~DecodeInt(SubSeq(e, 1, cut), 0).ok    \* truncated: detected
CodeOK(vals) == \A v \in vals : CodeOKK(v, EncodeInt(v))

(***************************************************************************)
(* strcpy, longest_common_prefix, strcmp, strcmp_rust                      *)
(***************************************************************************)
\* strcpy(&data[p..], result = acc): append bytes up to the terminator
RECURSIVE StrCpy(_, _, _)
StrCpy(d, p, acc) ==
    IF p >= Len(d) THEN [ok |-> FALSE, str |-> acc, next |-> p]
    ELSE IF d[p + 1] = 0 THEN [ok |-> TRUE, str |-> acc, next |-> p + 1]
    ELSE StrCpy(d, p + 1, Append(acc, d[p + 1]))

Cmp(a, b) == IF a < b THEN "lt" ELSE IF a > b THEN "gt" ELSE "eq"

RECURSIVE LcpLoop(_, _, _)
LcpLoop(a, b, i) == IF i < MinOf(Len(a), Len(b)) /\ a[i + 1] = b[i + 1] THEN LcpLoop(a, b, i + 1) ELSE i
\* longest_common_prefix(a, b) = (lcp, a cmp b)
LCPK(a, b, i) == [lcp |-> i,
                  ord |-> IF i < MinOf(Len(a), Len(b)) THEN Cmp(a[i + 1], b[i + 1]) ELSE Cmp(Len(a), Len(b))]
LCP(a, b) == LCPK(a, b, LcpLoop(a, b, 0))

\* strcmp(string = s, &data[p..]): "lt" "eq" "gt", or "oob" for a read outside data
RECURSIVE StrCmp(_, _, _)
StrCmp(s, p, i) ==
    IF i < Len(s)
    THEN IF p + i >= Len(data) THEN "oob"
         ELSE IF s[i + 1] # data[p + i + 1] THEN Cmp(s[i + 1], data[p + i + 1])
         ELSE StrCmp(s, p, i + 1)
    ELSE IF p + Len(s) >= Len(data) THEN "oob"
         ELSE IF data[p + Len(s) + 1] = 0 THEN "eq" ELSE "lt"

\* strcmp_rust(string = s, other = o): the order of o relative to s (o is
\* read with an implicit 0 beyond its end)
OtherAt(o, i) == IF i < Len(o) THEN o[i + 1] ELSE 0
RECURSIVE StrCmpRust(_, _, _)
StrCmpRust(s, o, i) ==
    IF i < Len(s)
    THEN IF OtherAt(o, i) # s[i + 1] THEN Cmp(OtherAt(o, i), s[i + 1]) ELSE StrCmpRust(s, o, i + 1)
    ELSE Cmp(Len(o), Len(s))

(***************************************************************************)
(* RearCodedListBuilder::push                                              *)
(***************************************************************************)
DPushK(s, c) ==
    /\ sorted' = (sorted /\ c.ord # "gt")
    /\ IF N % k = 0
       THEN /\ ptrs' = Append(ptrs, Len(data))
            /\ data' = data \o s \o <<0>>
       ELSE /\ ptrs' = ptrs
            /\ data' = data \o EncodeInt(Len(last) - c.lcp) \o SubSeq(s, c.lcp + 1, Len(s)) \o <<0>>
    /\ last' = s
DPush(s) == DPushK(s, LCP(last, s))

DInit == data = <<>> /\ ptrs = <<>> /\ sorted = TRUE /\ last = <<>>

(***************************************************************************)
(* Decoding: the common step "drop rear bytes of the buffer, append the    *)
(* suffix" of get_in_place, Lend::next and index_of_sorted.                *)
(***************************************************************************)
\* r: "ok" | "panic" (bounds check) | "wild" (unsigned underflow)
StepC(c) == [r |-> IF c.ok THEN "ok" ELSE "panic", str |-> c.str, next |-> c.next]
StepK(buf, p, di) ==
    IF ~di.ok THEN [r |-> "panic", str |-> buf, next |-> p]
    ELSE IF di.val > Len(buf) THEN [r |-> "wild", str |-> buf, next |-> p]
    ELSE StepC(StrCpy(data, di.next, SubSeq(buf, 1, Len(buf) - di.val)))
Step(buf, p) == StepK(buf, p, DecodeInt(data, p))

Res(o, r) == [out |-> o, res |-> r, hints |-> <<>>]

\* ---- RearCodedList::get_in_place(index)
RECURSIVE GetLoop(_, _, _)
GetLoopK(s, c) == IF s.r # "ok" THEN Res(s.r, <<>>) ELSE GetLoop(s.str, s.next, c - 1)
GetLoop(buf, p, c) == IF c = 0 THEN Res("ret", buf) ELSE GetLoopK(Step(buf, p), c)

DGetK(h, offset) == IF ~h.ok THEN Res("panic", <<>>) ELSE GetLoop(h.str, h.next, offset)
DGet(i) ==
    IF i \div k >= Len(ptrs) THEN Res("panic", <<>>)               \* pointers[block]
    ELSE DGetK(StrCpy(data, ptrs[(i \div k) + 1], <<>>), i % k)

\* ---- Lend: state [idx, p, buf]; Lend::next
LendHead(st, c) ==
    [r |-> IF c.ok THEN "item" ELSE "panic", item |-> c.str,
     st |-> [idx |-> st.idx + 1, p |-> c.next, buf |-> c.str]]
LendRear(st, s) ==
    [r |-> IF s.r = "ok" THEN "item" ELSE s.r, item |-> s.str,
     st |-> [idx |-> st.idx + 1, p |-> s.next, buf |-> s.str]]
LendNext(st) ==
    IF st.idx >= N THEN [r |-> "none", item |-> <<>>, st |-> st]
    ELSE IF st.idx % k = 0 THEN LendHead(st, StrCpy(data, st.p, <<>>))
    ELSE LendRear(st, Step(st.buf, st.p))

\* Lend::new
LendNew == [idx |-> 0, p |-> 0, buf |-> <<>>]

RECURSIVE Advance(_, _, _)     \* `for _ in 0..offset { if res.next().is_none() { break; } }`
\* calls = how many times next() was called (the pinned code has no break:
\* it calls next() offset times whatever it returns)
AdvanceK(st, c, n, nx) ==
    IF nx.r \in {"panic", "wild"} THEN [r |-> nx.r, st |-> st, calls |-> n + 1]
    ELSE IF Fixed /\ nx.r = "none" THEN [r |-> "ok", st |-> st, calls |-> n + 1]
    ELSE Advance(nx.st, c - 1, n + 1)
Advance(st, c, n) == IF c = 0 THEN [r |-> "ok", st |-> st, calls |-> n] ELSE AdvanceK(st, c, n, LendNext(st))

\* Lend::new_from(from)
LendNewFrom(from) ==
    IF Fixed /\ from = N
    THEN [r |-> "ok", st |-> [idx |-> N, p |-> Len(data), buf |-> <<>>], calls |-> 0]   \* nothing left to decode
    ELSE IF from \div k >= Len(ptrs) THEN [r |-> "panic", st |-> LendNew, calls |-> 0]   \* pointers[block]
    ELSE Advance([idx |-> (from \div k) * k, p |-> ptrs[(from \div k) + 1], buf |-> <<>>], from % k, 0)

\* drive a lender to its end: items and the len() sampled before every next()
RECURSIVE Drive(_, _, _)
DriveK(items, hs, nx) ==
    IF nx.r = "none" THEN [out |-> "ret", res |-> items, hints |-> hs]
    ELSE IF nx.r = "item" THEN Drive(nx.st, Append(items, nx.item), hs)
    ELSE [out |-> nx.r, res |-> items, hints |-> hs]
Drive(st, items, hints) ==
    IF st.idx > N THEN [out |-> "wild", res |-> items, hints |-> hints]     \* len() = rca.len - index
    ELSE DriveK(items, Append(hints, N - st.idx), LendNext(st))

DIterFromK(s) == IF s.r # "ok" THEN [out |-> s.r, res |-> <<>>, hints |-> <<>>]
                 ELSE Drive(s.st, <<>>, <<>>)
DIterFrom(j) == DIterFromK(LendNewFrom(j))
DIntoLender  == Drive(LendNew, <<>>, <<>>)

\* ---- index_of_unsorted: enumerate the lender, first string equal to s
RECURSIVE ScanAll(_, _)
ScanAllK(s, st, nx) ==
    IF nx.r = "none" THEN Res("ret", <<>>)
    ELSE IF nx.r # "item" THEN Res(nx.r, <<>>)
    ELSE IF StrCmpRust(s, nx.item, 0) = "eq" THEN Res("ret", <<st.idx>>)
    ELSE ScanAll(s, nx.st)
ScanAll(s, st) == ScanAllK(s, st, LendNext(st))
DIndexOfUnsorted(s) == ScanAll(s, LendNew)

\* ---- index_of_sorted: binary search over the block heads (any matching
\* head may be reported: the contract of slice::binary_search_by), then a scan
\* of the block before the insertion point
RECURSIVE BSearch(_, _, _)
BSearchK(s, lo, hi, mid, c) ==
    IF c = "oob" THEN [r |-> "oob", at |-> mid]
    ELSE IF c = "eq" THEN [r |-> "ok", at |-> mid]
    ELSE IF c = "gt" THEN BSearch(s, mid + 1, hi)     \* head < s
    ELSE BSearch(s, lo, mid)
BSearch(s, lo, hi) ==
    IF lo >= hi THEN [r |-> "err", at |-> lo]
    ELSE BSearchK(s, lo, hi, (lo + hi) \div 2, StrCmp(s, ptrs[((lo + hi) \div 2) + 1], 0))

RECURSIVE ScanBlock(_, _, _, _, _, _)
ScanBlockC(s, t, idx, inBlock, bi, c) ==
    IF c = "eq" THEN Res("ret", <<bi * k + idx + 1>>)
    ELSE IF c = "gt" THEN Res("ret", <<>>)
    ELSE ScanBlock(s, t.str, t.next, idx + 1, inBlock, bi)
ScanBlockK(s, idx, inBlock, bi, t) ==
    IF t.r # "ok" THEN Res(t.r, <<>>)
    ELSE ScanBlockC(s, t, idx, inBlock, bi, StrCmpRust(s, t.str, 0))
ScanBlock(s, buf, p, idx, inBlock, bi) ==
    IF idx >= inBlock THEN Res("ret", <<>>) ELSE ScanBlockK(s, idx, inBlock, bi, Step(buf, p))

SortedBlock(s, bi, h) ==
    IF ~h.ok THEN Res("panic", <<>>)
    ELSE ScanBlock(s, h.str, h.next, 0, MinOf(k - 1, N - bi * k - 1), bi)
DIndexOfSortedK(s, b) ==
    IF b.r = "oob" THEN Res("panic", <<>>)
    ELSE IF b.r = "ok" THEN Res("ret", <<b.at * k>>)
    ELSE IF b.at = 0 THEN Res("ret", <<>>)
    ELSE IF (b.at - 1) * k + 1 > N THEN Res("wild", <<>>)         \* self.len - block_idx * self.k - 1
    ELSE SortedBlock(s, b.at - 1, StrCpy(data, ptrs[b.at], <<>>))
DIndexOfSorted(s) == DIndexOfSortedK(s, BSearch(s, 0, Len(ptrs)))

DIndexOf(s) == IF sorted THEN DIndexOfSorted(s) ELSE DIndexOfUnsorted(s)

(***************************************************************************)
(* Invariants: the design equals the abstract list and stays in bounds.    *)
(***************************************************************************)
\* byte-wise lexicographic order (a proper prefix comes first)
LexLeq(a, b) == LCP(a, b).ord # "gt"

DesignTypeOK ==
    /\ \A t \in DOMAIN data : data[t] \in 0 .. (RAD - 1)
    /\ Len(ptrs) = CeilDiv(N, k)
    /\ \A t \in DOMAIN ptrs : ptrs[t] < Len(data) /\ (t > 1 => ptrs[t - 1] < ptrs[t])
    /\ last = (IF N = 0 THEN <<>> ELSE strs[N])

SortedFlagOK == sorted <=> (\A i \in 1 .. (N - 1) : LexLeq(strs[i], strs[i + 1]))

\* get / get_in_place: exact inside, a clean panic outside (Over = how far past the end)
GetOK(Over) ==
    /\ \A i \in 0 .. (N - 1) : DGet(i) = Res("ret", strs[i + 1])
    /\ \A i \in N .. (N + Over) : DGet(i).out = "panic"

\* iteration from every start position, with exact hints; past the end a
\* panic or nothing; never an underflow
IterInside(j, x)  == x = [out |-> "ret", res |-> TailFrom(j), hints |-> HintsFrom(j)]
IterOutside(x)    == x.out = "panic" \/ (x.out = "ret" /\ x.res = <<>>)
IterOK(Over) ==
    /\ \A j \in 0 .. (N + Over) : IF j <= N THEN IterInside(j, DIterFrom(j)) ELSE IterOutside(DIterFrom(j))
    /\ IterInside(0, DIntoLender)
    \* positioning never calls next() more than once past the end of the list
    \* (with a huge k the pinned code spins: offset calls that all return None)
    /\ \A j \in 0 .. (N + Over) : LendNewFrom(j).calls <= N + 1

\* index_of on every probe: the algorithm the flag selects, and the scan always
IndexResOK(s, r) == r.out = "ret" /\ IndexOK(s, r.res)
IndexOfOK(Probes) ==
    \A s \in Probes : /\ IndexResOK(s, DIndexOfUnsorted(s))
                      /\ sorted => IndexResOK(s, DIndexOfSorted(s))

\* the recorded size is what was appended (data.len() of the real list)
RearCost(prev, s, l) == EncodeIntLen(Len(prev) - l) + (Len(s) - l) + 1
RECURSIVE DataLen(_)
DataLen(i) ==      \* encoded length of strs[1..i]
    IF i = 0 THEN 0
    ELSE IF (i - 1) % k = 0 THEN DataLen(i - 1) + Len(strs[i]) + 1
    ELSE DataLen(i - 1) + RearCost(strs[i - 1], strs[i], LcpLoop(strs[i - 1], strs[i], 0))
SizeOK == Len(data) = DataLen(N) /\ Len(data) + 8 * Len(ptrs) + 56 <= MemBound
=============================================================================
