SPECIFICATION MCSpec
CONSTANTS
  Fixed = TRUE
  Prefixes = {0, 1000}
  Fulls = {512, 1100, 4100, 16500, 40000, 100000, 140000}
  MaxFull = 1
  Lasts <- LastsQ
  Pads = {0, 64}
INVARIANTS DesignOK SpaceOK
CHECK_DEADLOCK FALSE
