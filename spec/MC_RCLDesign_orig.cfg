\* the pinned (unrepaired) Lend::new_from: TLC reports the violation of InvIter
\* (iter_from(len) with len % k = 0, and every iteration of the empty list).
\* Documentation of the finding; not part of any check.
SPECIFICATION MCSpec
CONSTANTS
  BITS = 2
  Fixed = FALSE
  Ks = {1, 2, 3, 5}
  Alphabet = {1, 2}
  MaxLen = 2
  MaxN = 3
  Over = 4
  CodeVals = {0}
  Export = FALSE
INVARIANTS InvType InvSorted InvGet InvIter InvIndex InvSize
CHECK_DEADLOCK FALSE
