SPECIFICATION MCSpec
CONSTANTS
  MaxV = 3
  MaxE = 3
  CBits = {0, 7}
  Part = 4
  Export = FALSE
INVARIANTS DomainOK SolvAgree SatAgree GaussOK LazyOK LazyShape AddOK
CHECK_DEADLOCK FALSE
