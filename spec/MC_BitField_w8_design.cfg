SPECIFICATION MCSpec
CONSTANTS
  WT = "u8"
  Widths = {0, 1, 2, 3, 4, 5, 6, 7, 8}
  MaxWords = 3
  Depth = 1
  Export = FALSE
  Garbage = FALSE
  Heavy = FALSE
VIEW View
INVARIANTS TypeOK Refines LargeEnough DesignAll DesignSetAll DesignApplyAll DesignCopyAll PanicsAreClean NeighboursUntouched
CHECK_DEADLOCK FALSE
