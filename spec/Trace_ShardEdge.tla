--------------------------- MODULE Trace_ShardEdge ---------------------------
(***************************************************************************)
(* Trace validation for the "shardedge" family: decides whether a recorded *)
(* execution of a shard/edge logic is admitted by ShardEdge.  One line =   *)
(* one call; the state is the record `st` of ShardEdge.  Handlers are      *)
(* total: a line that the specification does not admit prints MISMATCH and *)
(* the rest of its episode is skipped.                                     *)
(***************************************************************************)
EXTENDS ShardEdge, Json, IOUtils, TLC, Sequences

Rec == ndJsonDeserialize(IOEnv.TRACE)

VARIABLES l, skip, st, nseq          \* nseq: the seq the next event of the episode must carry
tvars == <<l, skip, st, nseq>>

TraceInit == l = 1 /\ skip = TRUE /\ st = NewState("none", 0) /\ nseq = 0

Step ==
    /\ l <= Len(Rec)
    /\ l' = l + 1
    /\ LET ev == Rec[l] IN
       IF ev.op = "BEGIN"
       THEN IF <<ev.logic, ev.sigw>> \in Impls
            THEN st' = NewState(ev.logic, ev.sigw) /\ skip' = FALSE /\ nseq' = ev.seq + 1
            ELSE /\ PrintT(<<"MISMATCH", ev.ep, ev.seq, ev.op, "unknown-logic">>)
                 /\ skip' = TRUE /\ UNCHANGED <<st, nseq>>
       ELSE IF skip THEN UNCHANGED <<skip, st, nseq>>
       ELSE LET x == IF ev.seq # nseq THEN [why |-> "event-lost", st |-> st]
                     \* the process died or hung in this call (script fields only): admissible nowhere
                     ELSE IF ev.out \notin {"ret", "panic", "na"} THEN [why |-> "outcome", st |-> st]
                     ELSE Eff(ev, st)
            IN  IF x.why = "ok"
                THEN st' = x.st /\ skip' = FALSE /\ nseq' = nseq + 1
                ELSE /\ PrintT(<<"MISMATCH", ev.ep, ev.seq, ev.op, x.why>>)
                     /\ skip' = TRUE
                     /\ UNCHANGED <<st, nseq>>

Finish == /\ l = Len(Rec) + 1
          /\ PrintT(<<"TRACE-END", Len(Rec)>>)
          /\ l' = l + 1
          /\ UNCHANGED <<skip, st, nseq>>

TraceNext == Step \/ Finish
TraceSpec == TraceInit /\ [][TraceNext]_tvars

\* every line was consumed (diameter counts the initial state and Finish)
TraceAccepted == TLCGet("stats").diameter = Len(Rec) + 2
=============================================================================
