SPECIFICATION MCSpec
CONSTANTS
  MaxN = 3
  MaxV = 2
  Export = TRUE
INVARIANTS Emit
CHECK_DEADLOCK FALSE
