SPECIFICATION MCSpec
CONSTANTS
  WT = "u4"
  Widths = {0, 2, 3}
  MaxWords = 2
  Depth = 0
  Export = FALSE
  Garbage = FALSE
  Heavy = FALSE
VIEW View
INVARIANTS TypeOK Refines LargeEnough DesignAll DesignSetAll DesignApplyAll DesignCopyAll PanicsAreClean CodeGrowthOK NeighboursUntouched
CHECK_DEADLOCK FALSE
