SPECIFICATION MCSpec
CONSTANTS
  InstOf <- Ident
  W = 8
  Widths = {8}
  NThreads = {2, 3}
  Menu = {"near"}
  AllValues = FALSE
  Rots = {0}
  PatSet = {"zeros", "ones", "alt"}
  Boundaries = {1}
  NearFields = 4
  EFN = {}
  EFMaxThreads = 3
  MaxT = 3
  Export = TRUE
INVARIANTS Emit
CHECK_DEADLOCK FALSE
