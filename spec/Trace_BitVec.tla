---------------------------- MODULE Trace_BitVec ----------------------------
(***************************************************************************)
(* Trace validation for the "bitvec" family: decides whether a recorded    *)
(* execution of the real BitVec / AtomicBitVec is a behaviour of BitVec.   *)
(* One trace line = one public call = one step.  Handlers are total: a     *)
(* line the specification does not admit prints MISMATCH and the rest of   *)
(* its episode is skipped, so one run reports every rejected episode.      *)
(***************************************************************************)
EXTENDS BitVec, Json, IOUtils, TLC

Rec == ndJsonDeserialize(IOEnv.TRACE)

VARIABLES l, skip
tvars == <<abs, store, nw, form, tight, l, skip>>


TraceInit == BVInit /\ l = 1 /\ skip = FALSE

\* growth choice read from the log (the properties do not fix it)
GrowthOf(ev) ==
    LET a    == Eff(ev, [nw |-> nw, garb |-> {}]).st.abs
        base == IF ev.op \in Rebuilds THEN 0 ELSE nw
        lo   == IF base * W > Len(a) THEN base * W ELSE Len(a)
    IN  [nw |-> ev.nw, garb |-> {p \in ToSet(ev.store) : p >= lo}]

\* first reason for which the logged event differs from what the spec admits
Why(ev, x, g) ==
    IF ev.out # x.out THEN "outcome"
    ELSE IF x.out = "ret" /\ ~GrowOK(ev, x.st.abs, g) THEN "backend-too-small"
    ELSE IF ev.len # Len(x.st.abs) THEN "len"
    ELSE IF ev.form # x.st.form THEN "form"
    ELSE IF ev.nw # x.st.nw THEN "nwords"
    ELSE IF ToSet(ev.store) # x.st.store THEN "store"
    ELSE IF x.rk = "val" /\ ev.res # x.res THEN "result"
    ELSE IF x.rk = "copy" /\ ~CopyOK(ev.res) THEN "copy"
    ELSE IF x.rk = "mem" /\ ~MemOK(ev.res) THEN "mem-size-bound"
    ELSE IF x.rk = "cap" /\ ~CapOK(ev.res) THEN "capacity"
    ELSE IF x.rk = "hint" /\ ev.hr # x.hr THEN "bad-hint"
    ELSE IF x.rk = "hint" /\ ev.res # x.res THEN "result"
    ELSE "ok"

Step ==
    /\ l <= Len(Rec)
    /\ l' = l + 1
    /\ LET ev == Rec[l] IN
       IF ev.op = "BEGIN"
       THEN /\ abs' = <<>> /\ store' = {} /\ nw' = 0 /\ form' = "none" /\ tight' = TRUE
            /\ skip' = FALSE
       ELSE IF skip THEN UNCHANGED <<abs, store, nw, form, tight, skip>>
       \* the process died or hung in this call (the event carries the script fields only):
       \* admissible nowhere
       ELSE IF ev.out \notin {"ret", "panic", "na"}
       THEN /\ PrintT(<<"MISMATCH", ev.ep, ev.seq, ev.op, "outcome">>)
            /\ skip' = TRUE
            /\ UNCHANGED <<abs, store, nw, form, tight>>
       ELSE LET g == GrowthOf(ev)
                x == Eff(ev, g)
                w == Why(ev, x, g)
            IN  IF w = "ok"
                THEN Install(x.st, TightAfter(ev, x)) /\ skip' = FALSE
                ELSE /\ PrintT(<<"MISMATCH", ev.ep, ev.seq, ev.op, w>>)
                     /\ skip' = TRUE
                     /\ UNCHANGED <<abs, store, nw, form, tight>>

Finish == /\ l = Len(Rec) + 1
          /\ PrintT(<<"TRACE-END", Len(Rec)>>)
          /\ l' = l + 1
          /\ UNCHANGED <<abs, store, nw, form, tight, skip>>

TraceNext == Step \/ Finish
TraceSpec == TraceInit /\ [][TraceNext]_tvars

\* every line was consumed (diameter counts the initial state and Finish)
TraceAccepted == TLCGet("stats").diameter = Len(Rec) + 2

\* the design invariants must also hold along every implementation trace
TraceInv == skip \/ (Refines /\ LargeEnough)
=============================================================================
