SPECIFICATION MCSpec
CONSTANTS
  RB = 2
  Kinds = {"online", "offline"}
  BBs = {0, 1, 2}
  MBs = {0, 1, 2, 3}
  Tops = {0, 1, 2, 3, 4, 5, 6, 7}
  Lows = {0}
  MaxPush = 2
  MaxBorrowed = 2
  Partial = FALSE
  BadBits = TRUE
  Export = TRUE
INVARIANTS PrefixInv PassInv NoOOB Emit
CHECK_DEADLOCK FALSE
