SPECIFICATION MCSpec
CONSTANTS
  MaxN = 3
  Thr = {1, 3}
  MaxPass = 3
  MaxTransient = 1
  Order = "fixed"
  Export = FALSE
INVARIANTS DesignAccepted InvOkIsWhole InvErrorsSurface InvDupBound InvHintIrrelevant ResultAsExpected AbstractMap ErrorsAreJustified Bounded
CHECK_DEADLOCK FALSE
