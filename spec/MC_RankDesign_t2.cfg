SPECIFICATION MCSpec
CONSTANTS
  W = 2
  Masked = TRUE
  MaxWords = 7
  Layouts <- LayoutsA
INVARIANTS DesignOK SpaceDesignOK
CHECK_DEADLOCK FALSE
