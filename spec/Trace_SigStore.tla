--------------------------- MODULE Trace_SigStore ---------------------------
(***************************************************************************)
(* Trace validation for the "sigstore" family: decides whether a recorded  *)
(* execution of the real SigStore / ShardStore / ShardIterator (online and *)
(* offline, [u64; 1] and [u64; 2] signatures, u8 / u64 / EmptyVal values)  *)
(* is a behaviour of the contract in SigStore.tla (part 1).  One trace     *)
(* line = one public call (an `iter` / `into_iter` line is one whole       *)
(* iteration: creation, the calls of next(), drop).  Handlers are total: a *)
(* line the specification does not admit prints MISMATCH and the rest of   *)
(* its episode is skipped.  The design variables of SigStore.tla are not   *)
(* used here (the order of the pairs inside a shard is not part of the     *)
(* contract) and stay at their initial values.                             *)
(***************************************************************************)
EXTENDS SigStore, Json, IOUtils, TLC

Rec == ndJsonDeserialize(IOEnv.TRACE)

VARIABLES l, skip
tvars == <<cfg, phase, pushed, sbits, ssz, buckets, bsz, fine, it, emitted, ref, passok, oob, l, skip>>

NoCfg == [kind |-> "none", bb |-> 0, mb |-> 0]

TraceInit ==
    /\ cfg = NoCfg /\ phase = "none" /\ pushed = <<>> /\ sbits = 0 /\ ssz = <<>>
    /\ buckets = <<>> /\ bsz = <<>> /\ fine = <<>> /\ it = NoIter /\ emitted = <<>>
    /\ ref = <<>> /\ passok = TRUE /\ oob = FALSE
    /\ l = 1 /\ skip = FALSE

\* first reason for which the logged event differs from what the contract admits
\* (outcomes "abort" and "hang" are admitted nowhere: they fail the first test)
Why(ev, x) ==
    IF ev.out # x.out THEN "outcome"
    ELSE IF x.rk = "val" /\ ev.res # x.res THEN "result"
    ELSE IF x.rk = "set" /\ ToSet(ev.res) # x.res THEN "result"
    ELSE IF x.rk = "store" /\ ev.sizes # x.sz THEN "shard-sizes"
    ELSE IF x.rk = "store" /\ ev.slen # Len(x.pu) THEN "store-len"
    ELSE IF x.rk = "iter" THEN IterWhy(ev)
    ELSE "ok"

Install(x) == /\ phase' = x.ph /\ pushed' = x.pu /\ sbits' = x.sb /\ ssz' = x.sz

Step ==
    /\ l <= Len(Rec)
    /\ l' = l + 1
    /\ UNCHANGED desvars
    /\ LET ev == Rec[l] IN
       IF ev.op = "BEGIN"
       THEN /\ cfg' = [kind |-> ev.kind, bb |-> ev.bb, mb |-> ev.mb]
            /\ pushed' = <<>> /\ sbits' = 0 /\ ssz' = <<>>
            /\ IF ev.out = "ret"
               THEN phase' = "sig" /\ skip' = FALSE
               ELSE /\ PrintT(<<"MISMATCH", ev.ep, ev.seq, ev.op, "outcome">>)
                    /\ phase' = "dead" /\ skip' = TRUE
       ELSE IF skip THEN UNCHANGED <<cfg, phase, pushed, sbits, ssz, skip>>
       ELSE LET x == Eff(ev)
                w == Why(ev, x)
            IN  IF w = "ok"
                THEN Install(x) /\ UNCHANGED <<cfg, skip>>
                ELSE /\ PrintT(<<"MISMATCH", ev.ep, ev.seq, ev.op, w>>)
                     /\ skip' = TRUE
                     /\ UNCHANGED <<cfg, phase, pushed, sbits, ssz>>

Finish == /\ l = Len(Rec) + 1
          /\ PrintT(<<"TRACE-END", Len(Rec)>>)
          /\ l' = l + 1
          /\ UNCHANGED <<cfg, phase, pushed, sbits, ssz, skip>>
          /\ UNCHANGED desvars

TraceNext == Step \/ Finish
TraceSpec == TraceInit /\ [][TraceNext]_tvars

\* every line was consumed (diameter counts the initial state and Finish)
TraceAccepted == TLCGet("stats").diameter = Len(Rec) + 2

\* the abstract state stays well-formed along every implementation trace
TraceInv == skip \/ phase \in {"none", "sig", "dead"} \/ (Len(ssz) = Pow2(sbits) /\ SumSeq(ssz) = Len(pushed))
=============================================================================
