SPECIFICATION MCSpec
CONSTANTS
  BITS = 2
  Fixed = TRUE
  Ks = {1, 2, 3, 5}
  Alphabet = {1, 2, 3}
  MaxLen = 2
  MaxN = 3
  Over = 4
  CodeVals = {0, 1, 2, 3, 4, 5, 6, 7, 8, 13}
  Export = FALSE
INVARIANTS InvType InvSorted InvGet InvIter InvIndex InvSize InvCode
CHECK_DEADLOCK FALSE
