SPECIFICATION MCSpec
CONSTANTS
  W = 4
  Masked = TRUE
  MaxWords = 4
  Layouts <- LayoutsC
INVARIANTS DesignOK SpaceDesignOK
CHECK_DEADLOCK FALSE
