SPECIFICATION MCSpec
CONSTANTS
  W = 2
  Masked = TRUE
  MaxWords = 5
  Layouts <- LayoutsA
INVARIANTS DesignOK SpaceDesignOK
CHECK_DEADLOCK FALSE
