------------------------------- MODULE Atomic -------------------------------
(***************************************************************************)
(* Concurrent writers on sux::bits::AtomicBitFieldVec / AtomicBitVec       *)
(* (property C13).                                                         *)
(*                                                                         *)
(* An *instance* is a record                                               *)
(*   [w, width, flen, nfw, finit,      the bit-field vector: word size,    *)
(*                                     field width, fields, words, initial *)
(*                                     words (per word: list of set bits)  *)
(*    blen, nbw, binit,                the bit vector (64-bit words)       *)
(*    prog]                            per thread: its list of jobs        *)
(* and a job is  [kind, idx, val, hi]  with kind one of                    *)
(*   setfield  set_atomic(idx, val)        val = list of set bit positions *)
(*   setbit / clearbit   AtomicBitVec::set(idx, true / false)              *)
(*   swapbit   AtomicBitVec::swap(idx, val # <<>>)  returns the old bit    *)
(*   getbit    AtomicBitVec::get(idx)                                      *)
(*   efset     EliasFanoConcurrentBuilder::set: set_atomic_unchecked(idx,  *)
(*             val) on the low bits, then set(hi, true) on the high bits   *)
(* The instance is immutable; the variable `inst` only *names* it          *)
(* (InstOf(inst) is the record), so that a model can choose it in Init and *)
(* a trace specification can keep a large one out of the state.            *)
(*                                                                         *)
(* There is ONE ACTION PER ATOMIC INSTRUCTION of the code, in program      *)
(* order (bit_field_vec.rs set_atomic_unchecked, bit_vec.rs set_unchecked, *)
(* swap_unchecked, get_unchecked):                                         *)
(*   field inside one word:  Load1 ; Cas1 (retry until it succeeds)        *)
(*   field across two words: Load1 ; Cas1 on word k ; Load2 ; Cas2 on k+1  *)
(*   bit set/clear/swap:     Rmw  (fetch_or / fetch_and, returns old word) *)
(*   bit get:                BLoad                                         *)
(* Memory is sequentially consistent per word: every step is one atomic    *)
(* operation on one word, which is coherent under every memory ordering.   *)
(***************************************************************************)
EXTENDS Naturals, Sequences, FiniteSets

CONSTANT InstOf(_)        \* value of `inst`  ->  instance record

VARIABLES inst,           \* names the instance (never changes)
          mem,            \* [f |-> word -> set of bits, b |-> word -> set of bits]
          pc,             \* thread -> next instruction
          jix,            \* thread -> index of its current job
          seen,           \* thread -> the local `current` / `word` of the CAS loop
          ret             \* thread -> per job: <<>> or <<returned bit>>
avars == <<inst, mem, pc, jix, seen, ret>>

I  == InstOf(inst)
BW == 64                                  \* AtomicBitVec is over usize

Low(n)    == 0 .. (n - 1)
SeqSet(s) == {s[k] : k \in 1 .. Len(s)}

FieldKinds == {"setfield", "efset"}
BitWKinds  == {"setbit", "clearbit", "swapbit"}
BitKinds   == BitWKinds \cup {"getbit"}
Kinds      == FieldKinds \cup BitKinds

(***************************************************************************)
(* Static functions of an instance ii.                                     *)
(***************************************************************************)
InDomainI(ii, j) ==
    CASE j.kind = "setfield" -> j.idx < ii.flen /\ \A b \in SeqSet(j.val) : b < ii.width
      [] j.kind = "efset"    -> /\ j.idx < ii.flen /\ \A b \in SeqSet(j.val) : b < ii.width
                                /\ j.hi < ii.blen
      [] j.kind \in BitKinds -> j.idx < ii.blen

Entry(j) == IF j.kind \in FieldKinds THEN "load1"
            ELSE IF j.kind = "getbit" THEN "bload" ELSE "rmw"

\* least in-domain job of thread t at or after k (out-of-domain calls panic
\* before their first atomic instruction); Len + 1 if there is none
NextJobI(ii, t, k) ==
    LET c == {j \in k .. Len(ii.prog[t]) : InDomainI(ii, ii.prog[t][j])}
    IN  IF c = {} THEN Len(ii.prog[t]) + 1 ELSE CHOOSE j \in c : \A j2 \in c : j <= j2

PcAtI(ii, t, k) == IF k > Len(ii.prog[t]) THEN "done" ELSE Entry(ii.prog[t][k])

InitMemI(ii) == [f |-> [k \in Low(ii.nfw) |-> SeqSet(ii.finit[k + 1])],
                 b |-> [k \in Low(ii.nbw) |-> SeqSet(ii.binit[k + 1])]]

WellFormedI(ii) ==
    /\ ii.w \in {8, 16, 32, 64} /\ ii.width \in 0 .. ii.w
    /\ ii.nfw >= 1 /\ ii.flen * ii.width <= ii.nfw * ii.w /\ Len(ii.finit) = ii.nfw
    /\ ii.blen <= ii.nbw * BW /\ Len(ii.binit) = ii.nbw
    /\ \A k \in 1 .. ii.nfw : SeqSet(ii.finit[k]) \subseteq Low(ii.w)
    /\ \A k \in 1 .. ii.nbw : SeqSet(ii.binit[k]) \subseteq Low(BW)
    /\ \A t \in 1 .. Len(ii.prog) : \A k \in 1 .. Len(ii.prog[t]) : ii.prog[t][k].kind \in Kinds

(***************************************************************************)
(* The same, for the current instance.                                     *)
(***************************************************************************)
FW        == I.w
Width     == I.width
Threads   == 1 .. Len(I.prog)
Prog(t)   == I.prog[t]
Job(t)    == I.prog[t][jix[t]]
InDomain(j)   == InDomainI(I, j)
NextJob(t, k) == NextJobI(I, t, k)
PcAt(t, k)    == PcAtI(I, t, k)
InitMem       == InitMemI(I)

ValSet(j)    == SeqSet(j.val)
FWord(i)     == (i * Width) \div FW          \* word_index
FBitIx(i)    == (i * Width) % FW             \* bit_index
Straddles(i) == FBitIx(i) + Width > FW
BitPos(j)    == IF j.kind = "efset" THEN j.hi ELSE j.idx
BitVal(j)    == CASE j.kind = "setbit" -> TRUE [] j.kind = "efset" -> TRUE
                  [] j.kind = "clearbit" -> FALSE [] j.kind = "swapbit" -> j.val # <<>>

\* the atomic instruction a thread at program counter p of job j is about to
\* perform: <<hook kind, word index>> (what the verification hook reports)
OpAt(p, j) ==
    CASE p = "load1" -> <<"bf_load", FWord(j.idx)>>
      [] p = "cas1"  -> <<"bf_cas",  FWord(j.idx)>>
      [] p = "load2" -> <<"bf_load", FWord(j.idx) + 1>>
      [] p = "cas2"  -> <<"bf_cas",  FWord(j.idx) + 1>>
      [] p = "rmw"   -> <<"bv_rmw",  BitPos(j) \div BW>>
      [] p = "bload" -> <<"bv_load", j.idx \div BW>>
      [] p = "done"  -> <<>>

(***************************************************************************)
(* Effects.  Each returns the new memory and the new local state of the    *)
(* stepping thread:  [mem, pc, jix, seen, ret].                            *)
(***************************************************************************)
St(m, p, k, s, r) == [mem |-> m, pc |-> p, jix |-> k, seen |-> s, ret |-> r]

\* the current job is complete: go to the entry of the next in-domain job
Advance(t, m, r) == LET k == NextJob(t, jix[t] + 1) IN St(m, PcAt(t, k), k, {}, r)

AfterField(t, m) == IF Job(t).kind = "efset" THEN St(m, "rmw", jix[t], {}, ret[t])
                    ELSE Advance(t, m, ret[t])

\* new &= !(mask << bit_index); new |= value << bit_index              (one word)
\* new &= (1 << bit_index) - 1; new |= value << bit_index     (first of two words)
Cas1New(j, s) ==
    LET bi == FBitIx(j.idx) IN
    IF Straddles(j.idx)
    THEN {p \in s : p < bi} \cup {bi + c : c \in {d \in ValSet(j) : bi + d < FW}}
    ELSE {p \in s : p < bi \/ p >= bi + Width} \cup {bi + c : c \in ValSet(j)}

\* new &= !(mask >> (BITS - bit_index)); new |= value >> (BITS - bit_index)
Cas2New(j, s) ==
    LET k == FW - FBitIx(j.idx)              \* bits of the field in the first word
    IN  {p \in s : p >= Width - k} \cup {c - k : c \in {d \in ValSet(j) : d >= k}}

Load1Eff(t) == St(mem, "cas1", jix[t], mem.f[FWord(Job(t).idx)], ret[t])

Cas1Succeeds(t) == mem.f[FWord(Job(t).idx)] = seen[t]
Cas1Eff(t) ==
    LET j == Job(t)  wd == FWord(j.idx) IN
    IF Cas1Succeeds(t)
    THEN LET m == [mem EXCEPT !.f[wd] = Cas1New(j, seen[t])]
         IN  IF Straddles(j.idx) THEN St(m, "load2", jix[t], {}, ret[t]) ELSE AfterField(t, m)
    ELSE St(mem, "cas1", jix[t], mem.f[wd], ret[t])          \* Err(e) => current = e

Load2Eff(t) == St(mem, "cas2", jix[t], mem.f[FWord(Job(t).idx) + 1], ret[t])

Cas2Succeeds(t) == mem.f[FWord(Job(t).idx) + 1] = seen[t]
Cas2Eff(t) ==
    LET j == Job(t)  wd == FWord(j.idx) + 1 IN
    IF Cas2Succeeds(t)
    THEN AfterField(t, [mem EXCEPT !.f[wd] = Cas2New(j, seen[t])])
    ELSE St(mem, "cas2", jix[t], mem.f[wd], ret[t])

\* fetch_or(1 << b) / fetch_and(!(1 << b)); swap returns the old bit
RmwEff(t) ==
    LET j == Job(t)  wd == BitPos(j) \div BW  b == BitPos(j) % BW
        old == b \in mem.b[wd]
        m == [mem EXCEPT !.b[wd] = IF BitVal(j) THEN @ \cup {b} ELSE @ \ {b}]
    IN  Advance(t, m, IF j.kind = "swapbit" THEN [ret[t] EXCEPT ![jix[t]] = <<old>>] ELSE ret[t])

BLoadEff(t) ==
    LET j == Job(t) IN
    Advance(t, mem, [ret[t] EXCEPT ![jix[t]] = <<(j.idx % BW) \in mem.b[j.idx \div BW]>>])

\* the step of thread t (total on pc[t] # "done"): used by trace validation
Eff(t) == CASE pc[t] = "load1" -> Load1Eff(t) [] pc[t] = "cas1" -> Cas1Eff(t)
            [] pc[t] = "load2" -> Load2Eff(t) [] pc[t] = "cas2" -> Cas2Eff(t)
            [] pc[t] = "rmw"   -> RmwEff(t)   [] pc[t] = "bload" -> BLoadEff(t)

Install(t, x) == /\ mem' = x.mem
                 /\ pc' = [pc EXCEPT ![t] = x.pc]
                 /\ jix' = [jix EXCEPT ![t] = x.jix]
                 /\ seen' = [seen EXCEPT ![t] = x.seen]
                 /\ ret' = [ret EXCEPT ![t] = x.ret]
                 /\ UNCHANGED inst

(***************************************************************************)
(* Actions.                                                                *)
(***************************************************************************)
AInit(i) ==
    /\ inst = i
    /\ LET ii == InstOf(i) IN
       /\ mem = InitMemI(ii)
       /\ jix = [t \in 1 .. Len(ii.prog) |-> NextJobI(ii, t, 1)]
       /\ pc = [t \in 1 .. Len(ii.prog) |-> PcAtI(ii, t, NextJobI(ii, t, 1))]
       /\ seen = [t \in 1 .. Len(ii.prog) |-> {}]
       /\ ret = [t \in 1 .. Len(ii.prog) |-> [k \in 1 .. Len(ii.prog[t]) |-> <<>>]]

Load1(t)    == pc[t] = "load1" /\ Install(t, Load1Eff(t))
Cas1Ok(t)   == pc[t] = "cas1" /\ Cas1Succeeds(t) /\ Install(t, Cas1Eff(t))
Cas1Fail(t) == pc[t] = "cas1" /\ ~Cas1Succeeds(t) /\ Install(t, Cas1Eff(t))
Load2(t)    == pc[t] = "load2" /\ Install(t, Load2Eff(t))
Cas2Ok(t)   == pc[t] = "cas2" /\ Cas2Succeeds(t) /\ Install(t, Cas2Eff(t))
Cas2Fail(t) == pc[t] = "cas2" /\ ~Cas2Succeeds(t) /\ Install(t, Cas2Eff(t))
Rmw(t)      == pc[t] = "rmw" /\ Install(t, RmwEff(t))
BLoad(t)    == pc[t] = "bload" /\ Install(t, BLoadEff(t))

ThreadStep(t) == \/ Load1(t) \/ Cas1Ok(t) \/ Cas1Fail(t) \/ Load2(t) \/ Cas2Ok(t) \/ Cas2Fail(t)
                 \/ Rmw(t) \/ BLoad(t)

ANext == \E t \in Threads : ThreadStep(t)

\* lock-freedom: every thread that can step eventually does
Fairness(maxThreads) == \A t \in 1 .. maxThreads : WF_avars(t \in Threads /\ ThreadStep(t))

(***************************************************************************)
(* Properties.                                                             *)
(***************************************************************************)
Quiescent == \A t \in Threads : pc[t] = "done"

TypeOK ==
    /\ DOMAIN mem.f = Low(I.nfw) /\ \A k \in Low(I.nfw) : mem.f[k] \subseteq Low(FW)
    /\ DOMAIN mem.b = Low(I.nbw) /\ \A k \in Low(I.nbw) : mem.b[k] \subseteq Low(BW)
    /\ \A t \in Threads :
         /\ pc[t] \in {"load1", "cas1", "load2", "cas2", "rmw", "bload", "done"}
         /\ (pc[t] = "done") = (jix[t] = Len(Prog(t)) + 1)
         /\ pc[t] # "done" => InDomain(Job(t))
         /\ pc[t] \in {"load1", "cas1", "load2", "cas2"} => Job(t).kind \in FieldKinds
         /\ pc[t] \in {"load2", "cas2"} => Straddles(Job(t).idx)
         /\ pc[t] = "rmw" => Job(t).kind \in BitWKinds \cup {"efset"}
         /\ pc[t] = "bload" => Job(t).kind = "getbit"
         /\ seen[t] \subseteq Low(FW)
\* no instruction addresses a word outside the backing storage
NoOOB == \A t \in Threads : pc[t] # "done" =>
            LET o == OpAt(pc[t], Job(t)) IN
            o[2] < (IF o[1] \in {"bf_load", "bf_cas"} THEN I.nfw ELSE I.nbw)

\* ----- elements ----------------------------------------------------------
FBit(m, p)     == (p % FW) \in m[p \div FW]
FieldVal(m, i) == {c \in Low(Width) : FBit(m, i * Width + c)}
BBit(m, p)     == (p % BW) \in m[p \div BW]

\* the in-domain jobs, named <<thread, index>>
Jobs == UNION {{<<t, k>> : k \in {k2 \in 1 .. Len(Prog(t)) : InDomain(Prog(t)[k2])}} : t \in Threads}
JobOf(tk)     == Prog(tk[1])[tk[2]]
BitJobs       == {tk \in Jobs : JobOf(tk).kind \in BitKinds \cup {"efset"}}

\* per thread: its in-domain field writes / bit writes (indices into its program)
FieldJobsOf(t) == {k \in 1 .. Len(Prog(t)) : Prog(t)[k].kind \in FieldKinds /\ InDomain(Prog(t)[k])}
BitWJobsOf(t)  == {k \in 1 .. Len(Prog(t)) : Prog(t)[k].kind \in BitWKinds \cup {"efset"} /\ InDomain(Prog(t)[k])}
FieldsOf(t)    == {Prog(t)[k].idx : k \in FieldJobsOf(t)}
\* <<thread, bit>> for every bit the thread writes
BitsWritten    == UNION {{<<t, BitPos(Prog(t)[k])>> : k \in BitWJobsOf(t)} : t \in Threads}

\* the hypothesis of the property: distinct threads write distinct elements
DistinctFields == \A t1, t2 \in Threads : t1 < t2 => FieldsOf(t1) \cap FieldsOf(t2) = {}
\* bits written by one thread only (the others may be shared by swappers)
PrivateIn(bw, p) == Cardinality({t \in Threads : <<t, p>> \in bw}) <= 1
Private(p)       == PrivateIn(BitsWritten, p)

FieldPositions(i) == {i * Width + c : c \in Low(Width)}
WrittenFPos == UNION {FieldPositions(i) : i \in UNION {FieldsOf(t) : t \in Threads}}
WrittenBPos == {tp[2] : tp \in BitsWritten}

\* storage that belongs to no written element always equals the initial memory
FrameAt(m) ==
    LET wf == WrittenFPos  wb == WrittenBPos  m0 == InitMem IN
    /\ \A p \in Low(I.nfw * FW) \ wf : FBit(m.f, p) <=> FBit(m0.f, p)
    /\ \A p \in Low(I.nbw * BW) \ wb : BBit(m.b, p) <=> BBit(m0.b, p)
Frame == FrameAt(mem)

\* once every thread is done, every written element holds its writer's value
\* (the last one, if its thread wrote it more than once) and everything else
\* is unchanged.  (Under DistinctFields the writers of a field are jobs of one
\* thread, so "last" is program order.)
NoInterferenceAt(m) ==
    LET bw == BitsWritten IN
    /\ \A t \in Threads :
         LET fj == FieldJobsOf(t)  bj == BitWJobsOf(t) IN
         /\ \A k \in fj :
                (\A k2 \in fj : k2 > k => Prog(t)[k2].idx # Prog(t)[k].idx)
                    => FieldVal(m.f, Prog(t)[k].idx) = ValSet(Prog(t)[k])
         /\ \A k \in bj :
                LET p == BitPos(Prog(t)[k]) IN
                (PrivateIn(bw, p) /\ \A k2 \in bj : k2 > k => BitPos(Prog(t)[k2]) # p)
                    => (BBit(m.b, p) <=> BitVal(Prog(t)[k]))
    /\ FrameAt(m)
NoInterference == (Quiescent /\ DistinctFields) => NoInterferenceAt(mem)

\* ----- linearizability of the operations on one bit ------------------------
\* Some total order of the calls on bit p that respects each thread's program
\* order explains every returned value and the final bit.
BitOpsOn(p) == {tk \in BitJobs : BitPos(JobOf(tk)) = p}

RECURSIVE Replay(_, _, _)
Replay(o, k, b) ==          \* o: sequence of <<t, job>>; b: current bit; -> [ok, bit]
    IF k > Len(o) THEN [ok |-> TRUE, bit |-> b]
    ELSE LET j == JobOf(o[k])
             sees == ret[o[k][1]][o[k][2]]
             okk == (j.kind \in {"swapbit", "getbit"}) => sees = <<b>>
             nb == IF j.kind = "getbit" THEN b ELSE BitVal(j)
         IN  IF okk THEN Replay(o, k + 1, nb) ELSE [ok |-> FALSE, bit |-> b]

Orders(S) ==
    LET n == Cardinality(S) IN
    {o \in [1 .. n -> S] :
        /\ \A a, c \in 1 .. n : a # c => o[a] # o[c]
        /\ \A a, c \in 1 .. n : (o[a][1] = o[c][1] /\ o[a][2] < o[c][2]) => a < c}

LinearizableOn(p) ==
    \E o \in Orders(BitOpsOn(p)) :
        LET r == Replay(o, 1, BBit(InitMem.b, p)) IN r.ok /\ (r.bit <=> BBit(mem.b, p))

\* the same for a final memory m and returned values rt that are not the
\* current state (free-running executions: Trace_Atomic, event "free")
RECURSIVE ReplayAt(_, _, _, _)
ReplayAt(rt, o, k, b) ==
    IF k > Len(o) THEN [ok |-> TRUE, bit |-> b]
    ELSE LET j == JobOf(o[k])
             sees == rt[o[k][1]][o[k][2]]
             okk == (j.kind \in {"swapbit", "getbit"}) => sees = <<b>>
             nb == IF j.kind = "getbit" THEN b ELSE BitVal(j)
         IN  IF okk THEN ReplayAt(rt, o, k + 1, nb) ELSE [ok |-> FALSE, bit |-> b]

LinearizableOnAt(p, m, rt) ==
    \E o \in Orders(BitOpsOn(p)) :
        LET r == ReplayAt(rt, o, 1, BBit(InitMem.b, p)) IN r.ok /\ (r.bit <=> BBit(m.b, p))

SwapLinearizable == Quiescent => \A p \in {BitPos(JobOf(tk)) : tk \in BitJobs} : LinearizableOn(p)

\* ----- the sequential execution ------------------------------------------
\* The memory obtained by executing the in-domain jobs one after the other,
\* thread 1's program, then thread 2's, ... (for distinct elements every
\* order gives this memory): what a sequential builder produces.
SetFieldSeq(m, i, v) ==
    [k \in DOMAIN m |->
        {c \in Low(FW) : LET p == k * FW + c IN
                         IF p \in FieldPositions(i) THEN (p - i * Width) \in v ELSE c \in m[k]}]
SetBitSeq(m, p, v) == [m EXCEPT ![p \div BW] = IF v THEN @ \cup {p % BW} ELSE @ \ {p % BW}]

RunJob(m, j) ==
    IF ~InDomain(j) \/ j.kind = "getbit" THEN m
    ELSE IF j.kind = "setfield" THEN [m EXCEPT !.f = SetFieldSeq(m.f, j.idx, ValSet(j))]
    ELSE IF j.kind = "efset" THEN [f |-> SetFieldSeq(m.f, j.idx, ValSet(j)), b |-> SetBitSeq(m.b, j.hi, TRUE)]
    ELSE [m EXCEPT !.b = SetBitSeq(m.b, j.idx, BitVal(j))]

RECURSIVE RunProg(_, _, _)
RunProg(m, p, k) == IF k > Len(p) THEN m ELSE RunProg(RunJob(m, p[k]), p, k + 1)
RECURSIVE RunAll(_, _)
RunAll(m, t) == IF t > Len(I.prog) THEN m ELSE RunAll(RunProg(m, I.prog[t], 1), t + 1)

AllPrivate == LET bw == BitsWritten IN \A tp \in bw : PrivateIn(bw, tp[2])

\* The same memory in closed form (every written element holds the value of
\* the last job of its only writer): linear in the size of the instance, for
\* trace validation of large instances.  EqualsSequential makes TLC check
\* that it is RunAll on every instance of the bounded models.
DirectSeqMem ==
    LET fj == {tk \in Jobs : JobOf(tk).kind \in FieldKinds}
        bj == {tk \in Jobs : JobOf(tk).kind \in BitWKinds \cup {"efset"}}
        lastf == [i \in {JobOf(tk).idx : tk \in fj} |->
                    CHOOSE tk \in fj : /\ JobOf(tk).idx = i
                                       /\ \A t2 \in fj : JobOf(t2).idx = i => t2[2] <= tk[2]]
        lastb == [p \in {BitPos(JobOf(tk)) : tk \in bj} |->
                    CHOOSE tk \in bj : /\ BitPos(JobOf(tk)) = p
                                       /\ \A t2 \in bj : BitPos(JobOf(t2)) = p => t2[2] <= tk[2]]
        m0 == InitMem
    IN  [f |-> [k \in Low(I.nfw) |->
                  {c \in Low(FW) : LET p == k * FW + c IN
                       IF Width > 0 /\ (p \div Width) \in DOMAIN lastf
                       THEN (p % Width) \in ValSet(JobOf(lastf[p \div Width]))
                       ELSE c \in m0.f[k]}],
         b |-> [k \in Low(I.nbw) |->
                  {c \in Low(BW) : LET p == k * BW + c IN
                       IF p \in DOMAIN lastb THEN BitVal(JobOf(lastb[p])) ELSE c \in m0.b[k]}]]

EqualsSequential == (Quiescent /\ DistinctFields /\ AllPrivate) =>
                        mem = RunAll(InitMem, 1) /\ mem = DirectSeqMem

Termination == <>Quiescent
=============================================================================
