SPECIFICATION MCSpec
CONSTANTS
  W = 2
  Masked = TRUE
  Clipped = TRUE
  Aligned = TRUE
  MaxWords = 5
  Layouts <- LayoutsS
  Bpis = {1, 2, 4}
INVARIANTS DesignOK
CHECK_DEADLOCK FALSE
