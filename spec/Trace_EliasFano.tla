-------------------------- MODULE Trace_EliasFano --------------------------
(***************************************************************************)
(* Trace validation for the "ef" family: decides whether a recorded        *)
(* execution of the real Elias-Fano builders and structures is a behaviour *)
(* of EliasFano.  One trace line = one public call = one step.  Handlers   *)
(* are total: a line the specification does not admit prints MISMATCH and  *)
(* the rest of its episode is skipped.                                     *)
(*                                                                         *)
(* Big immutable inputs stay out of the state: when a sequence arrives in  *)
(* one event (from, extend on an empty builder, cfill) the state holds the *)
(* index  xref  of that event and the specification reads  Rec[xref].xs ;  *)
(* sequences grown push by push are held literally in  xsv .               *)
(***************************************************************************)
EXTENDS EliasFano, Json, IOUtils, TLC

Rec == ndJsonDeserialize(IOEnv.TRACE)

VARIABLES l, skip, S, xsv, xref
tvars == <<l, skip, S, xsv, xref>>

XS == IF xref = 0 THEN xsv ELSE Rec[xref].xs

TraceInit == l = 1 /\ skip = FALSE /\ S = EFNone /\ xsv = <<>> /\ xref = 0

\* first reason for which the logged event differs from what the spec admits;
\* "abort" and "hang" are admissible nowhere (C12)
Why(ev, x) ==
    IF ev.out \notin x.outs THEN "outcome"
    ELSE IF ev.form # x.st.form THEN "form"
    ELSE IF x.st.form = "ef" /\ ev.kind # x.st.kind THEN "kind"
    ELSE IF x.st.form = "ef" /\ ev.len # x.st.n THEN "len"
    ELSE IF ev.out = "ret" /\ ~ResultOK(ev, S, XS) THEN "result"
    ELSE "ok"

InstallX(xu) ==
    CASE xu[1] = "same" -> UNCHANGED <<xsv, xref>>
      [] xu[1] = "op"   -> xref' = l /\ xsv' = <<>>
      [] xu[1] = "app"  -> xref' = 0 /\ xsv' = Append(XS, xu[2])
      [] xu[1] = "val"  -> xref' = 0 /\ xsv' = xu[2]

Step ==
    /\ l <= Len(Rec)
    /\ l' = l + 1
    /\ LET ev == Rec[l] IN
       IF ev.op = "BEGIN"
       THEN S' = EFNone /\ xsv' = <<>> /\ xref' = 0 /\ skip' = FALSE
       ELSE IF skip THEN UNCHANGED <<S, xsv, xref, skip>>
       ELSE LET x == Eff(ev, S, XS)
                w == Why(ev, x)
            IN  IF w = "ok"
                THEN S' = x.st /\ InstallX(x.xu) /\ skip' = FALSE
                ELSE /\ PrintT(<<"MISMATCH", ev.ep, ev.seq, ev.op, w>>)
                     /\ skip' = TRUE
                     /\ UNCHANGED <<S, xsv, xref>>

Finish == /\ l = Len(Rec) + 1
          /\ PrintT(<<"TRACE-END", Len(Rec)>>)
          /\ l' = l + 1
          /\ UNCHANGED <<S, xsv, xref, skip>>

TraceNext == Step \/ Finish
TraceSpec == TraceInit /\ [][TraceNext]_tvars

\* every line was consumed (diameter counts the initial state and Finish)
TraceAccepted == TLCGet("stats").diameter = Len(Rec) + 2

\* the invariants of the abstract state hold along every implementation trace
\* (evaluated on short sequences only: it is linear in the length)
TraceInv == skip \/ Len(XS) > 64 \/ EFStateOK(S, XS)
=============================================================================
