SPECIFICATION MCSpec
CONSTANTS
  RB = 1
  Kinds = {"online", "offline"}
  BBs = {0, 1, 2}
  MBs = {0, 1, 2, 3}
  Tops = {0, 1, 2, 3, 4, 5, 6, 7}
  Lows = {0}
  MaxPush = 2
  MaxBorrowed = 2
  Partial = TRUE
  BadBits = TRUE
  Export = FALSE
VIEW View
INVARIANTS TypeOK StoreInv SizesInv PrefixInv PassInv AgreeInv WitnessInv NoOOB ContractInv
CHECK_DEADLOCK FALSE
