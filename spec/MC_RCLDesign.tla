---------------------------- MODULE MC_RCLDesign ----------------------------
(***************************************************************************)
(* Bounded instances of RearCoded + RCLDesign.                             *)
(*  - MC_RCLDesign_small*.cfg : every list of at most MaxN strings over    *)
(*    Alphabet of length at most MaxLen, every k in Ks; in every state     *)
(*    (= every such list, as if built there) every index, every start      *)
(*    position and every probe string of length <= MaxLen + 1 is decided   *)
(*    by the transcribed algorithms and compared with the abstract list;   *)
(*    no read outside data / pointers, no unsigned underflow.              *)
(*  - MC_RCLDesign_export*.cfg : the same enumeration, each list printed   *)
(*    as a script (new, pushes, build, full query battery including the    *)
(*    out-of-domain positions) for the executor.                           *)
(*  - MC_RCLDesign_code8.cfg : BITS = 8, the real code boundaries.         *)
(***************************************************************************)
EXTENDS RCLDesign, TLC, Json

CONSTANTS Ks,        \* block sizes
          Alphabet,  \* byte values of the strings
          MaxLen,    \* longest string
          MaxN,      \* longest list
          Over,      \* how far past the end indices / start positions go
          CodeVals,  \* rear lengths on which the code is checked
          Export

mcvars == <<phase, k, strs, data, ptrs, sorted, last>>

StringsUpTo(m) == UNION { [1 .. n -> Alphabet] : n \in 0 .. m }
Strings == StringsUpTo(MaxLen)
Probes  == StringsUpTo(MaxLen + 1)

MCInit == RCInit /\ DInit

New == /\ phase = "none"
       /\ \E kk \in Ks : Install(Eff([op |-> "new", k |-> kk]).st)
       /\ UNCHANGED dvars

Push == /\ phase = "builder"
        /\ N < MaxN
        /\ \E s \in Strings : /\ Install(Eff([op |-> "push", s |-> s]).st)
                              /\ DPush(s)

MCNext == New \/ Push
MCSpec == MCInit /\ [][MCNext]_mcvars

Built == phase = "builder"     \* every builder state is checked as if built there

InvType   == TypeOK /\ (Built => DesignTypeOK)
InvSorted == Built => SortedFlagOK
InvGet    == Built => GetOK(Over)
InvIter   == Built => IterOK(Over)
InvIndex  == Built => IndexOfOK(Probes)
InvSize   == Built => SizeOK
InvCode   == (phase = "none") => CodeOK(CodeVals)

\* ----- behaviour export: one script per list
Seq2(f(_), S) == [t \in 1 .. Len(S) |-> f(S[t])]
Range0(n)  == [t \in 1 .. (n + 1) |-> t - 1]         \* <<0, 1, ..., n>>
SortedProbes == SetToSortSeq(Probes, LAMBDA a, b : LCP(a, b).ord # "gt")

Battery ==
    <<[op |-> "len"], [op |-> "is_empty"], [op |-> "iter"], [op |-> "lend"],
      [op |-> "into_iter"], [op |-> "into_lender"]>>
    \o Seq2(LAMBDA i : [op |-> "get", i |-> i], Range0(N + Over - 1))
    \o Seq2(LAMBDA i : [op |-> "get_in_place", i |-> i, dirty |-> <<7, 7>>], Range0(N + Over - 1))
    \o Seq2(LAMBDA j : [op |-> "iter_from", j |-> j], Range0(N + Over))
    \o Seq2(LAMBDA j : [op |-> "lend_from", j |-> j], Range0(N + Over))
    \o Seq2(LAMBDA s : [op |-> "index_of", s |-> s], SortedProbes)
    \o Seq2(LAMBDA s : [op |-> "contains", s |-> s], SortedProbes)

Script == <<[op |-> "new", k |-> k]>>
          \o Seq2(LAMBDA s : [op |-> "push", s |-> s], strs)
          \o <<[op |-> "blen"], [op |-> "build"]>>
          \o Battery

Emit == (Export /\ Built) =>
            PrintT(<<"SCRIPT", ToJson([fam |-> "rcl", src |-> "tlc", ops |-> Script])>>)
=============================================================================
