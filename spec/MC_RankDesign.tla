---------------------------- MODULE MC_RankDesign ----------------------------
(***************************************************************************)
(* Exhaustive check of RankDesign: every backend of at most MaxWords words *)
(* of W bits (every content, garbage beyond the length included), every    *)
(* length it can hold, every layout variant of Variants.  Build constructs *)
(* the counters; the invariants compare every query with the abstract      *)
(* vector and check that no array is read out of bounds.                   *)
(***************************************************************************)
EXTENDS RankDesign, TLC

CONSTANTS MaxWords, Layouts

VARIABLES var, s, built
mcvars == <<len, nw, store, var, s, built>>

\* layouts as <<wpb, wps, ubw>>; the configurations substitute one of the menus below
Variants == { [wpb |-> t[1], wps |-> t[2], ubw |-> t[3]] : t \in Layouts }

\* scaled Rank9 (wps = 1, no upper counts, sentinel) and RankSmall shapes: word-per-sub-block
\* direct read (rank_small![0]) and scanned sub-blocks (rank_small![1..4]), upper blocks of one
\* or two blocks
LayoutsA == { <<2, 1, 0>>, <<2, 1, 2>>, <<2, 2, 4>>, <<4, 2, 4>>, <<4, 1, 4>> }
LayoutsC == { <<2, 1, 0>>, <<4, 2, 4>>, <<2, 1, 2>> }
LayoutsB == { <<2, 1, 0>>, <<4, 1, 0>>, <<2, 1, 2>>, <<2, 1, 4>>, <<2, 2, 2>>, <<4, 2, 4>>, <<4, 1, 8>>, <<4, 4, 4>>,
              <<8, 2, 8>> }

NoVar == [wpb |-> 1, wps |-> 1, ubw |-> 0]
NoS   == [counts |-> <<>>, upper |-> <<>>, num |-> 0, reads |-> {}]

MCInit == /\ nw \in 0 .. MaxWords
          /\ store \in SUBSET (0 .. (nw * W - 1))
          /\ len \in 0 .. (nw * W)
          /\ var = NoVar /\ s = NoS /\ built = FALSE

Build == /\ ~built
         /\ \E x \in Variants :
              /\ var' = x
              /\ s' = Construct(x)
         /\ built' = TRUE
         /\ UNCHANGED <<len, nw, store>>

MCNext == Build
MCSpec == MCInit /\ [][MCNext]_mcvars

DesignOK ==
    built => /\ CtorNoOOB(s)
             /\ NumOnesOK(s)
             /\ RelFits(var, s)
             /\ RankOK(var, s)
             /\ Rank9AtLen(var, s)
             /\ CountersOK(var, s)

\* C11 at the design level: the counters allocated for n bits, each costing
\* `unit` bits per block of wpb * W bits, stay within the nominal fraction
\* unit / (wpb * W) of n bits plus one block, the sentinel (Rank9) and the
\* upper counts
SpaceDesignOK ==
    built => LET blocks == Len(s.counts) IN
             blocks * var.wpb * W <= len + var.wpb * W + (IF var.ubw = 0 THEN var.wpb * W ELSE 0)
=============================================================================
