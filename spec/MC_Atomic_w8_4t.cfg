SPECIFICATION MCSpec
CONSTANTS
  InstOf <- Ident
  W = 8
  Widths = {3, 5, 6}
  NThreads = {4}
  Menu = {"near", "ef"}
  AllValues = FALSE
  Rots = {0, 1}
  PatSet = {"ones", "alt"}
  Boundaries = {1}
  NearFields = 5
  EFN = {4}
  EFMaxThreads = 4
  MaxT = 4
  Export = FALSE
VIEW View
INVARIANTS InstancesOK TypeOK NoOOB Frame NoInterference SwapLinearizable EqualsSequential
CHECK_DEADLOCK FALSE
