------------------------------- MODULE BitVec -------------------------------
(***************************************************************************)
(* sux::bits::BitVec / AtomicBitVec as a Vec<bool> (properties C06, C14,   *)
(* the BitVec part of C10 and C12).                                        *)
(*                                                                         *)
(* Abstract state: `abs`, the sequence of booleans a Vec<bool> subjected   *)
(* to the same operations would hold.  Design state: the backend, modelled *)
(* as `nw` words of W bits, of which `store` is the set of positions that  *)
(* are 1 (position p lives in word p \div W, bit p % W) -- including the   *)
(* positions at or beyond Len(abs), which the structure must neither trust *)
(* nor modify (C14).                                                       *)
(*                                                                         *)
(* Every public operation is an operator  Eff(op, g)  giving, for the      *)
(* operation record `op` (same field names as the JSON scripts/traces),    *)
(* the admissible outcome ("ret"/"panic"/"na"), the result, and the next   *)
(* state.  `g` is the *growth choice* [nw, garb]: how many words the       *)
(* backend has afterwards and what the bits of freshly appended words      *)
(* beyond the new length are.  The properties do not constrain it (only    *)
(* that the backend is large enough), so the trace specification takes it  *)
(* from the log; the bounded model uses the code's choice  CodeGrowth.     *)
(***************************************************************************)
EXTENDS Naturals, Sequences, FiniteSets, SequencesExt

CONSTANT W                      \* bits per backend word (64 in the code)

VARIABLES abs, store, nw, form,
          tight     \* TRUE while the vector "has only been built or grown" (C11)
bvvars == <<abs, store, nw, form, tight>>

\* "ro": a read-only instance over borrowed storage (zero-copy deserialisation / mmap)
Forms == {"none", "vec", "boxed", "atomic", "atomic_boxed", "ro"}

Low(n)        == 0 .. (n - 1)
Rng(a, b)   == a .. (b - 1)                  \* [a, b)
CeilDiv(a, b) == (a + b - 1) \div b
BLen          == Len(abs)
Ones(a)       == {i \in Low(Len(a)) : a[i + 1]}
Rep(n, v)     == [k \in 1 .. n |-> v]
AbsOf(s, n)   == [k \in 1 .. n |-> (k - 1) \in s]   \* contents of a raw backend
Asc(S)        == SetToSortSeq(S, LAMBDA a, b : a < b)

(***************************************************************************)
(* Invariants of the design state.                                         *)
(***************************************************************************)
TypeOK == /\ abs \in Seq(BOOLEAN)
          /\ nw \in Nat
          /\ form \in Forms
          /\ tight \in BOOLEAN
          /\ store \subseteq Low(nw * W)
Refines      == \A i \in Low(BLen) : abs[i + 1] <=> (i \in store)
LargeEnough  == BLen <= nw * W

(***************************************************************************)
(* Which operations exist on which form.                                   *)
(***************************************************************************)
Ctors    == {"new", "with_value", "with_capacity", "macro_empty", "macro_rep",
             "macro_list", "collect", "raw", "a_new", "a_with_value"}
GrowOps  == {"push", "pop", "resize", "extend"}
\* (par_count_ones is a reader, but the code requires a mutable backend for it)
WriteOps == {"set", "fill", "par_fill", "flip", "par_flip", "reset", "par_reset", "par_count_ones"}
ReadOps  == {"get", "index", "len", "iter", "into_iter", "iter_ones",
             "iter_zeros", "count_ones", "count_zeros",
             "display", "eq_other", "to_owned", "clone", "mem_size",
             "rank_hinted", "select_hinted", "select_zero_hinted"}
PlainOps == WriteOps \cup ReadOps
AtomOps  == {"a_get", "a_index", "a_set", "a_swap", "a_fill", "a_par_fill",
             "a_flip", "a_par_flip", "a_reset", "a_par_reset", "a_count_ones",
             "a_par_count_ones", "a_count_zeros", "a_len", "a_iter"}
IntoOK(f, to) == <<f, to>> \in {<<"vec", "boxed">>, <<"vec", "atomic">>,
                                <<"boxed", "vec">>, <<"boxed", "atomic_boxed">>,
                                <<"atomic", "vec">>, <<"atomic_boxed", "boxed">>}

Applicable(op) ==
    \/ op.op \in Ctors
    \/ op.op \in GrowOps  /\ form = "vec"
    \/ op.op \in WriteOps /\ form \in {"vec", "boxed"}
    \/ op.op \in ReadOps  /\ form \in {"vec", "boxed", "ro"}
    \/ op.op = "capacity" /\ form = "vec"
    \/ op.op = "reload"   /\ form \in {"vec", "boxed"} /\ op.mode \in {"full", "eps", "eps8", "mmap"}
    \/ op.op = "a_mem_size" /\ form \in {"atomic", "atomic_boxed"}
    \/ op.op \in AtomOps  /\ form \in {"atomic", "atomic_boxed"}
    \/ op.op = "into" /\ IntoOK(form, op.to)

(***************************************************************************)
(* The code's growth choice (Vec::push(0), Vec::resize(ceil(n/W), 0)).     *)
(***************************************************************************)
CodeGrowth(op) ==
    LET n == CASE op.op \in {"new", "with_value", "macro_rep", "a_new", "a_with_value"} -> op.n
               [] op.op \in {"macro_list", "collect"} -> Len(op.bits)
               [] op.op \in {"with_capacity", "macro_empty"} -> 0
               [] op.op = "raw" -> op.rlen
               [] op.op = "push" -> BLen + 1
               [] op.op = "extend" -> BLen + Len(op.bits)
               [] op.op = "resize" -> op.n
               [] OTHER -> BLen
    IN  [nw   |-> IF op.op = "raw" THEN op.rnw
                  ELSE IF op.op \in Ctors THEN CeilDiv(n, W)
                  ELSE IF n > nw * W THEN CeilDiv(n, W) ELSE nw,
         garb |-> {}]      \* (reload: the serialised backend is the word vector itself)

\* operations after which the backend is a new allocation
Rebuilds == Ctors \cup {"reload"}

(***************************************************************************)
(* The state after writing the bits  bs  at positions  from ..  and making *)
(* the vector  Len(a)  long, in a backend grown as  g  says.  Bits of      *)
(* words that existed before and are not written keep their value; bits    *)
(* of new words below the new length are determined by  a ; bits of new    *)
(* words beyond it are  g.garb .                                           *)
(***************************************************************************)
GrowOK(op, a, g) ==
    LET base == IF op.op \in Rebuilds THEN 0 ELSE nw IN
    /\ g.nw >= base
    /\ g.nw * W >= Len(a)
    /\ g.garb \subseteq Rng(IF base * W > Len(a) THEN base * W ELSE Len(a), g.nw * W)

Written(a, from) ==          \* store after rewriting positions from..Len(a)-1
    (store \ Rng(from, Len(a))) \cup {i \in Rng(from, Len(a)) : a[i + 1]}

St(a, s, n, f) == [abs |-> a, store |-> s, nw |-> n, form |-> f]
Same           == St(abs, store, nw, form)
\* rk says how the result is to be compared: "none" (no result), "val"
\* (equal to res), "copy" (a vector, checked by CopyOK)
Ret(r, s)      == [out |-> "ret", rk |-> "val", res |-> r, st |-> s]
Unit(s)        == [out |-> "ret", rk |-> "none", res |-> <<>>, st |-> s]
Panic          == [out |-> "panic", rk |-> "none", res |-> <<>>, st |-> Same]
NotApp         == [out |-> "na", rk |-> "none", res |-> <<>>, st |-> Same]
Kind(k)        == [out |-> "ret", rk |-> k, res |-> <<>>, st |-> Same]

RankAt(p)      == Cardinality({i \in Ones(abs) : i < p})
NthOf(S, r)    == Asc(S)[r + 1]                 \* r-th smallest element, r < |S|
Zeros(a)       == Low(Len(a)) \ Ones(a)

(***************************************************************************)
(* Eff(op, g): outcome, result and next state of one public call.          *)
(***************************************************************************)
Eff(op, g) ==
    LET o == op.op IN
    IF ~Applicable(op) THEN [out |-> "na", rk |-> "none", res |-> <<>>, st |-> Same]
    ELSE CASE
    \* ------------------------------------------------------------ constructors
       o \in {"new", "a_new"} ->
         Unit(St(Rep(op.n, FALSE), g.garb, g.nw,
                       IF o = "new" THEN "vec" ELSE "atomic"))
    [] o \in {"with_value", "a_with_value", "macro_rep"} ->
         Unit(St(Rep(op.n, op.v), (IF op.v THEN Low(op.n) ELSE {}) \cup g.garb, g.nw,
                       IF o = "a_with_value" THEN "atomic" ELSE "vec"))
    [] o \in {"with_capacity", "macro_empty"} ->
         Unit(St(<<>>, g.garb, g.nw, "vec"))
    [] o \in {"macro_list", "collect"} ->
         Unit(St(op.bits, Ones(op.bits) \cup g.garb, g.nw, "vec"))
    [] o = "raw" ->
         Unit(St(AbsOf(ToSet(op.rstore), op.rlen), ToSet(op.rstore), op.rnw, "vec"))
    \* ------------------------------------------------------------ growth
    [] o = "push" ->
         LET a == Append(abs, op.b) IN
         Unit(St(a, Written(a, BLen) \cup g.garb, g.nw, form))
    [] o = "extend" ->
         LET a == abs \o op.bits IN
         Unit(St(a, Written(a, BLen) \cup g.garb, g.nw, form))
    [] o = "pop" ->
         IF BLen = 0 THEN Ret(<<>>, Same)
         ELSE Ret(<<abs[BLen]>>, St(SubSeq(abs, 1, BLen - 1), store, nw, form))
    [] o = "resize" ->
         IF op.n <= BLen
         THEN Unit(St(SubSeq(abs, 1, op.n), store, nw, form))
         ELSE LET a == abs \o Rep(op.n - BLen, op.v) IN
              Unit(St(a, Written(a, BLen) \cup g.garb, g.nw, form))
    \* ------------------------------------------------------------ element access
    [] o \in {"get", "index", "a_get", "a_index"} ->
         IF op.i < BLen THEN Ret(abs[op.i + 1], Same) ELSE Panic
    [] o \in {"set", "a_set", "a_swap"} ->
         IF op.i < BLen
         THEN LET s == St([abs EXCEPT ![op.i + 1] = op.b],
                          IF op.b THEN store \cup {op.i} ELSE store \ {op.i}, nw, form)
              IN IF o = "a_swap" THEN Ret(abs[op.i + 1], s) ELSE Unit(s)
         ELSE Panic
    \* ------------------------------------------------------------ bulk writers
    [] o \in {"fill", "par_fill", "a_fill", "a_par_fill"} ->
         LET a == Rep(BLen, op.v) IN Unit(St(a, Written(a, 0), nw, form))
    [] o \in {"reset", "par_reset", "a_reset", "a_par_reset"} ->
         LET a == Rep(BLen, FALSE) IN Unit(St(a, Written(a, 0), nw, form))
    [] o \in {"flip", "par_flip", "a_flip", "a_par_flip"} ->
         LET a == [k \in 1 .. BLen |-> ~abs[k]] IN Unit(St(a, Written(a, 0), nw, form))
    \* ------------------------------------------------------------ readers
    [] o \in {"len", "a_len"} -> Ret(BLen, Same)
    [] o \in {"iter", "into_iter", "display", "a_iter"} -> Ret(abs, Same)
    [] o = "iter_ones"  -> Ret(Asc(Ones(abs)), Same)
    [] o = "iter_zeros" -> Ret(Asc(Low(BLen) \ Ones(abs)), Same)
    [] o \in {"count_ones", "par_count_ones", "a_count_ones", "a_par_count_ones"} ->
         Ret(Cardinality(Ones(abs)), Same)
    [] o \in {"count_zeros", "a_count_zeros"} -> Ret(BLen - Cardinality(Ones(abs)), Same)
    [] o = "eq_other" ->
         LET e == (abs = AbsOf(ToSet(op.ostore), op.olen)) IN Ret(<<e, e, e>>, Same)
    [] o \in {"to_owned", "clone"} -> Kind("copy")
    [] o = "into" -> Unit(St(abs, store, nw, op.to))
    \* ------------------------------------------------------------ space (C11), reload (C15)
    [] o \in {"mem_size", "a_mem_size"} -> Kind("mem")
    [] o = "capacity" -> Kind("cap")
    [] o = "reload" ->
         Unit(St(abs, (store \cap Low(BLen)) \cup g.garb, g.nw,
                 IF op.mode = "full" THEN form ELSE "ro"))
    \* ------------------------------------------------------------ hinted rank/select
    \* (unsafe: the executor calls them only inside their preconditions, which
    \* the specification re-derives; otherwise both say "na")
    [] o = "rank_hinted" ->
         IF op.pos < BLen /\ op.hp * W <= op.pos
         THEN [out |-> "ret", rk |-> "hint", res |-> RankAt(op.pos), hr |-> RankAt(op.hp * W), st |-> Same]
         ELSE NotApp
    [] o = "select_hinted" ->
         IF op.hp < BLen /\ RankAt(op.hp) <= op.r /\ op.r < Cardinality(Ones(abs))
         THEN [out |-> "ret", rk |-> "hint", res |-> NthOf(Ones(abs), op.r), hr |-> RankAt(op.hp), st |-> Same]
         ELSE NotApp
    [] o = "select_zero_hinted" ->
         IF op.hp < BLen /\ op.hp - RankAt(op.hp) <= op.r /\ op.r < Cardinality(Zeros(abs))
         THEN [out |-> "ret", rk |-> "hint", res |-> NthOf(Zeros(abs), op.r), hr |-> op.hp - RankAt(op.hp), st |-> Same]
         ELSE NotApp

\* A copy (to_owned / clone) must have the same contents; its storage beyond
\* the length is unconstrained.
CopyOK(r) == /\ r.olen = BLen
             /\ r.onw * W >= BLen
             /\ \A i \in Low(BLen) : abs[i + 1] <=> (i \in ToSet(r.ostore))
             /\ r.eq


(***************************************************************************)
(* C11: reported memory.  HdrBytes is the additive constant: the struct    *)
(* itself (a Vec = 3 words or a boxed slice / reference = 2 words, plus    *)
(* the length word), at most 4 words.  Whatever the history, the report    *)
(* covers at most the backend words; while the vector has only been built  *)
(* or grown the backend is exactly ceil(len / W) words.                    *)
(***************************************************************************)
HdrBytes == 4 * (W \div 8)
MemOK(r) == /\ r <= HdrBytes + nw * (W \div 8)
            /\ tight => r <= HdrBytes + CeilDiv(BLen, W) * (W \div 8)
CapOK(r) == r >= BLen

\* is the vector still "only built or grown" after op (with effect x)?
TightAfter(op, x) ==
    IF x.out # "ret" THEN tight
    ELSE IF op.op = "raw" THEN FALSE
    ELSE IF op.op \in Ctors THEN TRUE
    ELSE IF op.op = "pop" /\ BLen > 0 THEN FALSE
    ELSE IF op.op = "resize" /\ op.n < BLen THEN FALSE
    ELSE tight

(***************************************************************************)
(* Word-level readers: transcriptions of the loops in bit_vec.rs over the  *)
(* backend words.  Each returns the value it computes and the set of word  *)
(* indices it reads; the design invariants say that the value equals the   *)
(* abstract one whatever the bits beyond the length are, and that no word  *)
(* outside the backend is read.                                            *)
(***************************************************************************)
WordBits(k) == {p - k * W : p \in {q \in store : q \div W = k}}

\* count_ones: full words, then the residual word shifted left by W-residual
CountOnesW ==
    LET full == BLen \div W
        res  == BLen % W
        sum[k \in 0 .. full] == IF k = 0 THEN 0 ELSE sum[k - 1] + Cardinality(WordBits(k - 1))
    IN  [val   |-> sum[full] + (IF res # 0 THEN Cardinality({b \in WordBits(full) : b < res}) ELSE 0),
         reads |-> Low(full) \cup (IF res # 0 THEN {full} ELSE {})]

\* PartialEq: lengths, full words, then the xor of the residual words shifted
EqW(ostore, olen) ==
    LET full == BLen \div W
        res  == BLen % W
        OW(k) == {p - k * W : p \in {q \in ostore : q \div W = k}}
    IN  IF BLen # olen THEN [val |-> FALSE, reads |-> {}]
        ELSE IF \E k \in Low(full) : WordBits(k) # OW(k)
             THEN [val |-> FALSE, reads |-> Low(full)]
        ELSE [val   |-> res = 0 \/ {b \in WordBits(full) : b < res} = {b \in OW(full) : b < res},
              reads |-> Low(full) \cup (IF res # 0 THEN {full} ELSE {})]

\* OnesIterator / ZerosIterator (zeros = TRUE scans the complemented words):
\* `word` is the not-yet-emitted part of the current word.
RECURSIVE ScanW(_, _, _, _, _, _)
ScanW(zeros, widx, word, acc, reads, fuel) ==
    IF fuel = 0 THEN [val |-> acc, reads |-> reads, ok |-> FALSE]
    ELSE IF word = {}
    THEN IF widx + 1 >= nw                      \* `>=`: see fix "iter_ones on an empty backend"
         THEN [val |-> acc, reads |-> reads, ok |-> TRUE]
         ELSE LET w == IF zeros THEN Low(W) \ WordBits(widx + 1) ELSE WordBits(widx + 1)
              IN  ScanW(zeros, widx + 1, w, acc, reads \cup {widx + 1}, fuel - 1)
    ELSE LET b == CHOOSE x \in word : \A y \in word : x <= y
             r == widx * W + b
         IN  IF r >= BLen THEN [val |-> acc, reads |-> reads, ok |-> TRUE]
             ELSE ScanW(zeros, widx, word \ {b}, Append(acc, r), reads, fuel - 1)

IterW(zeros) ==
    LET w0 == IF nw = 0 THEN {} ELSE IF zeros THEN Low(W) \ WordBits(0) ELSE WordBits(0)
    IN  ScanW(zeros, 0, w0, <<>>, IF nw = 0 THEN {} ELSE {0}, (nw + 1) * (W + 1) + 1)

DesignReaders ==
    /\ CountOnesW.val = Cardinality(Ones(abs))
    /\ CountOnesW.reads \subseteq Low(nw)
    /\ IterW(FALSE).ok /\ IterW(FALSE).val = Asc(Ones(abs))
    /\ IterW(TRUE).ok  /\ IterW(TRUE).val = Asc(Low(BLen) \ Ones(abs))
    /\ IterW(FALSE).reads \subseteq Low(nw) /\ IterW(TRUE).reads \subseteq Low(nw)
    /\ EqW(store, BLen).val /\ EqW(store, BLen).reads \subseteq Low(nw)
    \* equality ignores everything beyond the length: all-ones and all-zeros tails
    /\ EqW((store \cap Low(BLen)), BLen).val
    /\ EqW((store \cap Low(BLen)) \cup Rng(BLen, nw * W), BLen).val

(***************************************************************************)
(* Actions of the design model.                                            *)
(***************************************************************************)
Install(s, t) == /\ abs' = s.abs /\ store' = s.store /\ nw' = s.nw /\ form' = s.form /\ tight' = t

BVInit == abs = <<>> /\ store = {} /\ nw = 0 /\ form = "none" /\ tight = TRUE

Do(op) == LET x == Eff(op, CodeGrowth(op)) IN Install(x.st, TightAfter(op, x))

\* design: while only built or grown, the code's backend has exactly ceil(len / W) words
TightDesign == (tight /\ form # "none") => nw = CeilDiv(BLen, W)

=============================================================================
