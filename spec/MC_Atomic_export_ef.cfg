SPECIFICATION MCSpec
CONSTANTS
  InstOf <- Ident
  W = 8
  Widths = {3, 5}
  NThreads = {2}
  Menu = {"ef"}
  AllValues = FALSE
  Rots = {0}
  PatSet = {"zeros"}
  Boundaries = {1}
  NearFields = 0
  EFN = {2}
  EFMaxThreads = 2
  MaxT = 3
  Export = TRUE
INVARIANTS Emit
CHECK_DEADLOCK FALSE
