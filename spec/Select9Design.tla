---------------------------- MODULE Select9Design ----------------------------
(***************************************************************************)
(* Transcription of Select9 (src/rank_sel/select9.rs: Select9::new,        *)
(* select_unchecked) at its REAL parameters: 64-bit words, Rank9 blocks of *)
(* 8 words, one subinventory word per 4 words, 512 ones per inventory      *)
(* entry, four 16-bit / two 32-bit lanes per subinventory word, the span   *)
(* classes 0..1, 2..15, 16..127, 128..255, 256..511, 512...  The constants *)
(* of Select9 are tied to each other (512 = 8 * 64 = 4 lanes * 128 words = *)
(* 8 * 8 counters * 2 words * 4 lanes): no smaller scale keeps all six     *)
(* classes, so instead of enumerating every small vector this model is     *)
(* checked over a menu of large structured vectors (MC_Select9Design).     *)
(*                                                                         *)
(* The backend  bk  (all nw * 64 bits, garbage beyond the length included) *)
(* and the abstract vector  av  (its first  len  bits) are run lists as in *)
(* RankSel; words are never materialised: the population of a word, the    *)
(* position of its j-th one ... are computed from the run list.  The loops *)
(* of the code are rendered by their effect (the ones of the scanned range *)
(* in position order) together with their failure conditions: a safe index *)
(* or slice out of range, an assertion that fails ( panic ), an unchecked  *)
(* read outside its array ( oob ).  Rank9's counters are those specified   *)
(* in RankDesign: absolute(b) = ones of av before bit 512 b, relative(b,j) *)
(* = ones of av in the first j words of block b.                           *)
(***************************************************************************)
EXTENDS RankSel

CONSTANTS Fixed      \* TRUE: the repaired code; FALSE: the code as found (three defects)

VARIABLES bk, av, len

CeilDiv9(a, b) == (a + b - 1) \div b
Min9(a, b) == IF a < b THEN a ELSE b

NW        == bk.len \div 64                 \* backend words
NumWords  == CeilDiv9(len, 64)
M9        == Ones(av)                       \* rank9.num_ones() (repaired Rank9)
InvSize   == CeilDiv9(M9, 512)
SubSize   == CeilDiv9(NumWords, 4)
NumCounts == CeilDiv9(len, 512)             \* counts has NumCounts + 1 entries

Abs9(b)    == Rank(av, b * 512)
Rel9(b, j) == Rank(av, b * 512 + j * 64) - Abs9(b)

(***************************************************************************)
(* Select9::new, first loop: the position of every 512-th one.  The code   *)
(* as found walks every one of the backend; the repaired code stops        *)
(* counting at num_ones.                                                   *)
(***************************************************************************)
Counted == IF Fixed THEN av ELSE bk
InvEntries == [k \in 1 .. CeilDiv9(Ones(Counted), 512) |-> Select(Counted, (k - 1) * 512)]
Sentinel == ((NumWords + 3) \div 4) * 4 * 64
Inv == Append(InvEntries, Sentinel)
PanicInventory == Len(InvEntries) # InvSize          \* assert!(inventory.len() == inventory_size + 1)

(***************************************************************************)
(* Second loop: the subinventory region of inventory entry k (1-based).    *)
(***************************************************************************)
Region(inv, k) ==
    LET a      == inv[k]
        b      == inv[k + 1]
        sStart == (a \div 64) \div 4
        sEnd   == (b \div 64) \div 4
        bLeft  == (a \div 64) \div 8
    IN
    IF sEnd < sStart \/ sEnd > SubSize \/ bLeft > NumCounts     \* subtraction, slice, counts[block_left]
    THEN [cls |-> "bad", panic |-> TRUE]
    ELSE
    LET span  == sEnd - sStart
        bSpan == (b \div 64) \div 8 - bLeft
        base  == Abs9(bLeft)
        pad   == ((bSpan + 8) \div 8) * 8                       \* (block_span + 8) & !7
        \* the scan of the explicit classes: ones of the backend from a on, up to the
        \* end word, at most 512
        r0      == Rank(bk, a)
        endWord == IF Fixed THEN Min9(CeilDiv9(b, 64), NumWords) ELSE CeilDiv9(b, 64)
        avail   == Rank(bk, Min9(endWord, NW) * 64) - r0
        rec     == Min9(512, avail)
        scanPanic(capacity) == (rec < 512 /\ endWord > NW) \/ rec > capacity
    IN
    CASE span <= 1 -> [cls |-> "direct", panic |-> FALSE]
      [] span <= 15 ->
           [cls |-> "one", panic |-> \E i \in 0 .. (Min9(bSpan, 4 * span) - 1) : bLeft + i + 1 > NumCounts,
            lanes |-> [i \in 0 .. (4 * span - 1) |->
                         IF i < bSpan THEN (Abs9(bLeft + i + 1) - base) % 65536
                         ELSE IF i < pad THEN 65535 ELSE 0]]
      [] span <= 127 ->
           [cls |-> "two",
            panic |-> pad + 8 > 4 * span                                       \* s16[k + 8]
                      \/ (\E i1 \in 0 .. (bSpan - 1) : bLeft + i1 + 1 > NumCounts)
                      \/ (\E i2 \in 0 .. ((bSpan \div 8) - 1) : bLeft + (i2 + 1) * 8 > NumCounts),
            lanes |-> [i \in 0 .. (4 * span - 1) |->
                         IF i < 8
                         THEN (IF i < bSpan \div 8 THEN (Abs9(bLeft + (i + 1) * 8) - base) % 65536 ELSE 65535)
                         ELSE IF i - 8 < bSpan THEN (Abs9(bLeft + (i - 8) + 1) - base) % 65536
                         ELSE IF i - 8 < pad THEN 65535 ELSE 0]]
      [] span <= 255 -> [cls |-> "x16", panic |-> scanPanic(4 * span), a |-> a, r0 |-> r0, rec |-> rec, cap |-> 4 * span]
      [] span <= 511 -> [cls |-> "x32", panic |-> scanPanic(2 * span), a |-> a, r0 |-> r0, rec |-> rec, cap |-> 2 * span]
      [] OTHER       -> [cls |-> "x64", panic |-> scanPanic(span), a |-> a, r0 |-> r0, rec |-> rec, cap |-> span]

\* lane t of an explicit region
Explicit(R, t) ==
    IF t >= R.rec THEN 0
    ELSE LET q == Select(bk, R.r0 + t) IN
         CASE R.cls = "x16" -> (q - R.a) % 65536
           [] R.cls = "x32" -> q - R.a
           [] R.cls = "x64" -> q

\* the constructed structure: the inventory and the subinventory regions
Construct9 == LET inv == Inv IN
              [inv |-> inv,
               regs |-> IF PanicInventory THEN <<>> ELSE [k \in 1 .. InvSize |-> Region(inv, k)]]

BuildPanics(D) == PanicInventory \/ \E k \in 1 .. Len(D.regs) : D.regs[k].panic

(***************************************************************************)
(* select_unchecked(rank), documented for rank < num_ones.                 *)
(***************************************************************************)
\* ULEQ_STEP_16 over two subinventory words: how many of the eight lanes are <= x
CountLE(R, from, x) == Cardinality({i \in from .. (from + 7) : R.lanes[i] <= x})
LanesOK(R, from) == from + 7 <= 4 * 127 /\ (from + 7) \in DOMAIN R.lanes

Finish(rank, wordLeft, countLeft) ==
    \* broadword search inside the Rank9 block  countLeft , whose first word is  wordLeft
    IF countLeft > NumCounts THEN [val |-> 0, oob |-> TRUE]
    ELSE
    LET rib == rank - Abs9(countLeft) IN
    IF rank < Abs9(countLeft) \/ rib >= 512 THEN [val |-> 0, oob |-> TRUE]      \* 9-bit lanes
    ELSE
    LET off == Cardinality({j \in 1 .. 7 : Rel9(countLeft, j) <= rib})        \* ULEQ_STEP_9
        w   == wordLeft + off
        riw == rib - Rel9(countLeft, off)
        wordRank == Rank(bk, w * 64)
    IN  IF w >= NW \/ riw >= Rank(bk, (w + 1) * 64) - wordRank THEN [val |-> 0, oob |-> TRUE]
        ELSE [val |-> Select(bk, wordRank + riw), oob |-> FALSE]

SelectUnchecked(D, rank) ==
    LET il == rank \div 512 IN
    IF il + 1 > Len(D.regs) THEN [val |-> 0, oob |-> TRUE]
    ELSE
    LET a       == D.inv[il + 1]
        wLeft   == a \div 64
        wRight  == D.inv[il + 2] \div 64
        span    == wRight \div 4 - wLeft \div 4
        R       == D.regs[il + 1]
        w8      == (wLeft \div 8) * 8                        \* block_left &= !7
        c0      == w8 \div 8
        sr      == rank % 512
    IN
    CASE span <= 1 -> Finish(rank, w8, c0)
      [] span <= 15 ->
           IF rank < Abs9(c0) \/ ~LanesOK(R, 0) THEN [val |-> 0, oob |-> TRUE]
           ELSE LET wh == CountLE(R, 0, rank - Abs9(c0)) * 2 IN
                Finish(rank, w8 + wh * 4, c0 + wh \div 2)
      [] span <= 127 ->
           IF rank < Abs9(c0) \/ ~LanesOK(R, 0) THEN [val |-> 0, oob |-> TRUE]
           ELSE LET x   == rank - Abs9(c0)
                    wh0 == CountLE(R, 0, x) * 2
                    \* subinventory words subinv_pos + where0 + 2 and + 3: lanes 4 * (where0 + 2) ...
                    f   == 4 * (wh0 + 2)
                IN  IF ~((f + 7) \in DOMAIN R.lanes) THEN [val |-> 0, oob |-> TRUE]
                    ELSE LET wh1 == wh0 * 8 + CountLE(R, f, x) * 2 IN
                         Finish(rank, w8 + wh1 * 4, c0 + wh1 \div 2)
      [] span <= 511 ->
           IF sr >= R.cap THEN [val |-> 0, oob |-> TRUE] ELSE [val |-> Explicit(R, sr) + a, oob |-> FALSE]
      [] OTHER ->
           \* the code as found read subinventory[rank % 512], i.e. lane  sr - subinv_pos  of this region
           IF Fixed
           THEN (IF sr >= R.cap THEN [val |-> 0, oob |-> TRUE] ELSE [val |-> Explicit(R, sr), oob |-> FALSE])
           ELSE (IF sr >= SubSize THEN [val |-> 0, oob |-> TRUE]
                 ELSE [val |-> IF sr >= (wLeft \div 4) /\ sr - (wLeft \div 4) < R.cap
                               THEN Explicit(R, sr - (wLeft \div 4)) ELSE 0,
                       oob |-> FALSE])

\* space (C11): one inventory word per 512 ones plus the sentinel, one subinventory word per 4 words
Select9Words == (InvSize + 1) + SubSize
=============================================================================
