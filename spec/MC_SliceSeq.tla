----------------------------- MODULE MC_SliceSeq -----------------------------
(* Bounded model of SliceSeq: every sequence over 0 .. MaxV of length <= MaxN, *)
(* every call with every argument up to MaxN + 2.  Checks that the closed     *)
(* form of into_iter_from is the skip design, that results are well-defined   *)
(* for every argument (C12: an out-of-range get is a panic, an out-of-range   *)
(* start is an empty iteration), and exports every call as a script.          *)
EXTENDS SliceSeq, TLC, Json, FiniteSets
CONSTANTS MaxN, MaxV, Export
VARIABLES hist
mcvars == <<xs, hist>>

AllSeqs == UNION {[1 .. n -> 0 .. MaxV] : n \in 0 .. MaxN}
Calls == {[op |-> "len"], [op |-> "is_empty"], [op |-> "iter"], [op |-> "into_iter"]}
         \cup {[op |-> "get", i |-> i] : i \in 0 .. MaxN + 2}
         \cup {[op |-> "into_iter_from", k |-> k] : k \in 0 .. MaxN + 2}
         \cup {[op |-> "eq", other |-> o] : o \in AllSeqs}

MCInit == xs \in AllSeqs /\ hist = <<>>
Call(c) == /\ Len(hist) < 1
           /\ Eff(c).outs # {}
           /\ hist' = Append(hist, c) /\ UNCHANGED xs
MCNext == \E c \in Calls : Call(c)
MCSpec == MCInit /\ [][MCNext]_mcvars

SkipOK == \A k \in 0 .. MaxN + 2 : SkipIsSubSeq(k)
Total  == \A c \in Calls : Eff(c).outs # {} /\ (c.op \in {"get"} => (("panic" \in Eff(c).outs) <=> c.i >= N))
EqOK   == \A o \in AllSeqs : Eff([op |-> "eq", other |-> o]).res <=> (o = xs)

Emit == (Export /\ hist = <<>>) =>
          PrintT(<<"SCRIPT", ToJson([fam |-> "sliceseq", src |-> "tlc", xs |-> xs, backend |-> "vec",
                      ops |-> [k \in 1 .. (2 * MaxN + 10) |->
                                 IF k <= MaxN + 3 THEN [op |-> "get", i |-> k - 1]
                                 ELSE IF k <= 2 * MaxN + 6 THEN [op |-> "into_iter_from", k |-> k - MaxN - 4]
                                 ELSE IF k = 2 * MaxN + 7 THEN [op |-> "len"]
                                 ELSE IF k = 2 * MaxN + 8 THEN [op |-> "is_empty"]
                                 ELSE IF k = 2 * MaxN + 9 THEN [op |-> "iter"]
                                 ELSE [op |-> "into_iter"]]])>>)
=============================================================================
