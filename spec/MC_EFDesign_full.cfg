SPECIFICATION DSpec
CONSTANTS
  W = 4
  Fixed = TRUE
  MaxN = 5
  MaxU = 12
  AllL = TRUE
INVARIANTS Encoded Queried
CHECK_DEADLOCK FALSE
