SPECIFICATION DSpec
CONSTANTS
  W = 4
  Fixed = TRUE
  FixedPred = TRUE
  MaxN = 5
  MaxU = 10
  AllL = TRUE
INVARIANTS Encoded Queried
CHECK_DEADLOCK FALSE
