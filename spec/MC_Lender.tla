------------------------------ MODULE MC_Lender ------------------------------
(***************************************************************************)
(* Bounded instance of Lender:                                             *)
(*  - every consume/rewind history of Depth operations (next, drain,       *)
(*    rewind, and nexts(2)) over an input menu, for every lender kind and  *)
(*    every Take menu entry, exported as scripts; PassIsPrefix in every    *)
(*    state;                                                               *)
(*  - Lines = LinesRef for every byte string over {a, LF, CR} up to        *)
(*    LinesLen bytes.                                                      *)
(***************************************************************************)
EXTENDS Lender, TLC, Json

CONSTANTS Depth, KindMenu, TakeMenu, WithNexts, LinesLen, Export

VARIABLES hist, hdr
mcvars == <<items, pos, pass, open, hist, hdr>>

\* menus a .cfg cannot write (tuples): referenced as  TakeMenu <- Takes4  etc.
Takes4 == {<<>>, <<1>>, <<2>>, <<5, 2>>}
Takes2 == {<<>>, <<2>>}
Takes5 == {<<>>, <<0>>, <<1>>, <<3>>, <<2, 5>>}

A == 97
B == 98
InputMenu ==
    { <<>>, <<A>>, <<A, LF>>, <<A, CR, LF>>, <<LF>>, <<A, LF, B>>, <<A, CR, LF, LF, B, LF, A, B, CR>>,
      <<CR, LF, A, CR, CR, LF, B, A>> }
ItemMenu == { <<>>, << <<A>> >>, << <<A>>, <<>>, <<B, A>> >> }
RangeMenu == {0, 1, 3}

Header(kd, tk) ==
    IF kd = "fromiter" THEN { [kind |-> kd, input |-> <<>>, items |-> it, n |-> 0, take |-> tk] : it \in ItemMenu }
    ELSE IF kd = "range" THEN { [kind |-> kd, input |-> <<>>, items |-> <<>>, n |-> n, take |-> tk] : n \in RangeMenu }
    ELSE { [kind |-> kd, input |-> inp, items |-> <<>>, n |-> 0, take |-> tk] : inp \in InputMenu }

Headers == UNION { UNION { Header(kd, tk) : tk \in TakeMenu } : kd \in KindMenu }

MCInit == /\ hdr \in Headers
          /\ items = ItemsOf(hdr)
          /\ pos = 0 /\ pass = <<>> /\ open = TRUE
          /\ hist = <<[op |-> "open"]>>

\* one action per operation (so that -coverage reports each of them)
Next    == /\ Len(hist) <= Depth
           /\ Install(Eff([op |-> "next"]).st)
           /\ hist' = Append(hist, [op |-> "next"])
           /\ UNCHANGED <<items, hdr>>
Nexts   == /\ WithNexts
           /\ Len(hist) <= Depth
           /\ Install(Eff([op |-> "nexts", c |-> 2]).st)
           /\ hist' = Append(hist, [op |-> "nexts", c |-> 2])
           /\ UNCHANGED <<items, hdr>>
Drain   == /\ Len(hist) <= Depth
           /\ Install(Eff([op |-> "drain"]).st)
           /\ hist' = Append(hist, [op |-> "drain"])
           /\ UNCHANGED <<items, hdr>>
Rewind  == /\ Len(hist) <= Depth
           /\ Install(Eff([op |-> "rewind"]).st)
           /\ hist' = Append(hist, [op |-> "rewind"])
           /\ UNCHANGED <<items, hdr>>
MCNext  == Next \/ Nexts \/ Drain \/ Rewind
MCSpec  == MCInit /\ [][MCNext]_mcvars

Inv == TypeOK /\ PassIsPrefix

\* Lines in closed form = Lines by scanning, on every short input
Bytes == {A, LF, CR}
ShortInputs == UNION { [1 .. n -> Bytes] : n \in 0 .. LinesLen }
LinesOK == (Len(hist) = 1 /\ hdr.kind = "line_cursor" /\ hdr.input = <<>> /\ hdr.take = <<>>)
               => \A inp \in ShortInputs : Lines(inp) = LinesRef(inp)

Emit == (Export /\ Len(hist) = Depth + 1) =>
            PrintT(<<"SCRIPT", ToJson([fam |-> "lender", src |-> "tlc", kind |-> hdr.kind, input |-> hdr.input,
                                       items |-> hdr.items, n |-> hdr.n, take |-> hdr.take,
                                       cap |-> 3, chunk |-> 2, ops |-> hist])>>)
=============================================================================
