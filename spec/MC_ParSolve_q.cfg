SPECIFICATION PSSpec
CONSTANTS
  MaxK = 3
  S = 3
  EmptyPolicy = "single"
INVARIANTS TypeOK OkSolvesAll ErrIsReal
PROPERTY Termination
CHECK_DEADLOCK TRUE
