SPECIFICATION MCSpec
CONSTANTS
  InstOf <- Ident
  W = 64
  Widths = {5, 31, 33}
  NThreads = {2}
  Menu = {"ef"}
  AllValues = FALSE
  Rots = {0, 1}
  PatSet = {"zeros"}
  Boundaries = {1}
  NearFields = 0
  EFN = {2, 3}
  EFMaxThreads = 3
  MaxT = 3
  Export = FALSE
VIEW View
INVARIANTS InstancesOK TypeOK NoOOB Frame NoInterference SwapLinearizable EqualsSequential
CHECK_DEADLOCK FALSE
