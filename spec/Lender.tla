------------------------------- MODULE Lender -------------------------------
(***************************************************************************)
(* The rewindable lenders of sux::utils::lenders (property C20):           *)
(* LineLender, ZstdLineLender, GzipLineLender over seekable sources,       *)
(* FromIntoIterator, and lender::Take of any of them.                      *)
(*                                                                         *)
(* A lender is, abstractly, the finite sequence `items` it yields in one   *)
(* full pass and the number `pos` of items of the current pass already     *)
(* yielded.  `next` yields items[pos+1] (None at the end, again and        *)
(* again), `rewind` starts a new pass.  `pass` is a history variable: the  *)
(* items yielded since the last rewind; the property is  PassIsPrefix.     *)
(*                                                                         *)
(* What `items` is:                                                        *)
(*  - line lenders: Lines(input), the lines of the (decompressed) bytes:   *)
(*    split after every LF, the LF and one CR immediately before it        *)
(*    removed, a last line without LF kept as it is (if not empty);        *)
(*  - FromIntoIterator: the items of the iterator;                         *)
(*  - Take(m) of a lender: the first m of its items.                       *)
(* Items are sequences of byte values (the number x of a numeric iterator  *)
(* is <<x>>).                                                              *)
(***************************************************************************)
EXTENDS Naturals, Sequences, FiniteSets, SequencesExt

VARIABLES items, pos, pass, open
lvars == <<items, pos, pass, open>>

LF == 10
CR == 13

MinOf(a, b) == IF a < b THEN a ELSE b

(***************************************************************************)
(* Lines, as a definition by scanning the bytes once (the reference) ...   *)
(***************************************************************************)
StripCR(s) == IF Len(s) > 0 /\ s[Len(s)] = CR THEN SubSeq(s, 1, Len(s) - 1) ELSE s

RECURSIVE LinesScan(_, _, _, _)
LinesScan(inp, i, cur, acc) ==          \* cur = bytes of the line being read
    IF i > Len(inp) THEN (IF cur = <<>> THEN acc ELSE Append(acc, cur))
    ELSE IF inp[i] = LF THEN LinesScan(inp, i + 1, <<>>, Append(acc, StripCR(cur)))
    ELSE LinesScan(inp, i + 1, Append(cur, inp[i]), acc)
LinesRef(inp) == LinesScan(inp, 1, <<>>, <<>>)

(***************************************************************************)
(* ... and in closed form from the positions of the LFs (what the trace    *)
(* specification evaluates on inputs of several 100 000 bytes; MC_Lender   *)
(* checks Lines = LinesRef on every short input).                          *)
(***************************************************************************)
Lines(inp) ==
    LET n    == Len(inp)
        ends == SetToSortSeq({i \in 1 .. n : inp[i] = LF}, LAMBDA a, b : a < b)
        m    == Len(ends)
        from(t) == IF t = 1 THEN 1 ELSE ends[t - 1] + 1
        cnt  == IF from(m + 1) <= n THEN m + 1 ELSE m        \* an unterminated last line
    IN  [t \in 1 .. cnt |->
            IF t <= m THEN StripCR(SubSeq(inp, from(t), ends[t] - 1))
            ELSE SubSeq(inp, from(t), n)]

\* (*_flaky: the same lender over a source whose seek can be made to fail)
LineKinds == {"line_cursor", "line_buf", "line_file", "line_path", "zstd_cursor", "zstd_file",
              "zstd_path", "gzip_cursor", "gzip_file", "gzip_path",
              "line_flaky", "zstd_flaky", "gzip_flaky"}
Kinds == LineKinds \cup {"fromiter", "range"}

\* the items of one full pass of the lender described by an episode header
RECURSIVE TakeAll(_, _)
TakeAll(s, ms) == IF ms = <<>> THEN s
                  ELSE TakeAll(SubSeq(s, 1, MinOf(ms[1], Len(s))), SubSeq(ms, 2, Len(ms)))
BaseItems(e) == CASE e.kind \in LineKinds -> Lines(e.input)
                  [] e.kind = "fromiter"  -> e.items
                  [] e.kind = "range"     -> [t \in 1 .. e.n |-> <<t - 1>>]
ItemsOf(e) == TakeAll(BaseItems(e), e.take)

L == Len(items)

TypeOK == /\ pos \in 0 .. L
          /\ open \in BOOLEAN
PassIsPrefix == pass = SubSeq(items, 1, pos)

(***************************************************************************)
(* Eff(op): outcome, expected fields of the event, next state.  Errors     *)
(* (r = "err", end = "err") are admissible only for a rewind whose source  *)
(* was made to fail its seek: the other sources are in memory or regular   *)
(* files and hold valid data.                                              *)
(***************************************************************************)
St(p, ps, o) == [pos |-> p, pass |-> ps, open |-> o]
Same == St(pos, pass, open)
NA   == [out |-> "na", exp |-> [r |-> "-"], st |-> Same]

Eff(op) ==
    LET o == op.op IN
    IF o = "open" THEN [out |-> "ret", exp |-> [r |-> "ok"], st |-> St(0, <<>>, TRUE)]
    ELSE IF ~open THEN NA
    ELSE CASE
       o = "next" ->
         IF pos < L
         THEN [out |-> "ret", exp |-> [r |-> "item", item |-> items[pos + 1]],
               st |-> St(pos + 1, Append(pass, items[pos + 1]), TRUE)]
         ELSE [out |-> "ret", exp |-> [r |-> "none", item |-> <<>>], st |-> Same]
    [] o = "nexts" ->       \* up to c calls of next, stopping at the first None
         LET to == MinOf(pos + op.c, L) IN
         [out |-> "ret",
          exp |-> [res |-> SubSeq(items, pos + 1, to), end |-> IF L - pos >= op.c THEN "more" ELSE "none"],
          st |-> St(to, pass \o SubSeq(items, pos + 1, to), TRUE)]
    [] o = "drain" ->       \* next until None
         [out |-> "ret", exp |-> [res |-> SubSeq(items, pos + 1, L), end |-> "none"],
          st |-> St(L, pass \o SubSeq(items, pos + 1, L), TRUE)]
    [] o = "rewind" ->
         \* a source that cannot be rewound (its seek fails: the op says so)
         \* makes rewind return the error -- never a lender that replays
         \* something else; the lender is consumed by the call
         IF "fail" \in DOMAIN op /\ op.fail
         THEN [out |-> "ret", exp |-> [r |-> "err"], st |-> St(pos, pass, FALSE)]
         ELSE [out |-> "ret", exp |-> [r |-> "ok"], st |-> St(0, <<>>, TRUE)]

LInit == items = <<>> /\ pos = 0 /\ pass = <<>> /\ open = FALSE
Install(s) == pos' = s.pos /\ pass' = s.pass /\ open' = s.open
=============================================================================
