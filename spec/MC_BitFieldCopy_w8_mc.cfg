SPECIFICATION CSpec
CONSTANTS
  WT = "u8"
  Widths = {1, 2, 3, 4, 5, 6, 7, 8}
  MaxLen = 5
  Export = FALSE
INVARIANTS TypeOK Refines LargeEnough CopyCorrect
CHECK_DEADLOCK FALSE
