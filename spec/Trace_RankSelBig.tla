-------------------------- MODULE Trace_RankSelBig --------------------------
(* Trace validation for the "rsbig" family (vectors beyond 2^32 bits).      *)
EXTENDS RankSelBig, Json, IOUtils, TLC

Rec == ndJsonDeserialize(IOEnv.TRACE)

VARIABLES l, skip
tvars == <<blen, runs, built, l, skip>>

TraceInit == BigInit /\ l = 1 /\ skip = FALSE

Step ==
    /\ l <= Len(Rec)
    /\ l' = l + 1
    /\ LET ev == Rec[l] IN
       IF ev.op = "BEGIN"
       THEN /\ blen' = ev.len /\ runs' = ev.runs /\ built' = FALSE /\ skip' = FALSE
       ELSE IF skip THEN UNCHANGED <<blen, runs, built, skip>>
       ELSE IF ev.op = "build"
       \* a constructor that does not return (panic / abort / hang) violates the properties
       THEN IF ev.out = "ret" /\ WellFormed
            THEN built' = TRUE /\ UNCHANGED <<blen, runs, skip>>
            ELSE /\ PrintT(<<"MISMATCH", ev.ep, ev.seq, ev.op, IF WellFormed THEN "constructor" ELSE "bad-script">>)
                 /\ skip' = TRUE /\ UNCHANGED <<blen, runs, built>>
       ELSE IF skip THEN UNCHANGED <<blen, runs, built, skip>>
       ELSE LET w == IF WellFormed THEN Why(ev) ELSE "bad-script"
            IN  IF w = "ok" THEN UNCHANGED <<blen, runs, built, skip>>
                ELSE /\ PrintT(<<"MISMATCH", ev.ep, ev.seq, ev.op, w>>)
                     /\ skip' = TRUE
                     /\ UNCHANGED <<blen, runs, built>>

Finish == /\ l = Len(Rec) + 1
          /\ PrintT(<<"TRACE-END", Len(Rec)>>)
          /\ l' = l + 1
          /\ UNCHANGED <<blen, runs, built, skip>>

TraceNext == Step \/ Finish
TraceSpec == TraceInit /\ [][TraceNext]_tvars
TraceAccepted == TLCGet("stats").diameter = Len(Rec) + 2
=============================================================================
