SPECIFICATION MCSpec
CONSTANTS
  MaxBits = 2
  MaxL = 4
  MaxS = 3
  MaxT = 7
  B = 6
  NMenu = {}
  BigN = {}
  XImpls <- XAll
  Export = FALSE
INVARIANTS ParametricIsDesign DesignImpliesProperty CodeRefinesDesign WideOK
CHECK_DEADLOCK FALSE
