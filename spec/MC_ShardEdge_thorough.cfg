SPECIFICATION MCSpec
CONSTANTS
  MaxBits = 2
  MaxL = 5
  MaxS = 3
  MaxT = 8
  B = 8
  NMenu = {}
  BigN = {}
  XImpls <- XAll
  Export = FALSE
INVARIANTS ParametricIsDesign DesignImpliesProperty CodeRefinesDesign WideOK
CHECK_DEADLOCK FALSE
