-------------------------------- MODULE Wide --------------------------------
(***************************************************************************)
(* Natural numbers beyond TLC's 32-bit integers, as little-endian          *)
(* sequences of base-2^15 limbs without trailing zero limbs (0 = <<>>).    *)
(* Limb products stay below 2^30.  The executor logs such numbers with     *)
(* util::limbs(); JSON arrays become TLA+ sequences.                       *)
(***************************************************************************)
EXTENDS Naturals, Sequences

WBase == 32768

RECURSIVE WNorm(_)
WNorm(s) == IF s # <<>> /\ s[Len(s)] = 0 THEN WNorm(SubSeq(s, 1, Len(s) - 1)) ELSE s

RECURSIVE WOfNat(_)
WOfNat(n) == IF n = 0 THEN <<>> ELSE <<n % WBase>> \o WOfNat(n \div WBase)

\* only meaningful when the value fits (at most two limbs)
WToNat(s) == IF s = <<>> THEN 0
             ELSE IF Len(s) = 1 THEN s[1]
             ELSE s[1] + WBase * s[2]
WIsSmall(s) == Len(s) <= 2

\* -1, 0, 1
RECURSIVE WCmpFrom(_, _, _)
WCmpFrom(a, b, k) == IF k = 0 THEN 0
                     ELSE IF a[k] < b[k] THEN 0 - 1
                     ELSE IF a[k] > b[k] THEN 1
                     ELSE WCmpFrom(a, b, k - 1)
WCmp(a, b) == IF Len(a) < Len(b) THEN 0 - 1
              ELSE IF Len(a) > Len(b) THEN 1
              ELSE WCmpFrom(a, b, Len(a))
WLess(a, b) == WCmp(a, b) = 0 - 1
WLeq(a, b)  == WCmp(a, b) # 1
WEq(a, b)   == a = b

WLimb(s, k) == IF k <= Len(s) THEN s[k] ELSE 0
WMaxLen(a, b) == IF Len(a) > Len(b) THEN Len(a) ELSE Len(b)

RECURSIVE WAddFrom(_, _, _, _)
WAddFrom(a, b, k, carry) ==
    IF k > WMaxLen(a, b) THEN (IF carry = 0 THEN <<>> ELSE <<carry>>)
    ELSE LET t == WLimb(a, k) + WLimb(b, k) + carry
         IN  <<t % WBase>> \o WAddFrom(a, b, k + 1, t \div WBase)
WAdd(a, b) == WAddFrom(a, b, 1, 0)

\* a - b, requires b <= a
RECURSIVE WSubFrom(_, _, _, _)
WSubFrom(a, b, k, borrow) ==
    IF k > Len(a) THEN <<>>
    ELSE LET t == WLimb(a, k) + WBase - WLimb(b, k) - borrow
         IN  <<t % WBase>> \o WSubFrom(a, b, k + 1, IF t < WBase THEN 1 ELSE 0)
WSub(a, b) == WNorm(WSubFrom(a, b, 1, 0))

\* a * k for 0 <= k < 2^15
RECURSIVE WMulFrom(_, _, _, _)
WMulFrom(a, k, i, carry) ==
    IF i > Len(a) THEN (IF carry = 0 THEN <<>> ELSE <<carry>>)
    ELSE LET t == a[i] * k + carry IN <<t % WBase>> \o WMulFrom(a, k, i + 1, t \div WBase)
WMulSmall(a, k) == WNorm(WMulFrom(a, k, 1, 0))

\* schoolbook product
RECURSIVE WMulAcc(_, _, _)
WMulAcc(a, b, j) ==
    IF j > Len(b) THEN <<>>
    ELSE WAdd([i \in 1 .. (j - 1) |-> 0] \o WMulSmall(a, b[j]), WMulAcc(a, b, j + 1))
WMul(a, b) == WNorm(WMulAcc(a, b, 1))

WSucc(a) == WAdd(a, <<1>>)
WPred(a) == WSub(a, <<1>>)     \* requires a # 0
WZero    == <<>>
=============================================================================
