SPECIFICATION MCSpec
CONSTANTS
  InstOf <- Ident
  W = 64
  Widths = {3, 5, 13, 33, 63}
  NThreads = {4}
  Menu = {"field"}
  AllValues = FALSE
  Rots = {0, 1, 2}
  PatSet = {"zeros", "ones", "alt"}
  Boundaries = {1, 2}
  NearFields = 0
  EFN = {}
  EFMaxThreads = 3
  MaxT = 4
  Export = FALSE
VIEW View
INVARIANTS InstancesOK TypeOK NoOOB Frame NoInterference SwapLinearizable EqualsSequential
CHECK_DEADLOCK FALSE
