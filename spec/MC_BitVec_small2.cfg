SPECIFICATION MCSpec
CONSTANTS
  W = 4
  MaxWords = 2
  Depth = 0
  Lens = {0, 1, 3, 4, 5, 8, 9, 12}
  Export = FALSE
CONSTRAINT Bound
VIEW View
INVARIANTS TypeOK Refines LargeEnough DesignReaders PanicsAreClean CodeGrowthOK TightDesign
CHECK_DEADLOCK FALSE
