------------------------------- MODULE MC_Mod2 -------------------------------
(***************************************************************************)
(* Bounded instances of Mod2 / Mod2Design: every system with at most MaxV  *)
(* variables and at most MaxE equations whose constants are subsets of     *)
(* CBits (order of the equations included: pivoting depends on it).        *)
(*                                                                         *)
(* In every state (= every system) TLC checks that                         *)
(*   - the two definitions of solvability agree (elimination / brute force)*)
(*   - the two definitions of satisfaction agree on every assignment       *)
(*   - the transcriptions of gaussian_elimination and                      *)
(*     lazy_gaussian_elimination never panic, return Ok exactly for the    *)
(*     solvable systems, and their assignment satisfies the system         *)
(*   - add_ptr computes the sorted symmetric difference                    *)
(* With Export = TRUE every system becomes a script for the executor       *)
(* (W = u8): both solvers, both constructors, check on two assignments.    *)
(***************************************************************************)
EXTENDS Mod2Design, TLC, Json

CONSTANTS MaxV, MaxE, CBits, Export,
          Part      \* 4: everything; 0..3: only MaxV variables, constants of the first two equations fixed (a quarter of the systems)

VARIABLES nv, eqs
mcvars == <<nv, eqs>>

W == 8
Sys == [nv |-> nv, eqs |-> eqs]

AllEqs(n) == { [v |-> SortedSeq(S), c |-> SortedSeq(C)] : S \in (SUBSET (0 .. n - 1)) \ {{}}, C \in SUBSET CBits }

PartOK(e) == IF Part = 4 THEN TRUE
             ELSE IF Len(eqs) >= 2 THEN TRUE
             ELSE (e.c = <<>>) = ((IF Len(eqs) = 0 THEN Part % 2 ELSE Part \div 2) = 0)
MCInit == nv \in (IF Part = 4 THEN 0 .. MaxV ELSE {MaxV}) /\ eqs = <<>>
Push   == /\ Len(eqs) < MaxE
          /\ \E e \in AllEqs(nv) : PartOK(e) /\ eqs' = Append(eqs, e)
          /\ UNCHANGED nv
MCNext == Push
MCSpec == MCInit /\ [][MCNext]_mcvars

\* ----- invariants -------------------------------------------------------
DomainOK   == InDomain(Sys)
SolvAgree  == ElimSolvable(Sys) = BruteSolvable(Sys)
SatAgree   == \A a \in [1 .. nv -> {SortedSeq(C) : C \in SUBSET CBits}] : Sat(a, Sys, W) = SatW(a, Sys)
GaussOK    == DesignOK(Gauss(nv, DSys(Sys)), Sys, W)
LazyOK     == DesignOK(Lazy(nv, DSys(Sys)), Sys, W)
LazyShape  == eqs # <<>> => LazyShapeOK(nv, DSys(Sys))
AddOK      == \A i, j \in DOMAIN eqs : AddPtrOK(eqs[i], eqs[j])

\* ----- export -----------------------------------------------------------
Zero == [x \in 1 .. nv |-> <<>>]
Ones == [x \in 1 .. nv |-> SortedSeq(CBits)]
Ops  == <<[op |-> "solve", alg |-> "gauss", ctor |-> "push"],
          [op |-> "solve", alg |-> "lazy",  ctor |-> "push"],
          [op |-> "solve", alg |-> "gauss", ctor |-> "parts"],
          [op |-> "solve", alg |-> "lazy",  ctor |-> "parts"],
          [op |-> "check", a |-> Zero],
          [op |-> "check", a |-> Ones],
          [op |-> "dims", ctor |-> "push"]>>
        \o (IF Len(eqs) >= 2 THEN <<[op |-> "add", i |-> 0, j |-> Len(eqs) - 1]>> ELSE <<>>)

Emit == Export =>
          PrintT(<<"SCRIPT", ToJson([fam |-> "mod2", src |-> "tlc", wt |-> "u8", nv |-> nv,
                                     eqs |-> eqs, ops |-> Ops])>>)

\* the large set: only the four-variable systems (the others are in Emit's set),
\* both solvers and nothing else
EmitShort == (Export /\ nv = MaxV /\ Len(eqs) = MaxE) =>
          PrintT(<<"SCRIPT", ToJson([fam |-> "mod2", src |-> "tlc", wt |-> "u8", nv |-> nv,
                                     eqs |-> eqs, ops |-> SubSeq(Ops, 1, 2)])>>)
=============================================================================
