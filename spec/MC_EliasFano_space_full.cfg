SPECIFICATION MCSpec
CONSTANTS
  Mode = "space"
  MaxN = 0
  Extra = 0
  MaxSN = 64
  MaxSU = 4096
INVARIANTS SpaceOK
CHECK_DEADLOCK FALSE
