--------------------------- MODULE Trace_SliceSeq ---------------------------
(* Trace validation for the "sliceseq" family: every recorded call on the    *)
(* real SliceSeq (over a Vec, a boxed slice, a borrowed slice or an array)   *)
(* must have an outcome and a result that SliceSeq!Eff admits.  Handlers are *)
(* total: a rejected line prints MISMATCH and the rest of its episode is     *)
(* skipped.  abort / hang are admitted nowhere.                              *)
EXTENDS SliceSeq, Json, IOUtils, TLC

Rec == ndJsonDeserialize(IOEnv.TRACE)

VARIABLES l, skip
tvars == <<xs, l, skip>>

TraceInit == xs = <<>> /\ l = 1 /\ skip = FALSE

Why(ev) ==
    IF ev.op \notin Ops THEN "unknown-op"
    ELSE LET x == Eff(ev) IN
         IF x.outs = {} THEN "bad-script"
         ELSE IF ev.out \notin x.outs THEN "outcome"
         ELSE IF ev.out # "ret" THEN "ok"
         ELSE IF ev.len # N THEN "len"
         ELSE IF ev.res # x.res THEN "result"
         ELSE "ok"

Step ==
    /\ l <= Len(Rec)
    /\ l' = l + 1
    /\ LET ev == Rec[l] IN
       IF ev.op = "BEGIN"
       THEN IF ev.out = "ret"
            THEN xs' = ev.xs /\ skip' = FALSE
            ELSE /\ PrintT(<<"MISMATCH", ev.ep, ev.seq, ev.op, "outcome">>)
                 /\ skip' = TRUE /\ UNCHANGED xs
       ELSE IF skip THEN UNCHANGED <<xs, skip>>
       ELSE LET w == Why(ev) IN
            IF w = "ok" THEN UNCHANGED <<xs, skip>>
            ELSE /\ PrintT(<<"MISMATCH", ev.ep, ev.seq, ev.op, w>>)
                 /\ skip' = TRUE /\ UNCHANGED xs

Finish == /\ l = Len(Rec) + 1
          /\ PrintT(<<"TRACE-END", Len(Rec)>>)
          /\ l' = l + 1
          /\ UNCHANGED <<xs, skip>>

TraceNext == Step \/ Finish
TraceSpec == TraceInit /\ [][TraceNext]_tvars
TraceAccepted == TLCGet("stats").diameter = Len(Rec) + 2
TraceInv == TRUE
=============================================================================
