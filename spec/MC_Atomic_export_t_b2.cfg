SPECIFICATION MCSpec
CONSTANTS
  InstOf <- Ident
  W = 64
  Widths = {3, 7, 13, 31, 33}
  NThreads = {2, 3}
  Menu = {"field"}
  AllValues = FALSE
  Rots = {1}
  PatSet = {"alt"}
  Boundaries = {2}
  NearFields = 0
  EFN = {}
  EFMaxThreads = 3
  MaxT = 3
  Export = TRUE
INVARIANTS Emit
CHECK_DEADLOCK FALSE
