SPECIFICATION MCSpec
CONSTANTS
  MaxV = 4
  MaxE = 4
  CBits = {0}
  Part = 2
  Export = TRUE
INVARIANTS EmitShort
CHECK_DEADLOCK FALSE
