--------------------------- MODULE MC_RankSelBig ---------------------------
(* The closed form used for select_zero over wide numbers, checked against  *)
(* plain counting on every vector of up to N bits.                          *)
EXTENDS RankSelBig, TLC
CONSTANT N
VARIABLES n, S
MCInit == /\ n \in 0 .. N /\ S \in SUBSET (0 .. (N - 1)) /\ \A x \in S : x < n
          /\ BigInit
MCNext == UNCHANGED <<n, S, blen, runs, built>>
MCSpec == MCInit /\ [][MCNext]_<<n, S, blen, runs, built>>
DefsOK == SmallDefsOK(n, S)
=============================================================================
