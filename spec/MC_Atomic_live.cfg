SPECIFICATION MCLive
CONSTANTS
  InstOf <- Ident
  W = 64
  Widths = {1, 5, 33, 63}
  NThreads = {2, 3}
  Menu = {"field", "bit"}
  AllValues = FALSE
  Rots = {0}
  PatSet = {"alt"}
  Boundaries = {1}
  NearFields = 0
  EFN = {}
  EFMaxThreads = 3
  MaxT = 3
  Export = FALSE
INVARIANTS TypeOK
PROPERTY Termination
CHECK_DEADLOCK FALSE
