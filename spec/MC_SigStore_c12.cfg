SPECIFICATION MCSpec
CONSTANTS
  RB = 1
  Kinds = {"online", "offline"}
  BBs = {0, 1, 2}
  MBs = {0, 1, 2}
  Tops = {0, 3, 5, 7}
  Lows = {0}
  MaxPush = 2
  MaxBorrowed = 1
  Partial = TRUE
  BadBits = TRUE
  Export = FALSE
VIEW View
INVARIANTS TypeOK StoreInv SizesInv PrefixInv PassInv AgreeInv WitnessInv NoOOB ContractInv
CHECK_DEADLOCK FALSE
