---------------------------- MODULE Trace_RankSel ----------------------------
(***************************************************************************)
(* Trace validation for the "ranksel" family: decides whether a recorded   *)
(* execution of the real rank/select structures is a behaviour of RankSel. *)
(* One trace line = one (batched) public call = one step.                  *)
(*                                                                         *)
(* The bit vector of an episode can be large; it stays out of the state:   *)
(* the state holds  cur , the index in Rec of the `vec` event, and the     *)
(* specification reads the runs of ones from  Rec[cur]  (FAMILY_GUIDE,     *)
(* "Large immutable inputs").                                              *)
(***************************************************************************)
EXTENDS RankSel, Json, IOUtils, TLC

Rec == ndJsonDeserialize(IOEnv.TRACE)

VARIABLES l,        \* next line of the trace
          skip,     \* the rest of the episode is not checked (a mismatch was reported)
          cur,      \* index of the `vec` event of the current vector, 0 = none
          stack,    \* Canon(kind) of the structure under test
          built,    \* a structure exists
          loaded,   \* "own" | "full" | "eps" | "mmap"
          nseq      \* sequence number the next event of the episode must carry (no event is lost)
tvars == <<l, skip, cur, stack, built, loaded, nseq>>

V(i) == [len |-> Rec[i].len, s |-> Rec[i].s, e |-> Rec[i].e, c |-> Rec[i].c]

TraceInit == l = 1 /\ skip = FALSE /\ cur = 0 /\ stack = <<>> /\ built = FALSE /\ loaded = "own" /\ nseq = 0

Why(ev) ==
    IF ev.seq # nseq THEN "lost-event" ELSE
    CASE ev.op = "vec" ->
           IF ev.out # "ret" THEN "outcome"
           ELSE IF ~WitnessOK(V(l)) THEN "precondition"
           ELSE IF ev.vlen # ev.len THEN "len"
           ELSE IF ev.nw * 64 < ev.len THEN "backend-too-small"
           ELSE "ok"
      [] ev.op = "build" -> IF cur = 0 THEN "precondition" ELSE BuildWhy(ev)
      [] ev.op \in QueryOps ->
           IF ~built THEN "precondition" ELSE QueryWhy(V(cur), stack, loaded, ev)
      [] ev.op = "mem_size" ->
           IF ~built THEN "precondition" ELSE MemSizeWhy(V(cur), stack, loaded, ev)
      [] ev.op = "reload" ->
           IF ~built THEN "precondition" ELSE ReloadWhy(loaded, ev)
      [] OTHER -> "unknown-op"

Step ==
    /\ l <= Len(Rec)
    /\ l' = l + 1
    /\ nseq' = Rec[l].seq + 1
    /\ LET ev == Rec[l] IN
       IF ev.op = "BEGIN"
       THEN /\ skip' = FALSE /\ cur' = 0 /\ stack' = <<>> /\ built' = FALSE /\ loaded' = "own"
       ELSE IF skip THEN UNCHANGED <<skip, cur, stack, built, loaded>>
       ELSE LET w == Why(ev) IN
            IF w = "ok"
            THEN /\ skip' = FALSE
                 /\ cur' = (IF ev.op = "vec" THEN l ELSE cur)
                 /\ built' = (IF ev.op = "vec" THEN FALSE ELSE IF ev.op = "build" THEN TRUE ELSE built)
                 /\ stack' = (IF ev.op = "build" THEN Canon(ev.kind) ELSE IF ev.op = "vec" THEN <<>> ELSE stack)
                 /\ loaded' = (IF ev.op \in {"vec", "build"} THEN "own"
                               ELSE IF ev.op = "reload" /\ ev.out = "ret" THEN ev.mode ELSE loaded)
            ELSE /\ PrintT(<<"MISMATCH", ev.ep, ev.seq, ev.op, w>>)
                 /\ skip' = TRUE
                 /\ UNCHANGED <<cur, stack, built, loaded>>

Finish == /\ l = Len(Rec) + 1
          /\ PrintT(<<"TRACE-END", Len(Rec)>>)
          /\ l' = l + 1
          /\ UNCHANGED <<skip, cur, stack, built, loaded, nseq>>

TraceNext == Step \/ Finish
TraceSpec == TraceInit /\ [][TraceNext]_tvars

\* every line was consumed (diameter counts the initial state and Finish)
TraceAccepted == TLCGet("stats").diameter = Len(Rec) + 2
=============================================================================
