----------------------------- MODULE MC_Atomic -----------------------------
(***************************************************************************)
(* Bounded instances of Atomic.  Many instances are checked in one TLC run *)
(* through a nondeterministic Init (the instance is the value of `inst`).  *)
(*                                                                         *)
(*  Export = FALSE : every interleaving (CAS retries included) of every    *)
(*     instance of the chosen menus; invariants TypeOK NoOOB Frame         *)
(*     NoInterference SwapLinearizable EqualsSequential; with MCLive also  *)
(*     Termination under weak fairness.  No history is recorded.           *)
(*  Export = TRUE  : `hist` records the schedule (thread ids); every       *)
(*     complete schedule is printed as a script for the executor, which    *)
(*     replays it step by step on the real code (W = 64: usize, W = 8: u8).*)
(*                                                                         *)
(* Menus (constant Menu, a set of names):                                  *)
(*  "field"  NThreads threads, one setfield each, on fields taken from the *)
(*           three (four) consecutive fields around a word boundary        *)
(*           (same word / straddling / next word), every width in Widths,  *)
(*           initial memory zeros / ones / alternating, values 0 /         *)
(*           all-ones / top bit only (all combinations, or one rotation)   *)
(*  "near"   W = 8 style exhaustive: every set of 2..3 distinct fields     *)
(*           among the first NearFields fields                             *)
(*  "field2" two threads with two setfield jobs each (program order)       *)
(*  "bit"    AtomicBitVec set / clear / swap / get on distinct bits of one *)
(*           word and on a shared bit, around the first word boundary      *)
(*  "ef"     EliasFanoConcurrentBuilder::set jobs, every partition of the  *)
(*           indices over the threads                                      *)
(***************************************************************************)
EXTENDS Atomic, TLC, Json, SequencesExt

CONSTANTS W,            \* word size of the bit-field vector
          Widths,       \* field widths
          NThreads,     \* thread counts of the "field" / "near" menus
          Menu,         \* set of menu names
          AllValues,    \* TRUE: every combination of values; FALSE: the rotations Rots
          Rots,         \* rotations of <<all-ones, 0, top-bit>> over the threads
          PatSet,       \* initial memory patterns: subset of {"zeros", "ones", "alt"}
          Boundaries,   \* "field" / "field2": which word boundaries (1 = bit W, 2 = bit 2W)
          NearFields,   \* "near": fields 0 .. NearFields-1
          EFN,          \* "ef": numbers of elements
          EFMaxThreads, \* "ef": at most this many threads
          MaxT,         \* bound on the number of threads (fairness)
          Export

VARIABLE hist
mcvars == <<inst, mem, pc, jix, seen, ret, hist>>

Ident(x) == x                          \* InstOf: the instance is the value of inst

Asc(S)        == SetToSortSeq(S, LAMBDA a, b : a < b)
CeilDiv(a, b) == (a + b - 1) \div b
Max2(a, b)    == IF a > b THEN a ELSE b

Pats == PatSet
PatBit(n, p) == CASE n = "zeros" -> FALSE [] n = "ones" -> TRUE [] n = "alt" -> p % 2 = 0
WordsOf(nw, w, n) == [k \in 1 .. nw |-> Asc({c \in Low(w) : PatBit(n, (k - 1) * w + c)})]

SF(i, v)    == [kind |-> "setfield", idx |-> i, val |-> v, hi |-> 0]
EFJ(i, v, h) == [kind |-> "efset", idx |-> i, val |-> v, hi |-> h]
BJ(k, p)    == [kind |-> k, idx |-> p, val |-> <<>>, hi |-> 0]
SW(p, v)    == [kind |-> "swapbit", idx |-> p, val |-> IF v THEN <<0>> ELSE <<>>, hi |-> 0]

Inst(wd, flen, pat, blen, bpat, progs) ==
    LET nfw == Max2(1, CeilDiv(flen * wd, W))
        nbw == CeilDiv(blen, BW)
    IN  [w |-> W, width |-> wd, flen |-> flen, nfw |-> nfw, finit |-> WordsOf(nfw, W, pat),
         blen |-> blen, nbw |-> nbw, binit |-> WordsOf(nbw, BW, bpat), prog |-> progs]

\* values: 0, all ones, top bit only (10...0)
ValMenu(wd) == IF wd = 0 THEN {<<>>} ELSE {<<>>, Asc(Low(wd)), <<wd - 1>>}
ValSeq(wd)  == IF wd = 0 THEN <<<<>>, <<>>, <<>>>> ELSE <<Asc(Low(wd)), <<>>, <<wd - 1>>>>

\* value assignments to n threads: all combinations, or the rotations of ValSeq
ValChoices(wd, n) ==
    IF AllValues THEN [1 .. n -> ValMenu(wd)]
    ELSE {[t \in 1 .. n |-> ValSeq(wd)[((t + r) % 3) + 1]] : r \in Rots}

\* ----- "field": around the first word boundary ------------------------------
\* the field containing (or starting at) bit b * W
K(wd, b) == IF wd = 0 THEN b ELSE Max2(1, (b * W) \div wd)
FieldSets(wd, n, b) ==       \* sequences of n distinct fields out of K-1, K, K+1 (K+2)
    LET k == K(wd, b) IN
    IF n = 4 THEN {<<k - 1, k, k + 1, k + 2>>}
    ELSE IF n = 3 THEN {<<k - 1, k, k + 1>>}
    ELSE IF n = 2 THEN {<<k - 1, k>>, <<k, k + 1>>, <<k - 1, k + 1>>}
    ELSE {<<k>>}

FieldInstances ==
    UNION { UNION { UNION { UNION { UNION {
        { Inst(wd, K(wd, b) + 4, pat, 0, "zeros", [t \in 1 .. n |-> <<SF(fs[t], vs[t])>>]) :
            vs \in ValChoices(wd, n) } :
          fs \in FieldSets(wd, n, b) } :
        pat \in Pats } :
      n \in NThreads } :
    wd \in Widths } :
    b \in Boundaries }

\* ----- "near": every set of distinct fields among the first NearFields ------
NearSets(n) == {s \in [1 .. n -> Low(NearFields)] : \A a, b \in 1 .. n : a < b => s[a] < s[b]}
NearInstances ==
    UNION { UNION { UNION { UNION {
        { Inst(wd, NearFields + 1, pat, 0, "zeros", [t \in 1 .. n |-> <<SF(fs[t], vs[t])>>]) :
            vs \in ValChoices(wd, n) } :
          fs \in NearSets(n) } :
        pat \in Pats } :
      n \in NThreads } :
    wd \in Widths }

\* ----- "field2": two threads, two jobs each, interleaved fields ------------
Field2Instances ==
    UNION { UNION { UNION { UNION {
        LET k == K(wd, b) IN
        { Inst(wd, k + 4, pat, 0, "zeros",
               << <<SF(k - 1, vs[1]), SF(k + 1, vs[2])>>,
                  <<SF(k, vs[2]), SF(k + 2, vs[1])>> >>),
          \* a thread may write its own element twice; the last value stays
          Inst(wd, k + 4, pat, 0, "zeros",
               << <<SF(k, vs[1]), SF(k, vs[2])>>, <<SF(k + 1, vs[2])>> >>) } :
          vs \in ValChoices(wd, 2) } :
        pat \in Pats } :
      wd \in Widths } :
    b \in Boundaries }

\* ----- "bit": AtomicBitVec jobs around bit 63 | 64 --------------------------
B == BOOLEAN
BitProgs ==
    UNION { {
      \* distinct bits of the same word(s)
      << <<BJ("setbit", p)>>, <<BJ("clearbit", p + 1)>>, <<SW(p - 1, TRUE), BJ("getbit", p - 1)>> >>,
      << <<BJ("setbit", p), BJ("getbit", p)>>, <<BJ("clearbit", p - 1), BJ("setbit", p - 1)>> >>,
      \* set / clear / swap on one shared bit: linearizable
      << <<BJ("setbit", p)>>, <<BJ("clearbit", p)>>, <<SW(p, TRUE), BJ("getbit", p)>> >> }
      \cup { << <<SW(p, a)>>, <<SW(p, b)>>, <<SW(p, c)>> >> : a, b, c \in B }
      \cup { << <<SW(p, a), SW(p, b)>>, <<SW(p, c), BJ("getbit", p)>> >> : a, b, c \in B }
      \cup { << <<SW(p, a)>>, <<SW(p + 1, b)>>, <<BJ("getbit", p), BJ("getbit", p + 1)>> >> : a, b \in B }
      : p \in {63, 64} }
BitInstances == { Inst(1, 1, "zeros", 130, bpat, pr) : bpat \in Pats, pr \in BitProgs }

\* ----- "ef": the concurrent Elias-Fano builder ------------------------------
\* n elements; element i has low part lows[i] (width = l) and goes to the
\* high-bit position highs[i] + i, highs nondecreasing; every partition of the
\* indices over at most EFMaxThreads threads (each thread in index order).
MaxUpTo(a, i) == IF i = 0 THEN 0 ELSE CHOOSE m \in 1 .. EFMaxThreads :
                     (\E i2 \in 1 .. i : a[i2] = m) /\ \A i2 \in 1 .. i : a[i2] <= m
\* assignments index -> thread, canonical: thread numbers in order of first use
Parts(n) == {a \in [1 .. n -> 1 .. EFMaxThreads] : \A i \in 1 .. n : a[i] <= 1 + MaxUpTo(a, i - 1)}
NThreadsOf(a) == MaxUpTo(a, Len(a))
EFHighs(n) == {h \in [1 .. n -> {0, 1, 62}] : \A i \in 1 .. (n - 1) : h[i] <= h[i + 1]}
EFProg(n, l, a, lows, h) ==
    [t \in 1 .. NThreadsOf(a) |->
        LET mine == Asc({i \in 1 .. n : a[i] = t})
        IN  [k \in 1 .. Len(mine) |-> EFJ(mine[k] - 1, lows[mine[k]], h[mine[k]] + mine[k] - 1)]]
EFInstances ==
    UNION { UNION { UNION { UNION {
        { Inst(l, n, "zeros", n + 62 + 1, "zeros", EFProg(n, l, a, lows, h)) :
            lows \in ValChoices(l, n) } :
          h \in EFHighs(n) } :
        a \in {x \in Parts(n) : NThreadsOf(x) >= 2} } :
      n \in EFN } :
    l \in Widths }

Instances ==
    (IF "field" \in Menu THEN FieldInstances ELSE {})
    \cup (IF "near" \in Menu THEN NearInstances ELSE {})
    \cup (IF "field2" \in Menu THEN Field2Instances ELSE {})
    \cup (IF "bit" \in Menu THEN BitInstances ELSE {})
    \cup (IF "ef" \in Menu THEN EFInstances ELSE {})

\* ----- behaviour ----------------------------------------------------------
MCInit == /\ \E i \in Instances : AInit(i)
          /\ hist = <<>>

H(t) == hist' = IF Export THEN Append(hist, t) ELSE hist

MLoad1    == \E t \in Threads : Load1(t) /\ H(t)
MCas1Ok   == \E t \in Threads : Cas1Ok(t) /\ H(t)
MCas1Fail == \E t \in Threads : Cas1Fail(t) /\ H(t)
MLoad2    == \E t \in Threads : Load2(t) /\ H(t)
MCas2Ok   == \E t \in Threads : Cas2Ok(t) /\ H(t)
MCas2Fail == \E t \in Threads : Cas2Fail(t) /\ H(t)
MRmw      == \E t \in Threads : Rmw(t) /\ H(t)
MBLoad    == \E t \in Threads : BLoad(t) /\ H(t)

MCNext == MLoad1 \/ MCas1Ok \/ MCas1Fail \/ MLoad2 \/ MCas2Ok \/ MCas2Fail \/ MRmw \/ MBLoad
MCSpec == MCInit /\ [][MCNext]_mcvars
MCLive == MCSpec /\ \A t \in 1 .. MaxT : WF_mcvars(t \in Threads /\ ThreadStep(t) /\ H(t))

View == avars

\* the instances are inside the hypothesis of the property (no vacuity)
InstancesOK == WellFormedI(I) /\ Len(I.prog) <= MaxT /\ DistinctFields

\* one line per complete schedule
Episode == [fam |-> "atomic", src |-> "tlc", ord |-> "relaxed", budget_ms |-> 180000,
            ops |-> [k \in 1 .. Len(hist) |-> [op |-> "step", t |-> hist[k]]] \o <<[op |-> "end"]>>] @@ I
Emit == (Export /\ Quiescent) => PrintT(<<"SCRIPT", ToJson(Episode)>>)
=============================================================================
