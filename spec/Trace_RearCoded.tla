-------------------------- MODULE Trace_RearCoded --------------------------
(***************************************************************************)
(* Trace validation for the "rcl" family: decides whether a recorded       *)
(* execution of the real RearCodedListBuilder / RearCodedList is a         *)
(* behaviour of RearCoded.  One trace line = one public call = one step.   *)
(* Handlers are total: a line the specification does not admit prints      *)
(* MISMATCH and the rest of its episode is skipped.                        *)
(***************************************************************************)
EXTENDS RearCoded, Json, IOUtils, TLC

Rec == ndJsonDeserialize(IOEnv.TRACE)

VARIABLES l, skip
tvars == <<phase, k, strs, l, skip>>

TraceInit == RCInit /\ l = 1 /\ skip = FALSE

Has(ev, f) == f \in DOMAIN ev

\* first reason for which the logged event differs from what the spec admits.
\* abort / hang are in no operation's outcome set (C12).
Why(ev, x) ==
    IF ev.out \notin x.outs THEN "outcome"
    ELSE IF ev.phase # x.st.phase THEN "phase"
    ELSE IF ev.len # Len(x.st.strs) THEN "len"
    ELSE IF ev.out # "ret" THEN "ok"
    ELSE IF Has(ev, "err") THEN "reload-error"
    ELSE CASE x.rk = "none"  -> "ok"
           [] x.rk = "val"   -> IF ev.res = x.res THEN "ok" ELSE "result"
           [] x.rk = "iter"  -> IF ev.res # x.res THEN "items"
                                ELSE IF ev.hints # x.hints THEN "len-hint"
                                ELSE IF ev.lo # x.hints \/ ev.hi # x.hints THEN "size-hint"
                                ELSE "ok"
           [] x.rk = "empty" -> IF ev.res = <<>> THEN "ok" ELSE "items-past-end"
           [] x.rk = "index" -> IF IndexOK(ev.s, ev.res) THEN "ok" ELSE "index"
           [] x.rk = "bound" -> IF ev.res <= x.res THEN "ok" ELSE "space"

Step ==
    /\ l <= Len(Rec)
    /\ l' = l + 1
    /\ LET ev == Rec[l] IN
       IF ev.op = "BEGIN"
       THEN /\ phase' = "none" /\ k' = 0 /\ strs' = <<>>
            /\ skip' = FALSE
       ELSE IF skip THEN UNCHANGED <<phase, k, strs, skip>>
       ELSE LET x == Eff(ev)
                w == Why(ev, x)
            IN  IF w = "ok"
                THEN Install(x.st) /\ skip' = FALSE
                ELSE /\ PrintT(<<"MISMATCH", ev.ep, ev.seq, ev.op, w>>)
                     /\ skip' = TRUE
                     /\ UNCHANGED <<phase, k, strs>>

Finish == /\ l = Len(Rec) + 1
          /\ PrintT(<<"TRACE-END", Len(Rec)>>)
          /\ l' = l + 1
          /\ UNCHANGED <<phase, k, strs, skip>>

TraceNext == Step \/ Finish
TraceSpec == TraceInit /\ [][TraceNext]_tvars

\* every line was consumed (diameter counts the initial state and Finish)
TraceAccepted == TLCGet("stats").diameter = Len(Rec) + 2

TraceInv == skip \/ TypeOK
=============================================================================
