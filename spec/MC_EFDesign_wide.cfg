SPECIFICATION DSpec
CONSTANTS
  W = 8
  Fixed = TRUE
  FixedPred = TRUE
  MaxN = 3
  MaxU = 24
  AllL = FALSE
INVARIANTS Encoded Queried
CHECK_DEADLOCK FALSE
