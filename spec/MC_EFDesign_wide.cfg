SPECIFICATION DSpec
CONSTANTS
  W = 8
  Fixed = TRUE
  MaxN = 2
  MaxU = 26
  AllL = TRUE
INVARIANTS Encoded Queried
CHECK_DEADLOCK FALSE
