---------------------------- MODULE MC_ParSolve ----------------------------
(***************************************************************************)
(* Bounded instances of ParSolve: every number of workers 1 .. MaxK, every *)
(* assignment of kinds to the shards (both chosen in the initial state),   *)
(* every schedule.                                                         *)
(*                                                                         *)
(* EmptyPolicy = "single": an empty shard exists only when there is a      *)
(* single shard (n = 0).  That is what the check of the largest shard in   *)
(* try_seed guarantees before par_solve is reached (lemma NoEmptyShard     *)
(* below): under it OkSolvesAll holds.  EmptyPolicy = "any" shows what the *)
(* early `return` on an empty shard would do otherwise:                    *)
(* MC_ParSolve_empty.cfg violates OkSolvesAll (with one worker the shards  *)
(* after an empty one are never solved, and Ok is returned).               *)
(***************************************************************************)
EXTENDS ParSolve, TLC

(***************************************************************************)
(* Lemma used above: with 2 <= S <= 64 shards and n >= 1 keys, if the      *)
(* largest shard is at most 1.01 times the average (the condition under    *)
(* which try_seed goes on to par_solve) then no shard is empty.  Checked   *)
(* on every distribution of n <= 18 keys over 2 shards and of <= 24 keys   *)
(* over 4 shards; in general an empty shard forces                         *)
(* max >= n / (S - 1) > 1.01 n / S  whenever S < 101.                      *)
(***************************************************************************)
Sum4(v) == v[1] + v[2] + v[3] + v[4]
Max4(v) == CHOOSE x \in {v[1], v[2], v[3], v[4]} : \A y \in {v[1], v[2], v[3], v[4]} : y <= x
NoEmptyShard ==
    /\ \A a, b \in 0 .. 9 :
          (a + b >= 1 /\ 100 * 2 * (IF a > b THEN a ELSE b) <= 101 * (a + b)) => (a >= 1 /\ b >= 1)
    /\ \A v \in [1 .. 4 -> 0 .. 6] :
          (Sum4(v) >= 1 /\ 100 * 4 * Max4(v) <= 101 * Sum4(v)) => \A i \in 1 .. 4 : v[i] >= 1
ASSUME NoEmptyShard
=============================================================================
