SPECIFICATION MCSpec
CONSTANTS
  Depth = 6
  KindMenu = {"line_path", "zstd_path", "gzip_path", "zstd_cursor", "gzip_cursor", "fromiter"}
  TakeMenu <- Takes2
  WithNexts = FALSE
  LinesLen = 8
  Export = TRUE
INVARIANTS Inv LinesOK Emit
CHECK_DEADLOCK FALSE
