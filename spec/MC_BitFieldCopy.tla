--------------------------- MODULE MC_BitFieldCopy ---------------------------
(***************************************************************************)
(* C10, copy: every (width, src.len, dst.len, from, to, n) up to MaxLen    *)
(* elements on W = 8 (a real instantiation: BitFieldVec<u8>), with         *)
(* pairwise-distinct source values and a complementary, dirty destination: *)
(* all relative bit alignments of source and destination, single- and      *)
(* multi-word spans, truncation by either vector.  In every case the       *)
(* six-way word-level algorithm (CopyDesign) must equal the documented     *)
(* element-by-element definition (CopyStore), touch no word outside the    *)
(* two backends and shift by less than W.  One action per branch of the    *)
(* algorithm, so that -coverage reports how often each was taken.  With    *)
(* Export = TRUE every case is also printed as a script (one episode per   *)
(* (width, src.len, dst.len, spare)) and replayed on the real code.        *)
(***************************************************************************)
EXTENDS BitField, TLC, Json

CONSTANTS WT, Widths, MaxLen, Export

VARIABLES dlen, dnw, br
cvars == <<wt, width, abs, store, nw, form, built, dlen, dnw, br>>

WW == WOf(WT)
Asc(S) == SetToSortSeq(S, LAMBDA a, b : a < b)

\* element i holds (i * 5 + 3) mod 2^wd: pairwise distinct for i < 2^wd
Pow2(k)  == IF k = 0 THEN 1 ELSE IF k = 1 THEN 2 ELSE IF k = 2 THEN 4 ELSE IF k = 3 THEN 8 ELSE IF k = 4 THEN 16
            ELSE IF k = 5 THEN 32 ELSE IF k = 6 THEN 64 ELSE IF k = 7 THEN 128 ELSE 256
ValOf(i, wd) == {b \in Low(wd) : (((i * 5 + 3) % Pow2(wd)) \div Pow2(b)) % 2 = 1}
DistinctStore(n, wd) == UNION {{i * wd + b : b \in ValOf(i, wd)} : i \in Low(n)}

\* destination: complement of another distinct pattern, everything beyond its contents set
DStore == Low(dnw * WW) \ DistinctStore(dlen, width)

Cases ==      \* (from, to, n) with n around the number of elements actually copied
    UNION { UNION { { <<f, t, n>> : n \in {m \in {0, 1, CopyCount(HUGE, BLen, f, dlen, t) - 1,
                                                  CopyCount(HUGE, BLen, f, dlen, t),
                                                  CopyCount(HUGE, BLen, f, dlen, t) + 1} : m >= 0} } :
                    t \in 0 .. dlen } :
            f \in 0 .. BLen }

CopyOf(c) == CopyDesign(store, BLen, c[1], DStore, dlen, c[2], c[3])

CInit == BFInit(WT) /\ dlen = 0 /\ dnw = 0 /\ br = 0

Construct ==
    /\ form = "none"
    /\ \E wd \in Widths : \E sl \in 0 .. MaxLen : \E dl \in 0 .. MaxLen : \E spare \in {0, 1} :
          LET k == OneOr(CeilDiv(sl * wd, WW)) + spare IN
          /\ Do([op |-> "raw", width |-> wd, rlen |-> sl, rnw |-> k,
                 rstore |-> Asc(DistinctStore(sl, wd) \cup Rng(sl * wd, k * WW))])
          /\ dlen' = dl /\ dnw' = OneOr(CeilDiv(dl * wd, WW)) + (1 - spare) /\ br' = 0

\* one action per branch of the algorithm (separate definitions, so that -coverage names them)
Taken(k) == form # "none" /\ br = 0 /\ \E c \in Cases : CopyOf(c).branch = k
Keep     == UNCHANGED <<wt, width, abs, store, nw, form, built, dlen, dnw>>
B0 == Taken(0) /\ br' = 10 /\ Keep      \* nothing to copy
B1 == Taken(1) /\ br' = 1 /\ Keep       \* source and destination within one word each
B2 == Taken(2) /\ br' = 2 /\ Keep       \* source in one word, destination across two
B3 == Taken(3) /\ br' = 3 /\ Keep       \* source across two words, destination in one
B4 == Taken(4) /\ br' = 4 /\ Keep       \* multi-word, same bit offset
B5 == Taken(5) /\ br' = 5 /\ Keep       \* multi-word, src_bit < dst_bit
B6 == Taken(6) /\ br' = 6 /\ Keep       \* multi-word, src_bit > dst_bit

CNext == Construct \/ B0 \/ B1 \/ B2 \/ B3 \/ B4 \/ B5 \/ B6
CSpec == CInit /\ [][CNext]_cvars

\* CopyDesign = Copy, in bounds, no shift overflow -- for every case of the state
CopyCorrect ==
    (form # "none" /\ br = 0) =>
        \A c \in Cases :
            LET x == CopyOf(c)
                k == CopyCount(c[3], BLen, c[1], dlen, c[2])
            IN  /\ x.store = CopyStore(abs, c[1], DStore, c[2], k, width)
                /\ x.ok /\ x.reads \subseteq Low(nw) /\ x.writes \subseteq Low(dnw)
                \* and no other element of the destination changes
                /\ AbsOf(x.store, dlen, width) = CopyAbs(abs, c[1], AbsOf(DStore, dlen, width), c[2], k)

CaseOps ==
    LET cs == SetToSortSeq(Cases, LAMBDA a, b : a[1] < b[1] \/ (a[1] = b[1] /\ (a[2] < b[2] \/ (a[2] = b[2] /\ a[3] < b[3])))) IN
    [i \in 1 .. Len(cs) |-> [op |-> "copy_to", from |-> cs[i][1], to |-> cs[i][2], n |-> cs[i][3],
                             olen |-> dlen, onw |-> dnw, ostore |-> Asc(DStore)]]

\* after the copies out of the vector, copies into it (the state evolves; the trace spec follows)
IntoOps ==
    LET ts == {0, 1, BLen \div 2} \cap (0 .. BLen) IN
    [i \in 1 .. Cardinality(ts) |->
        [op |-> "copy_from", from |-> (i - 1) % (dlen + 1), to |-> Asc(ts)[i], n |-> dlen + BLen,
         olen |-> dlen, onw |-> dnw, ostore |-> Asc(DStore)]]

Emit == (Export /\ form # "none" /\ br = 0) =>
            PrintT(<<"SCRIPT", ToJson([fam |-> "bitfield", wt |-> WT, src |-> "tlc",
                                       ops |-> <<[op |-> "raw", width |-> width, rlen |-> BLen, rnw |-> nw,
                                                  rstore |-> Asc(store)]>> \o CaseOps \o IntoOps \o <<[op |-> "iter"]>>])>>)
=============================================================================
