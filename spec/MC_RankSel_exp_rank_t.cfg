SPECIFICATION MCSpec
CONSTANTS
  Export = TRUE
  MaxLen = 0
  Lens = {1, 63, 64, 65, 511, 512, 513, 1023, 1024, 2047, 2048, 8191, 8192, 8193}
  MaxRuns = 3
  PerVec = 4
  What = "rank"
INVARIANTS Emit
CHECK_DEADLOCK FALSE
