SPECIFICATION MCSpec
CONSTANTS
  Mode = "queries"
  MaxN = 4
  Extra = 0
  MaxSN = 0
  MaxSU = 0
INVARIANTS StateOK Emit
CHECK_DEADLOCK FALSE
