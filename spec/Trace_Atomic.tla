---------------------------- MODULE Trace_Atomic ----------------------------
(***************************************************************************)
(* Trace validation for the "atomic" family: decides whether a recorded    *)
(* scheduled execution of the real AtomicBitFieldVec / AtomicBitVec is a   *)
(* behaviour of Atomic.                                                    *)
(*                                                                         *)
(*  BEGIN  the instance (copied from the script) and the memory observed   *)
(*         after construction                                              *)
(*  step   thread t executed one atomic instruction: it must be the        *)
(*         instruction the specification's thread t is at (hook kind and   *)
(*         word), with exactly the specification's effect on memory (the   *)
(*         touched word; no other word of either vector changed), the      *)
(*         thread must be at the specification's next instruction (this is *)
(*         where a compare-exchange that should have failed / succeeded    *)
(*         shows), and a completed swap / get returned the old / current   *)
(*         bit.  A step of a finished thread is logged as "na" and must be *)
(*         one in the specification too.                                   *)
(*  free   the threads ran unscheduled, many times: every distinct outcome *)
(*         must be one the specification guarantees for every interleaving *)
(*         (see FreeWhy)                                                   *)
(*  end    every thread of the specification is done; the final memory,    *)
(*         get_atomic of every field, get of every bit, the non-atomic     *)
(*         forms after conversion, job outcomes and returned values are    *)
(*         the specification's; NoInterference holds of the final memory.  *)
(*                                                                         *)
(* Episodes of mode "efb" run the jobs as EliasFanoConcurrentBuilder::set  *)
(* calls on a real builder whose vectors are private: their steps carry no *)
(* memory (hook and next hook only, which still show every compare-        *)
(* exchange outcome), BEGIN must describe the builder's allocation, and    *)
(* the end event carries the low / high bits and the values of the built   *)
(* structure and of the sequential EliasFanoBuilder over the same values:  *)
(* both must be the specification's final memory and the input values.     *)
(*                                                                         *)
(* The instance stays out of the state: `inst` is the index of the BEGIN   *)
(* line and InstOf reads it from the trace.  Handlers are total: a         *)
(* rejected line prints MISMATCH and the rest of its episode is skipped.   *)
(***************************************************************************)
EXTENDS Atomic, Json, IOUtils, TLC

Rec == ndJsonDeserialize(IOEnv.TRACE)

TraceInst(x) == Rec[x]

VARIABLES l, skip
tvars == <<inst, mem, pc, jix, seen, ret, l, skip>>

TraceInit == /\ inst = 1 /\ mem = <<>> /\ pc = <<>> /\ jix = <<>> /\ seen = <<>> /\ ret = <<>>
             /\ l = 1 /\ skip = FALSE

WordsEq(logged, m, n) ==      \* per-word bit lists against a memory
    /\ Len(logged) = n
    /\ \A k \in Low(n) : SeqSet(logged[k + 1]) = m[k]

\* ----- step -------------------------------------------------------------
StepWhy(ev) ==
    LET t == ev.t IN
    IF t \notin Threads THEN "thread"
    ELSE IF ev.out # (IF pc[t] = "done" THEN "na" ELSE "ret") THEN "outcome"
    ELSE IF pc[t] = "done" THEN "ok"
    ELSE LET o == OpAt(pc[t], Job(t))
             x == Eff(t)
             isf == o[1] \in {"bf_load", "bf_cas"}
             want == IF isf THEN x.mem.f[o[2]] ELSE x.mem.b[o[2]]
             nxt == IF x.pc = "done" THEN <<>> ELSE OpAt(x.pc, Prog(t)[x.jix])
             \* value returned by a call completed in this step
             r == IF x.jix > jix[t] THEN x.ret[jix[t]] ELSE <<>>
         IN  IF <<ev.kind, ev.word>> # o THEN "hook"
             ELSE IF I.mode = "efb" THEN (IF ev.nx # nxt THEN "next" ELSE IF ev.r # r THEN "ret" ELSE "ok")
             ELSE IF SeqSet(ev.cur) # want THEN "mem"
             ELSE IF \E c \in SeqSet(ev.chg) :
                        \/ c.v # (IF isf THEN "f" ELSE "b") \/ c.k # o[2] \/ SeqSet(c.bits) # want
                  THEN "frame"
             ELSE IF want # (IF isf THEN mem.f[o[2]] ELSE mem.b[o[2]]) /\ ev.chg = <<>> THEN "frame"
             ELSE IF ev.nx # nxt THEN "next"
             ELSE IF ev.r # r THEN "ret"
             ELSE "ok"

\* ----- end --------------------------------------------------------------
FieldsEq(logged) == /\ Len(logged) = I.flen
                    /\ \A i \in Low(I.flen) : SeqSet(logged[i + 1]) = FieldVal(mem.f, i)
BitsEq(logged)   == SeqSet(logged) = {p \in Low(I.blen) : BBit(mem.b, p)}
OutsEq(logged)   ==
    /\ Len(logged) = Len(I.prog)
    /\ \A t \in Threads :
         /\ Len(logged[t]) = Len(Prog(t))
         /\ \A k \in 1 .. Len(Prog(t)) :
              logged[t][k] = <<IF InDomain(Prog(t)[k]) THEN "ret" ELSE "panic", ret[t][k]>>

\* ----- mode "efb" ----------------------------------------------------------
Pow2(k)      == 2 ^ k
BitsOfNat(x, k) == {c \in Low(k) : (x \div Pow2(c)) % 2 = 1}
CeilDiv(a, c) == (a + c - 1) \div c

\* the header describes what EliasFanoConcurrentBuilder::new(n, u) allocates
\* (l = width is the generator's choice; the end event shows the builder's)
\* and the jobs are the calls set(i, x_i), every index exactly once
EfbOK(ii) ==
    LET lw == ii.width
        js == UNION {{ii.prog[t][k] : k \in 1 .. Len(ii.prog[t])} : t \in 1 .. Len(ii.prog)}
    IN  /\ ii.w = 64 /\ lw <= 30 /\ ii.u < Pow2(30) /\ ii.flen = ii.n
        /\ ii.blen = ii.n + (ii.u \div Pow2(lw)) + 1
        /\ ii.nfw = (IF CeilDiv(ii.n * lw, 64) = 0 THEN 1 ELSE CeilDiv(ii.n * lw, 64))
        /\ ii.nbw = CeilDiv(ii.blen, 64)
        /\ \A k \in 1 .. ii.nfw : ii.finit[k] = <<>>
        /\ \A k \in 1 .. ii.nbw : ii.binit[k] = <<>>
        /\ \A j \in js : /\ j.kind = "efset" /\ j.x <= ii.u
                          /\ SeqSet(j.val) = BitsOfNat(j.x, lw)
                          /\ j.hi = (j.x \div Pow2(lw)) + j.idx
        /\ {j.idx : j \in js} = Low(ii.n)
        /\ Cardinality(js) = ii.n

\* same set bits; how many words the structure allocates is its own business
WordsSame(logged, m, n) ==
    /\ \A k \in 1 .. Len(logged) : SeqSet(logged[k]) = (IF k - 1 < n THEN m[k - 1] ELSE {})
    /\ \A k \in Low(n) : k + 1 > Len(logged) => m[k] = {}

PartsEqAt(p, m) ==
    /\ p.n = I.n
    /\ p.l.lw = Width /\ p.l.llen = I.flen /\ WordsSame(p.l.low, m.f, I.nfw)
    /\ p.h.hlen = I.blen /\ WordsSame(p.h.high, m.b, I.nbw)
    /\ p.vals = [i \in 1 .. I.n |-> JobOf(CHOOSE tk \in Jobs : JobOf(tk).idx = i - 1).x]
PartsEq(p) == PartsEqAt(p, mem)

EfbEndWhy(ev) ==
    IF ev.out # "ret" THEN "outcome"
    ELSE IF ~Quiescent THEN "unfinished"
    ELSE IF ~OutsEq(ev.outs) THEN "outs"
    ELSE IF ~NoInterferenceAt(mem) THEN "interference"
    ELSE IF ~PartsEq(ev.cb) THEN "ef-concurrent"
    ELSE IF ~PartsEq(ev.sb) THEN "ef-sequential"
    ELSE "ok"

EndWhy(ev) ==
    IF I.mode = "efb" THEN EfbEndWhy(ev)
    ELSE IF ev.out # "ret" THEN "outcome"
    ELSE IF ~Quiescent THEN "unfinished"
    ELSE IF ~WordsEq(ev.fmem, mem.f, I.nfw) \/ ~WordsEq(ev.bmem, mem.b, I.nbw) THEN "final-mem"
    ELSE IF ~FieldsEq(ev.fget) THEN "get_atomic"
    ELSE IF ~BitsEq(ev.bget) THEN "get"
    ELSE IF ~FieldsEq(ev.fconv) \/ ~WordsEq(ev.fconvw, mem.f, I.nfw) THEN "into-bitfieldvec"
    ELSE IF ~BitsEq(ev.bconv) \/ ~WordsEq(ev.bconvw, mem.b, I.nbw) THEN "into-bitvec"
    ELSE IF ~OutsEq(ev.outs) THEN "outs"
    ELSE IF DistinctFields /\ ~NoInterferenceAt(mem) THEN "interference"
    ELSE "ok"

\* ----- free ----------------------------------------------------------------
\* The threads ran unscheduled (real races, `reps` times from the same initial
\* memory); the event lists the distinct outcomes observed: final memory and
\* the outcome / returned bit of every job.  No interleaving was recorded, so
\* each outcome is judged by what every interleaving of the specification
\* guarantees: written fields hold their writer's last value, private bits
\* their writer's last value, nothing else changed (NoInterferenceAt, for
\* programs writing distinct fields), and the calls on every bit have a
\* linearization explaining the returned values and the final bit.
\* (mode efb: the vectors are private; an outcome is the built structure,
\* which must be the sequential execution (DirectSeqMem).)
FreshState == /\ mem = InitMem
              /\ \A t \in Threads : jix[t] = NextJob(t, 1) /\ pc[t] = PcAt(t, jix[t])

RetOfOuts(o) == [t \in Threads |-> [k \in 1 .. Len(Prog(t)) |-> o[t][k][2]]]
OutsShapeOK(o) ==
    /\ Len(o) = Len(I.prog)
    /\ \A t \in Threads :
         /\ Len(o[t]) = Len(Prog(t))
         /\ \A k \in 1 .. Len(Prog(t)) :
              LET j == Prog(t)[k] IN
              /\ o[t][k][1] = (IF InDomain(j) THEN "ret" ELSE "panic")
              /\ IF InDomain(j) /\ j.kind \in {"swapbit", "getbit"}
                 THEN o[t][k][2] \in {<<TRUE>>, <<FALSE>>} ELSE o[t][k][2] = <<>>
MemOfLogged(x) == [f |-> [k \in Low(I.nfw) |-> SeqSet(x.fmem[k + 1])],
                   b |-> [k \in Low(I.nbw) |-> SeqSet(x.bmem[k + 1])]]
MemShapeOK(x) ==
    /\ Len(x.fmem) = I.nfw /\ \A k \in 1 .. I.nfw : SeqSet(x.fmem[k]) \subseteq Low(FW)
    /\ Len(x.bmem) = I.nbw /\ \A k \in 1 .. I.nbw : SeqSet(x.bmem[k]) \subseteq Low(BW)
TouchedBits == {BitPos(JobOf(tk)) : tk \in BitJobs}

OutcomeWhy(x) ==
    IF ~OutsShapeOK(x.outs) THEN "free-outs"
    ELSE IF I.mode = "efb"
    THEN (IF ~PartsEqAt(x.cb, DirectSeqMem) THEN "free-ef-concurrent" ELSE "ok")
    ELSE IF ~MemShapeOK(x) THEN "free-mem-shape"
    ELSE LET m == MemOfLogged(x)  rt == RetOfOuts(x.outs) IN
         IF ~NoInterferenceAt(m) THEN "free-interference"
         ELSE IF \E p \in TouchedBits : ~LinearizableOnAt(p, m, rt) THEN "free-linearizability"
         ELSE "ok"

FreeWhy(ev) ==
    IF ev.out # "ret" THEN "outcome"
    ELSE IF ~FreshState THEN "free-not-first"
    ELSE IF ~DistinctFields \/ \E p \in TouchedBits : Cardinality(BitOpsOn(p)) > 6 THEN "bad-script"
    ELSE IF ev.outcomes = <<>> /\ I.mode # "efb" THEN "free-empty"
    ELSE LET bad == {k \in 1 .. Len(ev.outcomes) : OutcomeWhy(ev.outcomes[k]) # "ok"} IN
         IF bad = {} THEN "ok" ELSE OutcomeWhy(ev.outcomes[CHOOSE k \in bad : \A k2 \in bad : k <= k2])

\* the state after a free event: every thread done, the last outcome
FreeInstall(ev) ==
    LET x == ev.outcomes[Len(ev.outcomes)] IN   \* (efb: the last builder is built and logged by "end")
    /\ mem' = (IF I.mode = "efb" THEN DirectSeqMem ELSE MemOfLogged(x))
    /\ pc' = [t \in Threads |-> "done"]
    /\ jix' = [t \in Threads |-> Len(Prog(t)) + 1]
    /\ seen' = [t \in Threads |-> {}]
    /\ ret' = (IF I.mode = "efb" THEN [t \in Threads |-> [k \in 1 .. Len(Prog(t)) |-> <<>>]]
                ELSE RetOfOuts(x.outs))
    /\ UNCHANGED inst

BeginWhy(ev, ii) ==
    IF ev.out # "ret" THEN "outcome"
    ELSE IF ~WellFormedI(ii) \/ ii.mode \notin {"vec", "efb"} THEN "instance"
    ELSE IF ii.mode = "efb" THEN (IF EfbOK(ii) THEN "ok" ELSE "instance")
    ELSE IF ~WordsEq(ev.f0, InitMemI(ii).f, ii.nfw) \/ ~WordsEq(ev.b0, InitMemI(ii).b, ii.nbw) THEN "init-mem"
    ELSE "ok"

Mismatch(ev, why) == /\ PrintT(<<"MISMATCH", ev.ep, ev.seq, ev.op, why>>)
                     /\ skip' = TRUE

Step ==
    /\ l <= Len(Rec)
    /\ l' = l + 1
    /\ LET ev == Rec[l] IN
       IF ev.op = "BEGIN"
       THEN LET w == BeginWhy(ev, ev) IN
            IF w = "ok"
            THEN /\ inst' = l
                 /\ mem' = InitMemI(ev)
                 /\ jix' = [t \in 1 .. Len(ev.prog) |-> NextJobI(ev, t, 1)]
                 /\ pc' = [t \in 1 .. Len(ev.prog) |-> PcAtI(ev, t, NextJobI(ev, t, 1))]
                 /\ seen' = [t \in 1 .. Len(ev.prog) |-> {}]
                 /\ ret' = [t \in 1 .. Len(ev.prog) |-> [k \in 1 .. Len(ev.prog[t]) |-> <<>>]]
                 /\ skip' = FALSE
            ELSE Mismatch(ev, w) /\ UNCHANGED avars
       ELSE IF skip THEN UNCHANGED <<inst, mem, pc, jix, seen, ret, skip>>
       ELSE IF ev.op = "step"
       THEN LET w == IF ev.out \in {"ret", "na"} THEN StepWhy(ev) ELSE "outcome" IN
            IF w = "ok"
            THEN /\ (IF pc[ev.t] = "done" THEN UNCHANGED avars ELSE Install(ev.t, Eff(ev.t)))
                 /\ skip' = FALSE
            ELSE Mismatch(ev, w) /\ UNCHANGED avars
       ELSE IF ev.op = "free"
       THEN LET w == FreeWhy(ev) IN
            IF w = "ok" THEN FreeInstall(ev) /\ skip' = FALSE
            ELSE Mismatch(ev, w) /\ UNCHANGED avars
       ELSE IF ev.op = "end"
       THEN LET w == EndWhy(ev) IN
            IF w = "ok" THEN UNCHANGED <<inst, mem, pc, jix, seen, ret, skip>>
            ELSE Mismatch(ev, w) /\ UNCHANGED avars
       ELSE Mismatch(ev, "unknown-op") /\ UNCHANGED avars

Finish == /\ l = Len(Rec) + 1
          /\ PrintT(<<"TRACE-END", Len(Rec)>>)
          /\ l' = l + 1
          /\ UNCHANGED <<inst, mem, pc, jix, seen, ret, skip>>

TraceNext == Step \/ Finish
TraceSpec == TraceInit /\ [][TraceNext]_tvars

\* every line was consumed (diameter counts the initial state and Finish)
TraceAccepted == TLCGet("stats").diameter = Len(Rec) + 2

\* no instruction of the specification addresses a word outside the storage
\* (Frame / NoInterference are evaluated on the final memory by EndWhy; every
\* step is already required to change the touched word only)
TraceInv == (skip \/ l = 1) \/ NoOOB
=============================================================================
