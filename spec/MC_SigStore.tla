----------------------------- MODULE MC_SigStore -----------------------------
(***************************************************************************)
(* Bounded instances of SigStore:                                          *)
(*  - MC_SigStore_small*.cfg : every store configuration (online/offline,  *)
(*    bucket bits, max shard bits), every push sequence of up to MaxPush   *)
(*    pairs over all 3-bit tops (hence every multiset, skewed ones         *)
(*    included), every requested shard bits <= max (and max + 1: the       *)
(*    documented panic), up to MaxBorrowed borrowed iterations, each       *)
(*    complete or dropped after any number of shards, then the consuming   *)
(*    one; all design invariants in every reachable state.  The read       *)
(*    buffer of the offline split branch holds RB = 2 records, so that     *)
(*    buckets of 3 and 4 records cross its boundary.                       *)
(*  - MC_SigStore_export*.cfg : the same behaviours (complete runs ending  *)
(*    with the consuming iteration) printed as scripts for the executor.   *)
(* Signatures are real 64-bit patterns: top 3 bits = top, lowest limb = a  *)
(* tag, so exported scripts replay verbatim on [u64; 1] / [u64; 2].        *)
(***************************************************************************)
EXTENDS SigStore, TLC, Json

CONSTANTS Kinds, BBs, MBs,   \* configurations
          Tops, Lows,        \* pairs that can be pushed: top 3 bits x tag
          MaxPush,           \* pushes per behaviour
          MaxBorrowed,       \* borrowed iterations per behaviour
          Partial,           \* TRUE: iterators may be dropped before the end
          BadBits,           \* TRUE: into_shard_store(max + 1) is also tried
          Export             \* TRUE: print scripts

VARIABLES hist, nbor
mcvars == <<cfg, phase, pushed, sbits, ssz, buckets, bsz, fine, it, emitted, ref, passok, oob, hist, nbor>>

Configs == {[kind |-> k, bb |-> b, mb |-> m] : k \in Kinds, b \in BBs, m \in MBs}

\* word with top 3 bits `top` (bits 61..63 = limb 5, bits 1..3) and low limb `tag`
Mk(top, tag) == <<<<WNorm(<<tag, 0, 0, 0, top * 2>>)>>, top * 2 + tag>>
Items == {Mk(t, g) : t \in Tops, g \in Lows}

ASSUME \A x \in Items : TopAgree(x[1])
ASSUME \A t \in Tops, g \in Lows : TopBits(Mk(t, g)[1], 3) = t

Big == 1000000
Obs(o) == [op |-> o]

MCInit == /\ \E c \in Configs : SSInit(c)
          /\ hist = <<>> /\ nbor = 0

MCPush ==
    /\ Len(pushed) < MaxPush
    /\ \E x \in Items :
          /\ Push(x)
          /\ hist' = Append(hist, [op |-> "push", sig |-> x[1], val |-> x[2]])
    /\ UNCHANGED nbor

MCInto ==
    /\ \E s \in 0 .. (cfg.mb + (IF BadBits THEN 1 ELSE 0)) :
          /\ IntoShardStore(s)
          /\ hist' = hist \o <<Obs("len"), Obs("is_empty"), Obs("max_shard_high_bits"), Obs("temp_dir"),
                               [op |-> "into_shard_store", s |-> s],
                               Obs("shard_sizes"), Obs("store_len")>>
    /\ UNCHANGED nbor

MCIterBorrowed ==
    /\ nbor < MaxBorrowed
    /\ IterNew(TRUE)
    /\ nbor' = nbor + 1
    /\ UNCHANGED hist

MCIterConsuming ==
    /\ nbor \in (IF Export THEN {MaxBorrowed} ELSE {0, MaxBorrowed})
    /\ IterNew(FALSE)
    /\ UNCHANGED <<hist, nbor>>

PassOp(take, extra) == [op |-> IF it.borrowed THEN "iter" ELSE "into_iter", take |-> take, extra |-> extra]

MCIterNext ==
    /\ phase \in {"iter", "into"}
    /\ hist' = IF NextRes.some THEN hist ELSE Append(hist, PassOp(Big, 2))
    /\ IterNext
    /\ UNCHANGED nbor

MCIterDrop ==
    /\ Partial
    /\ phase \in {"iter", "into"}
    /\ hist' = Append(hist, PassOp(Len(emitted), 0))
    /\ IterDrop
    /\ UNCHANGED nbor

\* one action name per branch of Iterator::next, for TLC's coverage report
Crossing == /\ Branch = "split" /\ Offline /\ it.pend = <<>> /\ it.nb < NB
            /\ bsz[it.nb + 1] > RB                 \* the bucket needs more than one read buffer
MCNextEqual      == Branch = "equal" /\ MCIterNext
MCNextAggregate  == Branch = "aggregate" /\ MCIterNext
MCNextSplit      == Branch = "split" /\ ~Crossing /\ MCIterNext
MCNextSplitCross == Crossing /\ MCIterNext

MCNext == MCPush \/ MCInto \/ MCIterBorrowed \/ MCIterConsuming \/ MCIterDrop
          \/ MCNextEqual \/ MCNextAggregate \/ MCNextSplit \/ MCNextSplitCross
MCSpec == MCInit /\ [][MCNext]_mcvars

\* history hidden: the design state decides everything
View == <<cfg, phase, BagOf(pushed), sbits, ssz, buckets, bsz, fine, it, emitted, ref, passok, oob, nbor>>

\* ----- export -----------------------------------------------------------
TypeIx == (Len(pushed) + cfg.bb + 2 * sbits + cfg.mb) % 6
SigT   == IF TypeIx % 2 = 0 THEN "s1" ELSE "s2"
ValT   == <<"u8", "u64", "empty">>[(TypeIx \div 2) + 1]
Tr(o)  == IF o.op = "push"
          THEN [op |-> "push",
                sig |-> IF SigT = "s2" THEN o.sig \o <<<<o.val + 1, 5>>>> ELSE o.sig,
                val |-> IF ValT = "empty" THEN 0 ELSE o.val]
          ELSE o

Emit == (Export /\ phase \in {"done", "dead"}) =>
            PrintT(<<"SCRIPT", ToJson([fam |-> "sigstore", src |-> "tlc", kind |-> cfg.kind,
                                       bb |-> cfg.bb, mb |-> cfg.mb, st |-> SigT, vt |-> ValT,
                                       ops |-> [k \in 1 .. Len(hist) |-> Tr(hist[k])]])>>)
=============================================================================
