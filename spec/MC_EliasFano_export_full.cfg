SPECIFICATION MCSpec
CONSTANTS
  Mode = "builders"
  MaxN = 3
  Extra = 2
  MaxSN = 0
  MaxSU = 0
INVARIANTS StateOK Emit EmitShort
CHECK_DEADLOCK FALSE
