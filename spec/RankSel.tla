------------------------------- MODULE RankSel -------------------------------
(***************************************************************************)
(* Rank and select structures of sux::rank_sel over a bit vector           *)
(* (properties C01, C02 and the rank/select parts of C11, C12, C15).       *)
(*                                                                         *)
(* Abstract state: one immutable bit vector  v  -- its length and the set  *)
(* of positions below the length that hold a one, kept as the sorted list  *)
(* of its maximal runs of ones  [s[k], e[k])  together with the running    *)
(* count  c[k]  of ones before run k (a witness the specification checks,  *)
(* WitnessOK, and then binary-searches) -- and the *stack* of structures   *)
(* built over it (Rank9, RankSmall, Select9, SelectAdapt, ... in any       *)
(* nesting).  What lies in the backend beyond the length (stale bits after *)
(* pop/truncate, garbage handed to from_raw_parts, spare words) is not     *)
(* part of the abstract state: no answer may depend on it.                 *)
(*                                                                         *)
(* Every public operation is an operator giving the admissible outcome and *)
(* result from (v, stack, operation record).  All structures are judged    *)
(* against the same v, hence agree with each other.                        *)
(***************************************************************************)
EXTENDS Naturals, Integers, Sequences, FiniteSets

HUGE == 2147483647        \* "an argument/result >= 2^31 - 1" (see FAMILY_GUIDE, Numbers)
NONE == -1                \* Option::None of a batched select result

\* arguments below zero stand for huge values (usize::MAX, 2^63, 2^32)
Arg(x) == IF x < 0 THEN HUGE ELSE x

(***************************************************************************)
(* The abstract bit vector  v = [len, s, e, c].                            *)
(***************************************************************************)
NRuns(v) == Len(v.s)
Ones(v)  == v.c[NRuns(v) + 1]          \* m, the number of ones
Zeros(v) == v.len - Ones(v)            \* z

WitnessOK(v) ==
    /\ Len(v.e) = NRuns(v)
    /\ Len(v.c) = NRuns(v) + 1
    /\ v.c[1] = 0
    /\ \A k \in 1 .. NRuns(v) :
          /\ v.s[k] < v.e[k]
          /\ v.e[k] <= v.len
          /\ v.c[k + 1] = v.c[k] + v.e[k] - v.s[k]
          /\ (k > 1 => v.e[k - 1] < v.s[k])

\* the three monotone keys that are searched: start of run k, ones before
\* run k, zeros before run k
Key(v, key, k) == CASE key = "s" -> v.s[k]
                    [] key = "c" -> v.c[k]
                    [] key = "z" -> v.s[k] - v.c[k]

\* largest k in lo..hi with Key(k) <= x, lo - 1 if there is none
RECURSIVE LastLE(_, _, _, _, _)
LastLE(v, key, lo, hi, x) ==
    IF lo > hi THEN hi
    ELSE LET mid == (lo + hi) \div 2 IN
         IF Key(v, key, mid) <= x THEN LastLE(v, key, mid + 1, hi, x)
                                  ELSE LastLE(v, key, lo, mid - 1, x)

\* number of ones among the first min(p, len) bits
Rank(v, p) ==
    LET q == IF p < v.len THEN p ELSE v.len
        k == IF q = 0 THEN 0 ELSE LastLE(v, "s", 1, NRuns(v), q - 1)
    IN  IF k = 0 THEN 0
        ELSE v.c[k] + (IF q < v.e[k] THEN q ELSE v.e[k]) - v.s[k]

RankZero(v, p) == IF p = HUGE THEN HUGE ELSE p - Rank(v, p)

\* the bit at position i < len
Bit(v, i) == LET k == LastLE(v, "s", 1, NRuns(v), i) IN k > 0 /\ i < v.e[k]

\* position of the one of rank r, NONE if r >= m
Select(v, r) ==
    IF r >= Ones(v) THEN NONE
    ELSE LET k == LastLE(v, "c", 1, NRuns(v), r) IN v.s[k] + (r - v.c[k])

\* position of the zero of rank r, NONE if r >= z
SelectZero(v, r) ==
    IF r >= Zeros(v) THEN NONE
    ELSE LET k == LastLE(v, "z", 1, NRuns(v), r) IN
         IF k = 0 THEN r ELSE v.e[k] + (r - (v.s[k] - v.c[k]))

(***************************************************************************)
(* Stacks.  A build recipe is a sequence of layer records, bottom-up,      *)
(* over the bit vector; field  t  is the layer type:                       *)
(*   anb  AddNumBits            r9  Rank9          rs  RankSmall (k = 0..4)*)
(*   s9   Select9               sa  SelectAdapt    sza SelectZeroAdapt     *)
(*   sac  SelectAdaptConst      szac SelectZeroAdaptConst                  *)
(*   ss   SelectSmall           szs SelectZeroSmall                        *)
(*   map  the layers  ins  are built *underneath* the layer built last     *)
(*        (the structures'  map()  methods)                                *)
(* Canon gives the resulting nesting, bottom-up.                           *)
(***************************************************************************)
RECURSIVE Canon(_)
Canon(kind) ==
    IF kind = <<>> THEN <<>>
    ELSE LET front == Canon(SubSeq(kind, 1, Len(kind) - 1))
             last  == kind[Len(kind)]
         IN  IF last.t = "map"
             THEN SubSeq(front, 1, Len(front) - 1) \o last.ins \o <<front[Len(front)]>>
             ELSE Append(front, last)

(***************************************************************************)
(* Which traits a stack implements: the delegation lists of the structs    *)
(* (#[delegate(...)] in src/rank_sel/*.rs, AddNumBits in traits/rank_sel)  *)
(* and the bounds of the impl blocks.  An operation whose trait the stack  *)
(* does not implement does not exist ("na").                               *)
(***************************************************************************)
BitVecCaps == {"Len", "Idx", "Words", "BitCount", "RankHinted", "SelectHinted", "SelectZeroHinted"}

Forwarded(t) ==
    CASE t = "anb" -> {"Words", "Idx", "Len", "Rank", "RankHinted", "RankU", "RankZero", "Select",
                       "SelectHinted", "SelectU", "SelectZero", "SelectZeroHinted", "SelectZeroU"}
      [] t \in {"r9", "rs"} ->
                      {"Words", "Idx", "Len", "RankHinted", "SelectZeroHinted", "SelectU", "Select",
                       "SelectZeroU", "SelectZero", "SelectHinted"}
      [] t \in {"s9", "sa", "sac"} ->
                      {"Words", "Idx", "BitCount", "Len", "NumBits", "Rank", "RankHinted", "RankU",
                       "RankZero", "SelectHinted", "SelectZero", "SelectZeroHinted", "SelectZeroU"}
      [] t \in {"sza", "szac"} ->
                      {"Words", "Idx", "BitCount", "Len", "NumBits", "Rank", "RankHinted", "RankU",
                       "RankZero", "Select", "SelectHinted", "SelectU", "SelectZeroHinted"}
      [] t = "ss" -> {"Words", "Idx", "BitCount", "Len", "NumBits", "Rank", "RankHinted", "RankU",
                      "RankZero", "SelectHinted", "SelectZero", "SelectZeroHinted", "SelectZeroU",
                      "SmallCounters"}
      [] t = "szs" -> {"Words", "Idx", "BitCount", "Len", "NumBits", "Rank", "RankHinted", "RankU",
                       "RankZero", "Select", "SelectHinted", "SelectU", "SelectZeroHinted",
                       "SmallCounters"}

If(c, S) == IF c THEN S ELSE {}

\* traits the layer implements itself, given what the layer below implements
Provided(t, C) ==
    CASE t = "anb" -> If("Len" \in C, {"NumBits", "BitCount"})
      [] t = "r9"  -> If({"Len", "Words"} \subseteq C, {"NumBits", "BitCount", "RankU", "Rank", "RankZero"})
      [] t = "rs"  -> If({"Len", "Words", "RankHinted"} \subseteq C,
                         {"NumBits", "BitCount", "RankU", "Rank", "RankZero", "SmallCounters"})
      [] t = "s9"  -> {"SelectU", "Select"}
      [] t \in {"sa", "sac"} ->
                      If({"Words", "Len", "SelectHinted"} \subseteq C, {"SelectU"})
                      \cup If({"Words", "NumBits", "SelectHinted"} \subseteq C, {"Select"})
      [] t \in {"sza", "szac"} ->
                      If({"Words", "Len", "SelectZeroHinted"} \subseteq C, {"SelectZeroU"})
                      \cup If({"Words", "NumBits", "SelectZeroHinted"} \subseteq C, {"SelectZero"})
      [] t = "ss"  -> If({"SmallCounters", "Words", "Len", "NumBits", "SelectHinted"} \subseteq C,
                         {"SelectU", "Select"})
      [] t = "szs" -> If({"SmallCounters", "Words", "Len", "NumBits", "SelectZeroHinted"} \subseteq C,
                         {"SelectZeroU", "SelectZero"})

RECURSIVE Caps(_)
Caps(stack) ==
    IF stack = <<>> THEN BitVecCaps
    ELSE LET C == Caps(SubSeq(stack, 1, Len(stack) - 1))
             t == stack[Len(stack)].t
         IN  (C \cap Forwarded(t)) \cup Provided(t, C)

\* what the constructor of the layer requires of the layer below
Buildable(t, C) ==
    CASE t = "anb" -> "BitCount" \in C
      [] t = "r9"  -> {"Len", "Words"} \subseteq C
      [] t = "rs"  -> {"Len", "Words", "RankHinted"} \subseteq C
      [] t \in {"sa", "sac", "sza", "szac"} -> {"Words", "BitCount"} \subseteq C
      [] t = "ss"  -> {"SmallCounters", "Words", "Len", "NumBits", "SelectHinted"} \subseteq C
      [] t = "szs" -> {"SmallCounters", "Words", "Len", "NumBits", "SelectZeroHinted"} \subseteq C
      [] t = "s9"  -> TRUE      \* the layer below must be a Rank9 (WellFormed)

WellFormed(stack) ==
    \A i \in 1 .. Len(stack) :
        /\ Buildable(stack[i].t, Caps(SubSeq(stack, 1, i - 1)))
        /\ (stack[i].t = "s9" => i > 1 /\ stack[i - 1].t = "r9")
        /\ (stack[i].t \in {"ss", "szs"} =>
              \E j \in 1 .. (i - 1) : stack[j].t = "rs" /\ stack[j].k = stack[i].k)

\* the trait each operation belongs to
TraitOf(o) ==
    CASE o = "len" -> "Len"
      [] o = "index" -> "Idx"
      [] o \in {"count_ones", "count_zeros"} -> "BitCount"
      [] o \in {"num_ones", "num_zeros"} -> "NumBits"
      [] o = "rank" -> "Rank"
      [] o = "rank_u" -> "RankU"
      [] o \in {"rank_zero", "rank_zero_u"} -> "RankZero"
      [] o = "rank_hinted" -> "RankHinted"
      [] o = "select" -> "Select"
      [] o = "select_u" -> "SelectU"
      [] o = "select_zero" -> "SelectZero"
      [] o = "select_zero_u" -> "SelectZeroU"
      [] o = "select_hinted" -> "SelectHinted"
      [] o = "select_zero_hinted" -> "SelectZeroHinted"

QueryOps == {"len", "index", "count_ones", "count_zeros", "num_ones", "num_zeros", "rank", "rank_u",
             "rank_zero", "rank_zero_u", "rank_hinted", "select", "select_u", "select_zero",
             "select_zero_u", "select_hinted", "select_zero_hinted"}

(***************************************************************************)
(* C11: documented space overhead, in bytes, of each layer over a vector   *)
(* of  n  bits: the nominal fraction of n bits plus an additive constant    *)
(* of "a few words or blocks".  Frac(n, a, b) bounds  a/b * n  bits from    *)
(* above, in bytes, within  a  bytes.  What the code allocates beyond the   *)
(* nominal fraction (MC_RankSel!SpaceOK checks these formulas against the   *)
(* bounds for every small length):                                          *)
(*   Rank9     16-byte counter pair per 512 bits: one for rounding up, one *)
(*             sentinel holding the total, 16 for the Box<[..]> itself     *)
(*             = 48 bytes; admitted: 4 counter pairs = 64                  *)
(*   RankSmall one counter block of 12/8/8/8/16 bytes for rounding up, one *)
(*             8-byte upper count per 2^32 bits (lengths here are < 2^32), *)
(*             two boxed slices (2 * 16) and the usize num_ones            *)
(*             = block + 48; admitted: 2 blocks + 64                       *)
(*   Select9   one inventory word per 512 ones plus a sentinel, one        *)
(*             subinventory word per 4 words: 8 + 8 + 8 for rounding and   *)
(*             sentinel, two boxed slices and two usize fields (48)        *)
(*             = 72; admitted: 16 words = 128                              *)
(*   AddNumBits one usize; admitted: two.                                  *)
(* (The admitted constants leave room for a different container header or  *)
(* one more sentinel; anything proportional to n is caught.)  The          *)
(* selection structures of the "adapt"/"small" families have no documented *)
(* bound: a stack containing one is only required to be no smaller than    *)
(* the vector it wraps.                                                    *)
(***************************************************************************)
Frac(n, a, b) == ((n \div (8 * b)) + 1) * a

RsBlockBytes(k) == CASE k = 0 -> 12 [] k = 4 -> 16 [] OTHER -> 8
RsDen(k)        == CASE k = 0 -> 16 [] k = 1 -> 8 [] k = 2 -> 16 [] k = 3 -> 32 [] k = 4 -> 64
RsNum(k)        == IF k = 0 THEN 3 ELSE 1          \* 3/16, 1/8, 1/16, 1/32, 1/64

HasBound(layer) == layer.t \in {"anb", "r9", "rs", "s9"}
LayerBound(layer, n) ==
    CASE layer.t = "anb" -> 16
      [] layer.t = "r9"  -> Frac(n, 1, 4) + 64
      [] layer.t = "rs"  -> Frac(n, RsNum(layer.k), RsDen(layer.k)) + 2 * RsBlockBytes(layer.k) + 64
      [] layer.t = "s9"  -> Frac(n, 3, 8) + 128

RECURSIVE StackBound(_, _)
StackBound(stack, n) ==
    IF stack = <<>> THEN 0
    ELSE LayerBound(stack[Len(stack)], n) + StackBound(SubSeq(stack, 1, Len(stack) - 1), n)

MemSizeOK(stack, n, total, inner) ==
    /\ total >= inner
    /\ (\A i \in 1 .. Len(stack) : HasBound(stack[i])) => total - inner <= StackBound(stack, n)

(***************************************************************************)
(* Outcome and result of one call on the structure  stack  over  v         *)
(* (loaded = "own" | "full" | "eps" | "mmap": how the instance came to     *)
(* be).  Returns "ok" or the first reason why the logged event  ev  is     *)
(* not admissible.  Every query must return: out = "ret"; the only         *)
(* admissible panic is Index with a position >= len.  `abort` and `hang`   *)
(* are admissible nowhere (C12).  The *_unchecked and hinted operations    *)
(* are only ever called inside their documented preconditions; an event    *)
(* outside them is reported as "precondition" (an error of the script).    *)
(***************************************************************************)
All(xs, P(_)) == \A k \in 1 .. Len(xs) : P(k)

\* the traits of a loaded instance: the impls of SelectSmall / SelectZeroSmall
\* are generic in their inventory types, so that nothing changes
CapsOf(stack, loaded) == Caps(stack)

QueryWhy(v, stack, loaded, ev) ==
    LET o == ev.op
        m == Ones(v)
    IN
    \* an operation of a trait the stack implements must exist; one the tables above do not
    \* list may exist (a further impl is no violation), but then it is held to the same answers
    IF ev.out = "na"
    THEN (IF TraitOf(o) \notin CapsOf(stack, loaded) THEN "ok" ELSE "outcome-na")
    ELSE IF o = "index" /\ \E k \in 1 .. Len(ev.ps) : Arg(ev.ps[k]) >= v.len
    THEN (IF ev.out = "panic" THEN "ok" ELSE "outcome-index-oob")
    ELSE IF ev.out # "ret" THEN "outcome"
    ELSE CASE
       o = "len"         -> IF ev.res = v.len THEN "ok" ELSE "len"
    [] o \in {"num_ones", "count_ones"}   -> IF ev.res = m THEN "ok" ELSE o
    [] o \in {"num_zeros", "count_zeros"} -> IF ev.res = v.len - m THEN "ok" ELSE o
    [] o = "index"       ->
         IF Len(ev.res) = Len(ev.ps) /\ All(ev.ps, LAMBDA k : ev.res[k] = Bit(v, ev.ps[k]))
         THEN "ok" ELSE "index"
    [] o \in {"rank", "rank_u"} ->
         IF o = "rank_u" /\ ~All(ev.ps, LAMBDA k : Arg(ev.ps[k]) < v.len) THEN "precondition"
         ELSE IF Len(ev.res) = Len(ev.ps) /\ All(ev.ps, LAMBDA k : ev.res[k] = Rank(v, Arg(ev.ps[k])))
         THEN "ok" ELSE "rank"
    [] o \in {"rank_zero", "rank_zero_u"} ->
         IF o = "rank_zero_u" /\ ~All(ev.ps, LAMBDA k : Arg(ev.ps[k]) < v.len) THEN "precondition"
         ELSE IF Len(ev.res) = Len(ev.ps) /\ All(ev.ps, LAMBDA k : ev.res[k] = RankZero(v, Arg(ev.ps[k])))
         THEN "ok" ELSE "rank_zero"
    [] o \in {"select", "select_u"} ->
         IF o = "select_u" /\ ~All(ev.rs, LAMBDA k : Arg(ev.rs[k]) < m) THEN "precondition"
         ELSE IF Len(ev.res) = Len(ev.rs) /\ All(ev.rs, LAMBDA k : ev.res[k] = Select(v, Arg(ev.rs[k])))
         THEN "ok" ELSE "select"
    [] o \in {"select_zero", "select_zero_u"} ->
         IF o = "select_zero_u" /\ ~All(ev.rs, LAMBDA k : Arg(ev.rs[k]) < v.len - m) THEN "precondition"
         ELSE IF Len(ev.res) = Len(ev.rs) /\ All(ev.rs, LAMBDA k : ev.res[k] = SelectZero(v, Arg(ev.rs[k])))
         THEN "ok" ELSE "select_zero"
    [] o = "rank_hinted" ->
         \* valid hint: hs[k] is a word index with 64 * hs[k] <= ps[k] < len and hr[k] the ones before it
         IF ~(Len(ev.hs) = Len(ev.ps) /\ Len(ev.hr) = Len(ev.ps)
              /\ All(ev.ps, LAMBDA k : ev.ps[k] < v.len /\ 64 * ev.hs[k] <= ev.ps[k]
                                       /\ ev.hr[k] = Rank(v, 64 * ev.hs[k])))
         THEN "precondition"
         ELSE IF Len(ev.res) = Len(ev.ps) /\ All(ev.ps, LAMBDA k : ev.res[k] = Rank(v, ev.ps[k]))
         THEN "ok" ELSE "rank_hinted"
    [] o = "select_hinted" ->
         \* valid hint: hp[k] is the position of the one of rank hrs[k] <= rs[k] < m
         IF ~(Len(ev.hrs) = Len(ev.rs) /\ Len(ev.hp) = Len(ev.rs)
              /\ All(ev.rs, LAMBDA k : ev.rs[k] < m /\ ev.hrs[k] <= ev.rs[k]
                                       /\ ev.hp[k] = Select(v, ev.hrs[k])))
         THEN "precondition"
         ELSE IF Len(ev.res) = Len(ev.rs) /\ All(ev.rs, LAMBDA k : ev.res[k] = Select(v, ev.rs[k]))
         THEN "ok" ELSE "select_hinted"
    [] o = "select_zero_hinted" ->
         IF ~(Len(ev.hrs) = Len(ev.rs) /\ Len(ev.hp) = Len(ev.rs)
              /\ All(ev.rs, LAMBDA k : ev.rs[k] < v.len - m /\ ev.hrs[k] <= ev.rs[k]
                                       /\ ev.hp[k] = SelectZero(v, ev.hrs[k])))
         THEN "precondition"
         ELSE IF Len(ev.res) = Len(ev.rs) /\ All(ev.rs, LAMBDA k : ev.res[k] = SelectZero(v, ev.rs[k]))
         THEN "ok" ELSE "select_zero_hinted"

\* mem_size (C11): every structure reports it; the documented bound applies to
\* instances that own their storage (built, or loaded by full deserialization)
MemSizeWhy(v, stack, loaded, ev) ==
    IF ev.out # "ret" THEN "outcome"
    ELSE IF loaded \in {"eps", "eps8", "mmap"} THEN "ok"
    ELSE IF MemSizeOK(stack, v.len, ev.res, ev.inner) THEN "ok" ELSE "mem_size"

\* reload (C15): serialize, load back by `mode`, continue on the loaded copy.
\* Applicable to instances that own their storage; always succeeds; the
\* abstract state does not change.
ReloadApplicable(loaded) == loaded \in {"own", "full"}
ReloadWhy(loaded, ev) ==
    IF ~ReloadApplicable(loaded) THEN (IF ev.out = "na" THEN "ok" ELSE "outcome-na")
    ELSE IF ev.out = "ret" /\ ev.mode \in {"full", "eps", "eps8", "mmap"} THEN "ok" ELSE "outcome"

\* build: constructors must return for every well-formed stack over every vector
BuildWhy(ev) ==
    IF ~WellFormed(Canon(ev.kind)) THEN "precondition"
    ELSE IF ev.out = "ret" THEN "ok" ELSE "outcome"
=============================================================================
