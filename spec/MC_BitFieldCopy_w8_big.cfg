SPECIFICATION CSpec
CONSTANTS
  WT = "u8"
  Widths = {1, 2, 3, 4, 5, 6, 7, 8}
  MaxLen = 10
  Export = TRUE
INVARIANTS TypeOK Refines LargeEnough CopyCorrect Emit
CHECK_DEADLOCK FALSE
