\* Not part of any check: the transcription of the PINNED code (Fixed = FALSE).
\* TLC reports the NoOOB violations that the real code exhibits: iter_from(n)
\* selects the one of rank n (first counterexample: the empty sequence), and
\* pred(q) beyond the last bucket selects a zero that does not exist.
SPECIFICATION DSpec
CONSTANTS
  W = 4
  Fixed = FALSE
  FixedPred = FALSE
  MaxN = 3
  MaxU = 6
  AllL = FALSE
INVARIANTS Encoded Queried
CHECK_DEADLOCK FALSE
