SPECIFICATION DSpec
CONSTANTS
  W = 4
  Fixed = FALSE
  MaxN = 3
  MaxU = 6
  AllL = FALSE
INVARIANTS Encoded Queried
CHECK_DEADLOCK FALSE
